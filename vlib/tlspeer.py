"""QUIC-level key-holding TLS peer: the harness plays the TLS server (against a
client SUT) or the TLS client (against a server SUT) with vlib/reftls.py, and
carries the handshake messages in Initial / Handshake packets built with
vlib/refquic.py.  Used for hostile-but-well-keyed TLS messages (C05 G4) and
for altered / reordered flights at QUIC level (C03, C11).
"""
import collections

from . import endpoints as E
from . import refquic as R
from . import reftls as L
from . import tlsbench as B

SUITE = {0x1301: R.AES128, 0x1302: R.AES256, 0x1303: R.CHACHA}
HARNESS_CID = bytes.fromhex("f00dfacecafe0001")


def crypto_stream(frames_by_offset):
    data = bytearray()
    for off in sorted(frames_by_offset):
        if off <= len(data):
            data[off : off + len(frames_by_offset[off])] = frames_by_offset[off]
    return bytes(data)


class Peer:
    """common plumbing: packet building / opening for the three spaces"""

    def __init__(self, sut, sut_is_client, version=R.V1):
        self.sut = sut
        self.sut_is_client = sut_is_client
        self.version = version
        self.now = 0.0
        self.pn = {"initial": 0, "handshake": 0, "app": 0}
        self.tx = {}  # space -> Keys (harness -> SUT)
        self.rx = {}  # space -> Keys (SUT -> harness)
        self.largest = collections.defaultdict(lambda: -1)
        self.crypto_in = {"initial": {}, "handshake": {}, "app": {}}
        self.crypto_off = {"initial": 0, "handshake": 0, "app": 0}
        self.sut_cid = b""  # what the SUT uses as its source CID (our DCID)
        self.events = []
        self.terminated = None
        self.seen_frames = []
        self.raw = []
        self.addr_sut = E.CLIENT_ADDR if sut_is_client else E.SERVER_ADDR
        self.addr_me = E.SERVER_ADDR if sut_is_client else E.CLIENT_ADDR

    # ---- receiving from the SUT
    def pump_sut(self):
        """next_event / datagrams_to_send on the SUT; opens what can be opened; returns list of (space, frames)"""
        out = []
        while True:
            e = self.sut.next_event()
            if e is None:
                break
            self.events.append(e)
            if type(e).__name__ == "ConnectionTerminated":
                self.terminated = e
        for data, addr in self.sut.datagrams_to_send(now=self.now):
            self.raw.append(data)
            out.extend(self.open_datagram(data))
        self.sut.get_timer()
        return out

    def reopen(self):
        """open again what was received before the keys were known"""
        for data in self.raw:
            self.open_datagram(data)

    def open_datagram(self, data):
        out = []
        try:
            infos = R.split_datagram(data, len(HARNESS_CID), require_fixed_bit=False)
        except R.ParseError:
            return out
        for info in infos:
            space = {R.PT_INITIAL: "initial", R.PT_HANDSHAKE: "handshake", R.PT_ONE_RTT: "app", R.PT_ZERO_RTT: "app"}.get(info.ptype)
            if space is None or space not in self.rx:
                continue
            if info.is_long and info.scid is not None:
                self.sut_cid = info.scid
            try:
                hdr, pn, payload = R.unprotect(self.rx[space], data[info.start : info.end], info.pn_offset_rel, self.largest[space] + 1)
            except R.AuthError:
                continue
            self.largest[space] = max(self.largest[space], pn)
            try:
                frames = R.parse_frames(payload, strict=False)
            except R.ParseError:
                continue
            for f in frames:
                if f["name"] == "crypto":
                    self.crypto_in[space][f["offset"]] = bytes(f["data"])
            self.seen_frames.extend((space, f) for f in frames)
            out.append((space, frames))
        return out

    # ---- sending to the SUT
    def packet(self, space, payload, pad_to=0):
        pn = self.pn[space]
        self.pn[space] += 1
        if space == "app":
            hdr = R.build_short_header(self.sut_cid, pn, 2)
        else:
            if len(payload) < 3:
                payload = payload + bytes(3 - len(payload))
            ptype = R.PT_INITIAL if space == "initial" else R.PT_HANDSHAKE
            if pad_to:
                # pad inside the packet so that the datagram reaches pad_to bytes
                overhead = len(R.build_long_header(self.version, ptype, self.sut_cid, HARNESS_CID, pn, 2, len(payload), length_size=2)) + 16
                if overhead + len(payload) < pad_to:
                    payload = payload + bytes(pad_to - overhead - len(payload))
            hdr = R.build_long_header(self.version, ptype, self.sut_cid, HARNESS_CID, pn, 2, len(payload), length_size=2)
        return R.protect(self.tx[space], hdr, pn, payload)

    def send_crypto(self, space, data, chunks=None, pad_to=0, extra_frames=(), coalesce_with=None):
        """Carry `data` as CRYPTO frames at the running offset of `space`; chunks = list of sizes (one packet each)."""
        sizes = list(chunks or [])
        pieces = []
        pos = 0
        for n in sizes:
            if pos >= len(data):
                break
            pieces.append(data[pos : pos + n])
            pos += n
        while pos < len(data):
            pieces.append(data[pos : pos + 1000])
            pos += 1000
        if not pieces:
            pieces = [b""]
        for i, piece in enumerate(pieces):
            frames = [{"name": "crypto", "offset": self.crypto_off[space], "data": piece}] + (list(extra_frames) if i == 0 else [])
            self.crypto_off[space] += len(piece)
            dg = self.packet(space, R.encode_frames(frames), pad_to=pad_to if i == 0 else 0)
            self.deliver(dg)

    def deliver(self, datagram):
        self.now += 0.001
        self.sut.receive_datagram(datagram, self.addr_me, now=self.now)

    def keys_from(self, secret, suite_id):
        return R.derive_keys(SUITE[suite_id], self.version, secret)


class ServerPeer(Peer):
    """harness = TLS/QUIC server, SUT = aioquic client"""

    def __init__(self, client_kw=None, leaf="ed25519", alpn=None, tp_overrides=None, tp_raw=None):
        from aioquic.quic.connection import QuicConnection

        kw = dict(client_kw or {})
        if alpn:
            kw["alpn_protocols"] = [a.decode() for a in alpn]
        cfg = E.client_config(**kw)
        sut = QuicConnection(configuration=cfg)
        Peer.__init__(self, sut, True, version=cfg.original_version or cfg.supported_versions[0])
        sut.connect(E.SERVER_ADDR, now=0.0)
        first = sut.datagrams_to_send(now=0.0)
        info = R.split_datagram(first[0][0], 8)[0]
        self.odcid = info.dcid
        self.sut_cid = info.scid
        ck, sk = R.initial_keys(self.version, self.odcid)
        self.rx["initial"] = ck
        self.tx["initial"] = sk
        for d, _ in first:
            self.open_datagram(d)
        self.client_hello = crypto_stream(self.crypto_in["initial"])
        tp = [
            ("original_destination_connection_id", self.odcid), ("initial_source_connection_id", HARNESS_CID), ("max_idle_timeout", 60000),
            ("initial_max_data", 1 << 20), ("initial_max_stream_data_bidi_local", 1 << 20), ("initial_max_stream_data_bidi_remote", 1 << 20),
            ("initial_max_stream_data_uni", 1 << 20), ("initial_max_streams_bidi", 16), ("initial_max_streams_uni", 16), ("active_connection_id_limit", 4),
        ]
        if tp_overrides:
            names = {k for k, _ in tp_overrides}
            tp = [(k, v) for k, v in tp if k not in names] + [(k, v) for k, v in tp_overrides if v is not None]
        self.tp_bytes = R.encode_transport_parameters(tp) if tp_raw is None else tp_raw
        certs, key = B.leaf(leaf)
        self.ref = L.RefServer([B.der(c) for c in certs], key, alpn=(alpn[0] if alpn else None), transport_parameters=self.tp_bytes, rng=E.os.urandom, strict=False)

    def after_server_hello(self):
        self.tx["handshake"] = self.keys_from(self.ref.server_hs_secret, self.ref.cipher_suite)
        self.rx["handshake"] = self.keys_from(self.ref.client_hs_secret, self.ref.cipher_suite)

    def after_finished(self):
        self.tx["app"] = self.keys_from(self.ref.server_app_secret, self.ref.cipher_suite)
        self.rx["app"] = self.keys_from(self.ref.client_app_secret, self.ref.cipher_suite)

    def client_finished(self):
        return crypto_stream(self.crypto_in["handshake"])


class ClientPeer(Peer):
    """harness = TLS/QUIC client, SUT = aioquic server"""

    def __init__(self, server_kw=None, leaf="ed25519", alpn=None, request_client_cert=False, tp_overrides=None, tp_raw=None, client_cert=False, version=R.V1, **refkw):
        from aioquic.quic.connection import QuicConnection

        kw = dict(server_kw or {})
        if alpn:
            kw["alpn_protocols"] = [a.decode() for a in alpn]
        cfg = E.server_config(leaf, **kw)
        self.odcid = bytes.fromhex("8394c8f03e515708")
        sut = QuicConnection(configuration=cfg, original_destination_connection_id=self.odcid)
        Peer.__init__(self, sut, False, version=version)
        if request_client_cert:
            self._want_client_cert = True
        self.request_client_cert = request_client_cert
        self.sut_cid = self.odcid
        ck, sk = R.initial_keys(self.version, self.odcid)
        self.tx["initial"] = ck
        self.rx["initial"] = sk
        tp = [
            ("initial_source_connection_id", HARNESS_CID), ("max_idle_timeout", 60000), ("initial_max_data", 1 << 20),
            ("initial_max_stream_data_bidi_local", 1 << 20), ("initial_max_stream_data_bidi_remote", 1 << 20), ("initial_max_stream_data_uni", 1 << 20),
            ("initial_max_streams_bidi", 16), ("initial_max_streams_uni", 16), ("active_connection_id_limit", 4),
        ]
        if tp_overrides:
            names = {k for k, _ in tp_overrides}
            tp = [(k, v) for k, v in tp if k not in names] + [(k, v) for k, v in tp_overrides if v is not None]
        self.tp_bytes = R.encode_transport_parameters(tp) if tp_raw is None else tp_raw
        extra = {}
        if client_cert:
            extra = dict(client_cert_chain_der=[B.der(E.load_cert("client.pem")[0])], client_private_key=E.load_key("client.key"))
        self.ref = L.RefClient(server_name="localhost", alpn=alpn, transport_parameters=self.tp_bytes, rng=E.os.urandom, **extra, **refkw)

    def install_server_cert_request(self):
        """the server's TLS context does not exist before the first datagram: ask it to request a client certificate when it is created"""
        if not self.request_client_cert:
            return
        sut = self.sut
        orig = sut._initialize

        def initialize(peer_cid):
            orig(peer_cid)
            sut.tls._request_client_certificate = True

        sut._initialize = initialize

    def server_flight(self):
        """-> (ServerHello bytes, handshake-space bytes) as far as they can be opened"""
        sh = crypto_stream(self.crypto_in["initial"])
        return sh, crypto_stream(self.crypto_in["handshake"])

    def after_server_hello(self):
        self.rx["handshake"] = self.keys_from(self.ref.server_hs_secret, self.ref.cipher_suite)
        self.tx["handshake"] = self.keys_from(self.ref.client_hs_secret, self.ref.cipher_suite)

    def after_server_finished(self):
        self.rx["app"] = self.keys_from(self.ref.server_app_secret, self.ref.cipher_suite)
        self.tx["app"] = self.keys_from(self.ref.client_app_secret, self.ref.cipher_suite)


# ======================================================================================= C05 G4: hostile TLS from a key-holding peer

V62 = (1 << 62) - 1


def tp_variant(kind, base):
    """transport-parameter blobs: `base` is the honest list of (name, value)"""
    d = list(base)
    if kind == "ok":
        return R.encode_transport_parameters(d)
    if kind == "missing":
        return None
    if kind == "empty":
        return b""
    if kind == "garbage":
        return bytes(range(37))
    if kind == "truncated":
        return R.encode_transport_parameters(d)[:-3]
    if kind == "dup":
        return R.encode_transport_parameters(d + [("initial_max_data", 5)])
    if kind == "huge-values":
        return R.encode_transport_parameters([(k, V62 if isinstance(v, int) else v) for k, v in d])
    if kind == "ack-delay-exponent-21":
        return R.encode_transport_parameters(d + [("ack_delay_exponent", 21)])
    if kind == "max-ack-delay-2^14":
        return R.encode_transport_parameters(d + [("max_ack_delay", 1 << 14)])
    if kind == "udp-payload-1199":
        return R.encode_transport_parameters(d + [("max_udp_payload_size", 1199)])
    if kind == "cid-limit-1":
        return R.encode_transport_parameters([(k, v) for k, v in d if k != "active_connection_id_limit"] + [("active_connection_id_limit", 1)])
    if kind == "cid-limit-0":
        return R.encode_transport_parameters([(k, v) for k, v in d if k != "active_connection_id_limit"] + [("active_connection_id_limit", 0)])
    if kind == "wrong-iscid":
        return R.encode_transport_parameters([(k, v) for k, v in d if k != "initial_source_connection_id"] + [("initial_source_connection_id", b"\x01\x02")])
    if kind == "no-iscid":
        return R.encode_transport_parameters([(k, v) for k, v in d if k != "initial_source_connection_id"])
    if kind == "server-only-from-client":
        return R.encode_transport_parameters(d + [("original_destination_connection_id", b"\x01" * 8)])
    if kind == "stateless-reset-token-short":
        return R.encode_transport_parameters(d + [(0x02, b"\x01" * 5)])
    if kind == "preferred-address":
        return R.encode_transport_parameters(d + [(0x0D, bytes(4 + 2 + 16 + 2) + bytes([4]) + b"\x09" * 4 + bytes(16))])
    if kind == "preferred-address-truncated":
        return R.encode_transport_parameters(d + [(0x0D, bytes(10))])
    if kind == "version-info-zero":
        return R.encode_transport_parameters(d + [(0x11, bytes(8))])
    if kind == "version-info-odd":
        return R.encode_transport_parameters(d + [(0x11, bytes(7))])
    if kind == "version-info-other":
        return R.encode_transport_parameters(d + [(0x11, (0x6B3343CF).to_bytes(4, "big") + (0x6B3343CF).to_bytes(4, "big"))])
    if kind == "version-info-other-first":
        # chosen = the version in use (v1), available = [v2, v1]: what an honest client preferring v2 announces
        return R.encode_transport_parameters(d + [(0x11, (1).to_bytes(4, "big") + (0x6B3343CF).to_bytes(4, "big") + (1).to_bytes(4, "big"))])
    if kind == "int-with-trailing":
        return R.encode_transport_parameters(d + [(0x01, b"\x01\x02\x03")])
    if kind == "zero-length-int":
        return R.encode_transport_parameters(d + [(0x04, b"")])
    if kind == "max-datagram":
        return R.encode_transport_parameters(d + [(0x20, 65535)])
    if kind == "unknown-ids":
        return R.encode_transport_parameters(d + [(0x3F5A, b"abc"), (V62, b""), (0x2AB2, b"")])
    if kind == "many":
        return R.encode_transport_parameters(d + [(0x40 + i, bytes(3)) for i in range(200)])
    return R.encode_transport_parameters(d)


TP_KINDS = ["ok", "ok", "preferred-address", "many", "missing", "empty", "garbage", "truncated", "dup", "huge-values", "ack-delay-exponent-21", "max-ack-delay-2^14", "udp-payload-1199", "cid-limit-1", "cid-limit-0", "wrong-iscid", "no-iscid", "server-only-from-client", "stateless-reset-token-short", "preferred-address", "preferred-address-truncated", "version-info-zero", "version-info-odd", "version-info-other", "version-info-other-first", "version-info-other-first", "int-with-trailing", "zero-length-int", "max-datagram", "unknown-ids", "many"]


def mutate_bytes(data, muts):
    b = bytearray(data)
    for kind, pos, val in muts or []:
        if not b:
            break
        pos %= len(b)
        if kind == "flip":
            b[pos] ^= 1 << (val % 8)
        elif kind == "set":
            b[pos] = val
        elif kind == "del":
            del b[pos : pos + 1 + val % 4]
        elif kind == "ins":
            b[pos:pos] = bytes([val]) * (1 + val % 3)
        elif kind == "len24" and len(b) >= 4:
            b[1:4] = (val * 65793 % (1 << 24)).to_bytes(3, "big") if val % 3 else (len(b) - 4 + (val % 5) - 2).to_bytes(3, "big", signed=False) if len(b) - 4 + (val % 5) - 2 >= 0 else b[1:4]
    return bytes(b)


class Skip(Exception):
    """the reference side cannot construct this case (not a statement about the SUT)"""


def ref_build(fn, *a, **k):
    from .harness import exc_signature

    try:
        return fn(*a, **k)
    except Exception as e:
        if "-in-?" in exc_signature(e):
            raise Skip(repr(e))
        raise


class Exerciser:
    def __init__(self, ctx, peer, case):
        self.ctx = ctx
        self.peer = peer
        self.case = case
        self.dead = False
        self.progress = False

    def call(self, what, fn, *a, **k):
        from .harness import Violation, exc_signature

        if self.dead:
            return None
        try:
            return fn(*a, **k)
        except Violation:
            raise
        except (R.ParseError, L.ParseError, L.HandshakeError, L.EncodeError):
            raise
        except Exception as e:
            sig = exc_signature(e)
            if "-in-?" in sig:
                raise
            self.dead = True
            self.ctx.violation("api-raised-" + sig, "%s raised %r while a key-holding TLS peer was talking to the %s" % (what, e, "client" if self.peer.sut_is_client else "server"), self.case)
            return None

    def send(self, space, data, **kw):
        self.call("receive_datagram", self.peer.send_crypto, space, data, **kw)
        self.cycle()

    def cycle(self):
        n = len(self.peer.events)
        out = self.call("next_event/datagrams_to_send/get_timer", self.peer.pump_sut)
        if out or len(self.peer.events) > n:
            self.progress = True
        if self.peer.terminated is not None:
            self.dead = True

    def finish(self):
        p = self.peer
        for _ in range(30):
            if self.dead or p.terminated is not None:
                break
            t = self.call("get_timer", p.sut.get_timer)
            if t is None:
                break
            p.now = max(p.now, t)
            self.call("handle_timer", p.sut.handle_timer, now=p.now)
            self.cycle()


def hostile_server_case(ctx, case):
    """harness = server with keys; SUT = client"""
    from cryptography.hazmat.primitives.asymmetric import ec

    with E.pinned(("g4s", repr(sorted((k, repr(v)) for k, v in case.items() if k != "mut")))):
        alpn = [b"h3", b"hq"] if case["offer_alpn"] else None
        sp = ServerPeer(alpn=alpn, leaf=case["leaf"])
        base_tp = [
            ("original_destination_connection_id", sp.odcid), ("initial_source_connection_id", HARNESS_CID), ("max_idle_timeout", 60000), ("initial_max_data", 1 << 20),
            ("initial_max_stream_data_bidi_local", 1 << 20), ("initial_max_stream_data_bidi_remote", 1 << 20), ("initial_max_stream_data_uni", 1 << 20),
            ("initial_max_streams_bidi", 16), ("initial_max_streams_uni", 16), ("active_connection_id_limit", 4),
        ]
        ex = Exerciser(ctx, sp, case)
        ref = sp.ref
        ref.receive_client_hello(sp.client_hello)
        cls = ["g4:client"]
        # --- ServerHello
        ks = case["key_share"]
        if ks != "ok" and ref.key_share is not None:
            g, k = ref.key_share
            ref.key_share = {
                "other-group": (23 if g != 23 else 29, k), "empty": (g, b""), "short": (g, k[:-1]), "long": (g, k + b"\x00"), "zero": (g, bytes(len(k))),
                "unknown-group": (0x0A0A, b"\x00"), "p256-off-curve": (23, b"\x04" + bytes(64)), "p256-bad-prefix": (23, b"\x05" + bytes(64)),
            }[ks]
            cls.append("g4:key_share:" + ks)
        extra = {
            "none": (), "dup-versions": [(43, L.build_supported_versions(0x0304, server=True))], "alpn-in-sh": [(16, L.build_alpn([b"h3"]))], "tp-in-sh": [(0x39, sp.tp_bytes)],
            "unknown": [(0xFAFA, b"zz")], "psk-not-offered": [(41, L.build_pre_shared_key(selected=0))], "psk-index-7": [(41, L.build_pre_shared_key(selected=7))], "early-data": [(42, b"")],
            "sni": [(0, b"")], "cookie": [(44, b"\x00\x01a")],
        }[case["sh_extra"]]
        sh = ref_build(
            ref.server_hello, cipher_suite=case["suite"], version=case["version"], legacy_session_id_echo=case["sid"], random=(L.HRR_RANDOM if case["hrr"] else None), extra_extensions=extra
        )
        if case["mut_msg"] == "sh":
            sh = mutate_bytes(sh, case["mut"])
        try:
            sp.after_server_hello()
        except Exception:
            ex.dead = False
        ex.send("initial", sh, pad_to=1200, chunks=case["chunks"], extra_frames=[{"name": "ack", "acked": [(0, 0)], "delay": 0}])
        if "handshake" not in sp.tx:
            ex.finish()
            ctx.case(("g4s", repr(case)), nontrivial=ex.progress, classes=cls + ["g4:stopped-after-sh"])
            return
        # --- EncryptedExtensions
        tpb = tp_variant(case["tp"], base_tp)
        ee_ext = []
        a = case["ee_alpn"]
        if a == "default" and alpn:
            ee_ext.append((16, L.build_alpn([alpn[0]])))
        elif a == "empty-list":
            ee_ext.append((16, b"\x00\x00"))
        elif a == "empty-name":
            ee_ext.append((16, b"\x00\x01\x00"))
        elif a == "non-ascii":
            ee_ext.append((16, L.build_alpn([b"\xff\xfe"])))
        elif a == "not-offered":
            ee_ext.append((16, L.build_alpn([b"zz"])))
        elif a == "two":
            ee_ext.append((16, L.build_alpn([b"h3", b"hq"])))
        elif a == "truncated":
            ee_ext.append((16, b"\x00\x05\x02h"))
        if tpb is not None:
            ee_ext.append((0x39, tpb))
        if case["ee_extra"] == "early-data":
            ee_ext.append((42, b""))
        elif case["ee_extra"] == "dup-tp" and tpb is not None:
            ee_ext.append((0x39, tpb))
        elif case["ee_extra"] == "unknown":
            ee_ext.append((0xFAFA, b"\x01"))
        elif case["ee_extra"] == "early-data-nonempty":
            ee_ext.append((42, b"\x00\x00\x00\x01"))
        ee = L.encode_message({"type": 8, "extensions": ee_ext})
        if case["mut_msg"] == "ee":
            ee = mutate_bytes(ee, case["mut"])
        flight = ref.raw(ee)
        # --- Certificate
        chain = ref.cert_chain_der
        ck = case["cert"]
        certs = {
            "ok": [(c, []) for c in chain], "empty": [], "garbage-der": [(b"\x30\x82\x01\x00" + bytes(50), [])], "truncated-der": [(chain[0][: len(chain[0]) // 2], [])],
            "empty-der": [(b"", [])], "many": [(chain[0], [])] * 30, "leaf-twice": [(chain[0], []), (chain[0], [])], "with-ext": [(chain[0], [(5, b"\x01"), (18, b"")])],
            # a good leaf followed by an unusable "intermediate"
            "leaf+garbage": [(chain[0], []), (b"\x30\x82\x01\x00" + bytes(50), [])], "leaf+truncated": [(chain[0], []), (chain[0][: len(chain[0]) // 2], [])], "leaf+empty": [(chain[0], []), (b"", [])],
        }[ck]
        cert = L.encode_message({"type": 11, "request_context": (b"ctx" if case["cert_ctx"] else b""), "certificates": certs})
        if case["mut_msg"] == "cert":
            cert = mutate_bytes(cert, case["mut"])
        if case["skip"] != "cert":
            flight += ref.raw(cert)
        # --- CertificateVerify
        cvk = case["cv"]
        try:
            if cvk == "ok":
                cv = ref.certificate_verify()
            elif cvk in ("alg-ecdsa", "alg-rsa-pss", "alg-rsa-pkcs1", "alg-zero", "alg-unknown", "alg-ed448"):
                good = ref.certificate_verify()
                d = L.decode_message(good, strict=False)
                d["algorithm"] = {"alg-ecdsa": 0x0403, "alg-rsa-pss": 0x0804, "alg-rsa-pkcs1": 0x0401, "alg-zero": 0, "alg-unknown": 0xFEFE, "alg-ed448": 0x0808}[cvk]
                cv = L.encode_message(d)
            elif cvk in ("sig-empty", "sig-truncated", "sig-garbage", "sig-long"):
                good = ref.certificate_verify()
                d = L.decode_message(good, strict=False)
                d["signature"] = {"sig-empty": b"", "sig-truncated": d["signature"][:-1], "sig-garbage": bytes(len(d["signature"])), "sig-long": d["signature"] + bytes(300)}[cvk]
                cv = L.encode_message(d)
            else:
                cv = ref.certificate_verify()
        except Exception:
            cv = b"\x0f\x00\x00\x04\x08\x07\x00\x00"
        if case["mut_msg"] == "cv":
            cv = mutate_bytes(cv, case["mut"])
        if case["skip"] != "cv":
            flight += cv
        # --- Finished
        fk = case["fin"]
        fin = ref.finished()
        if fk != "ok":
            d = L.decode_message(fin, strict=False)
            d["verify_data"] = {"empty": b"", "short": d["verify_data"][:-1], "long": d["verify_data"] + b"\x00", "garbage": bytes(len(d["verify_data"]))}[fk]
            fin = L.encode_message(d)
        if case["mut_msg"] == "fin":
            fin = mutate_bytes(fin, case["mut"])
        flight += fin
        if case["huge_first"]:
            flight = bytes([case["huge_first"], 0xFF, 0xFF, 0xFF]) + flight
        ex.send("handshake", flight, chunks=case["chunks"])
        try:
            sp.after_finished()
        except Exception:
            pass
        if "app" in sp.tx and not ex.dead:
            nst = L.encode_message({"type": 4, "ticket_lifetime": 0xFFFFFFFF, "ticket_age_add": 5, "ticket_nonce": b"", "ticket": b"t" * 8, "extensions": [(42, L.build_early_data(case["nst_early"]))]})
            if case["mut_msg"] == "nst":
                nst = mutate_bytes(nst, case["mut"])
            ex.send("app", nst + (bytes([24, 0, 0, 1, 1]) if case["key_update_msg"] else b""), extra_frames=[{"name": "handshake_done"}])
        ex.finish()
        done = any(type(e).__name__ == "HandshakeCompleted" for e in sp.events)
        ctx.case(("g4s", repr(case)), nontrivial=ex.progress, classes=cls + ["g4:tp:" + case["tp"], "g4:cert:" + ck, "g4:cv:" + cvk, "g4:" + ("completed" if done else "refused")])


def hostile_client_case(ctx, case):
    """harness = client with keys; SUT = server"""
    with E.pinned(("g4c", repr(sorted((k, repr(v)) for k, v in case.items() if k != "mut")))):
        base_tp = [
            ("initial_source_connection_id", HARNESS_CID), ("max_idle_timeout", 60000), ("initial_max_data", 1 << 20), ("initial_max_stream_data_bidi_local", 1 << 20),
            ("initial_max_stream_data_bidi_remote", 1 << 20), ("initial_max_stream_data_uni", 1 << 20), ("initial_max_streams_bidi", 16), ("initial_max_streams_uni", 16), ("active_connection_id_limit", 4),
        ]
        tpb = tp_variant(case["tp"], base_tp)
        extra = []
        sn = case["sni"]
        server_name = "localhost"
        if sn != "ok":
            server_name = None
            body = {
                "non-ascii": b"\x00\x05\x00\x00\x02\xff\xfe", "empty-list": b"\x00\x00", "empty-name": b"\x00\x03\x00\x00\x00", "bad-type": b"\x00\x04\x07\x00\x01a", "long": b"\x01\x03\x00\x01\x00" + b"a" * 256,
                "truncated": b"\x00\x09\x00\x00\x09ab", "missing": None, "two": b"\x00\x08\x00\x00\x01a\x00\x00\x01b",
            }[sn]
            if body is not None:
                extra.append((0, body))
        al = case["alpn"]
        alpn = None
        if al == "ok":
            alpn = [b"h3"]
        elif al != "none":
            extra.append((16, {"non-ascii": L.build_alpn([b"\xff\xfe", b"h3"]), "only-non-ascii": L.build_alpn([b"\xff"]), "empty-list": b"\x00\x00", "empty-name": b"\x00\x01\x00", "unknown": L.build_alpn([b"zz"]), "truncated": b"\x00\x09\x02h"}[al]))
        if case["ch_extra"] == "dup-versions":
            extra.append((43, L.build_supported_versions([0x0304])))
        elif case["ch_extra"] == "cookie":
            extra.append((44, b"\x00\x01a"))
        elif case["ch_extra"] == "early-data":
            extra.append((42, b""))
        elif case["ch_extra"] == "psk-garbage":
            extra.append((41, L.build_pre_shared_key([(b"ticket", 0)], [bytes(32)])))
        elif case["ch_extra"] == "psk-empty":
            extra.append((41, b"\x00\x00\x00\x00"))
        elif case["ch_extra"] == "psk-modes-empty":
            extra.append((45, b"\x00"))
        kw = dict(
            key_share_groups={"ok": (29,), "none": (), "grease-only": (0x0A0A,), "p256": (23,), "both": (29, 23), "x448": (30,), "p384": (24,)}[case["key_share"]],
            groups={"ok": (29, 23), "grease-only": (0x0A0A,), "empty": (), "mismatch": (24,)}[case["groups"]],
            cipher_suites={"ok": (0x1301, 0x1302, 0x1303), "none-common": (0x00FF, 0xC02B), "empty": (), "grease": (0x0A0A, 0x1303)}[case["suites"]],
            signature_algorithms={"ok": L.DEFAULT_SIGNATURE_ALGORITHMS, "empty": (), "unknown": (0xFEFE,), "rsa-only": (0x0804,)}[case["sigalgs"]],
            legacy_session_id={"ok": b"", "32": b"s" * 32, "33": b"s" * 33}[case["sid"]],
            psk_modes={"ok": (1,), "none": None, "ke-only": (0,)}[case["psk_modes"]],
            extra_extensions=tuple(extra),
        )
        cp = ClientPeer(alpn=alpn, tp_raw=tpb if tpb is not None else b"", request_client_cert=case["request_cert"], client_cert=case["client_cert"], server_kw=dict({"alpn_protocols": ["h3"]} if case["server_alpn"] else {}, **({"supported_versions": [R.V1]} if (case.get("server_versions") == "v1-only" or case["tp"] == "version-info-other-first") else {})), **kw)
        if tpb is None:
            cp.ref.transport_parameters = None
        cp.ref.server_name = server_name
        cp.install_server_cert_request()
        ex = Exerciser(ctx, cp, case)
        cls = ["g4:server", "g4:tp:" + case["tp"], "g4:sni:" + sn, "g4:key_share:" + case["key_share"]]
        ch = ref_build(cp.ref.client_hello)
        if case["key_share_bytes"] != "ok":
            # distort the key share bytes inside the encoded ClientHello
            d = L.decode_message(ch, strict=False)
            exts = []
            for t, b in d["extensions"]:
                if t == 51:
                    shares = L.parse_key_share(b)
                    if shares:
                        g, k = shares[0]
                        k2 = {"zero": bytes(len(k)), "short": k[:-1], "long": k + b"\x00", "empty": b"", "off-curve": (b"\x04" + bytes(64)) if g == 23 else bytes(len(k))}[case["key_share_bytes"]]
                        b = L.build_key_share([(g, k2)] + shares[1:])
                exts.append((t, b))
            d["extensions"] = exts
            ch = L.encode_message(d)
            cp.ref.client_hello_bytes = ch
        if case["mut_msg"] == "ch":
            ch = mutate_bytes(ch, case["mut"])
        if case["version_field"]:
            ch = ch[:4] + b"\x03\x04" + ch[6:]
        if case["cid_before"]:
            cp.sut_cid = cp.odcid
        ex.send("initial", ch, pad_to=1200, chunks=case["chunks"])
        sh, hs = cp.server_flight()
        ok = False
        if sh and not ex.dead:
            try:
                cp.ref.receive_server_flight(sh)
                cp.after_server_hello()
                cp.reopen()
                sh, hs = cp.server_flight()
                cp.ref.receive_server_flight(hs)
                cp.after_server_finished()
                ok = True
            except (L.HandshakeError, L.ParseError, Exception) as e:
                if not isinstance(e, (L.HandshakeError, L.ParseError)) and "aioquic" in repr(getattr(e, "__traceback__", "")):
                    raise
                ok = False
        if ok and not ex.dead:
            fl = b""
            cf = case["client_flight"]
            try:
                if cf == "ok":
                    fl = cp.ref.client_flight()
                elif cf == "fin-garbage":
                    fl = cp.ref.finished(verify_data=bytes(32))
                elif cf == "fin-empty":
                    fl = L.encode_message({"type": 20, "verify_data": b""})
                elif cf == "unsolicited-cert":
                    fl = cp.ref.certificate(chain=[B.der(E.load_cert("client.pem")[0])]) + cp.ref.finished()
                elif cf == "cert-leaf+garbage":
                    fl = cp.ref.raw(L.encode_message({"type": 11, "request_context": b"", "certificates": [(B.der(E.load_cert("client.pem")[0]), []), (b"\x30\x03\x02\x01\x01", [])]})) + cp.ref.finished()
                elif cf == "cert-garbage":
                    fl = cp.ref.raw(L.encode_message({"type": 11, "request_context": b"", "certificates": [(b"\x30\x03\x02\x01\x01", [])]})) + cp.ref.finished()
                elif cf == "cv-alg-mismatch":
                    fl = cp.ref.certificate()
                    good = cp.ref.certificate_verify() if cp.ref.client_private_key is not None else b""
                    if good:
                        d = L.decode_message(good, strict=False)
                        d["algorithm"] = 0x0403
                        fl += L.encode_message(d)
                    fl += cp.ref.finished()
                elif cf == "key-update":
                    fl = bytes([24, 0, 0, 1, 0]) + cp.ref.finished()
                elif cf == "eoed":
                    fl = bytes([5, 0, 0, 0]) + cp.ref.finished()
            except Exception:
                fl = cp.ref.finished() if cp.ref.ks is not None else b""
            if case["mut_msg"] == "cf":
                fl = mutate_bytes(fl, case["mut"])
            ex.send("handshake", fl, chunks=case["chunks"])
        ex.finish()
        done = any(type(e).__name__ == "HandshakeCompleted" for e in cp.events)
        ctx.case(("g4c", repr(case)), nontrivial=ex.progress, classes=cls + ["g4:" + ("completed" if done else "refused")])


def g4_strategies():
    from hypothesis import strategies as st

    mut = st.lists(st.tuples(st.sampled_from(["flip", "flip", "set", "del", "ins", "len24"]), st.integers(0, 600), st.integers(0, 255)), min_size=1, max_size=3)
    chunks = st.one_of(st.none(), st.lists(st.sampled_from([1, 2, 3, 4, 5, 50, 200]), min_size=1, max_size=6))
    server = st.fixed_dictionaries({
        "kind": st.just("g4s"), "offer_alpn": st.booleans(), "leaf": st.sampled_from(["ed25519", "ed25519", "rsa", "p256", "chain2"]),
        "key_share": st.sampled_from(["ok"] * 6 + ["other-group", "empty", "short", "long", "zero", "unknown-group", "p256-off-curve", "p256-bad-prefix"]),
        "sh_extra": st.sampled_from(["none"] * 5 + ["dup-versions", "alpn-in-sh", "tp-in-sh", "unknown", "psk-not-offered", "psk-index-7", "early-data", "sni", "cookie"]),
        "suite": st.sampled_from([None] * 5 + [0x1301, 0x1302, 0x1303, 0x1304, 0x00FF]), "version": st.sampled_from([0x0304] * 6 + [0x0303, 0x7F1C, 0x0305]),
        "sid": st.sampled_from([None] * 4 + [b"", b"x" * 32, b"y" * 33]), "hrr": st.sampled_from([False] * 8 + [True]),
        "tp": st.sampled_from(TP_KINDS), "ee_alpn": st.sampled_from(["default"] * 4 + ["none", "empty-list", "empty-name", "non-ascii", "not-offered", "two", "truncated"]),
        "ee_extra": st.sampled_from(["none"] * 4 + ["early-data", "dup-tp", "unknown", "early-data-nonempty"]),
        "cert": st.sampled_from(["ok"] * 5 + ["empty", "garbage-der", "truncated-der", "empty-der", "many", "leaf-twice", "with-ext", "leaf+garbage", "leaf+truncated", "leaf+empty"]), "cert_ctx": st.sampled_from([False] * 5 + [True]),
        "cv": st.sampled_from(["ok"] * 5 + ["alg-ecdsa", "alg-rsa-pss", "alg-rsa-pkcs1", "alg-zero", "alg-unknown", "alg-ed448", "sig-empty", "sig-truncated", "sig-garbage", "sig-long"]),
        "fin": st.sampled_from(["ok"] * 6 + ["empty", "short", "long", "garbage"]), "skip": st.sampled_from(["none"] * 8 + ["cert", "cv"]),
        "mut_msg": st.sampled_from(["none"] * 5 + ["sh", "ee", "cert", "cv", "fin", "nst"]), "mut": mut, "chunks": chunks, "huge_first": st.sampled_from([0] * 12 + [8, 11, 4]),
        "nst_early": st.sampled_from([0xFFFFFFFF, 0xFFFFFFFF, 0, 17]), "key_update_msg": st.sampled_from([False] * 4 + [True]),
    })
    client = st.fixed_dictionaries({
        "kind": st.just("g4c"), "tp": st.sampled_from(TP_KINDS),
        "sni": st.sampled_from(["ok"] * 4 + ["non-ascii", "empty-list", "empty-name", "bad-type", "long", "truncated", "missing", "two"]),
        "alpn": st.sampled_from(["ok", "ok", "none", "non-ascii", "only-non-ascii", "empty-list", "empty-name", "unknown", "truncated"]), "server_alpn": st.booleans(),
        "ch_extra": st.sampled_from(["none"] * 4 + ["dup-versions", "cookie", "early-data", "psk-garbage", "psk-empty", "psk-modes-empty"]),
        "key_share": st.sampled_from(["ok"] * 4 + ["none", "grease-only", "p256", "both", "x448", "p384"]), "key_share_bytes": st.sampled_from(["ok"] * 5 + ["zero", "short", "long", "empty", "off-curve"]),
        "groups": st.sampled_from(["ok"] * 4 + ["grease-only", "empty", "mismatch"]), "suites": st.sampled_from(["ok"] * 4 + ["none-common", "empty", "grease"]),
        "sigalgs": st.sampled_from(["ok"] * 4 + ["empty", "unknown", "rsa-only"]), "sid": st.sampled_from(["ok", "ok", "32", "33"]), "psk_modes": st.sampled_from(["ok", "ok", "none", "ke-only"]),
        "request_cert": st.booleans(), "client_cert": st.booleans(), "version_field": st.sampled_from([False] * 6 + [True]), "cid_before": st.just(True),
        "client_flight": st.sampled_from(["ok"] * 3 + ["fin-garbage", "fin-empty", "unsolicited-cert", "cert-garbage", "cert-leaf+garbage", "cv-alg-mismatch", "key-update", "eoed"]),
        "server_versions": st.sampled_from(["both", "both", "v1-only"]),
        "mut_msg": st.sampled_from(["none"] * 4 + ["ch", "ch", "cf"]), "mut": mut, "chunks": chunks,
    })
    ok_server = {"key_share": "ok", "sh_extra": "none", "suite": None, "version": 0x0304, "sid": None, "hrr": False, "tp": "ok", "ee_alpn": "default", "ee_extra": "none", "cert": "ok", "cert_ctx": False,
                 "cv": "ok", "fin": "ok", "skip": "none", "mut_msg": "none", "huge_first": 0, "nst_early": 0xFFFFFFFF, "key_update_msg": False, "chunks": None}
    ok_client = {"server_versions": "both", "tp": "ok", "sni": "ok", "alpn": "ok", "ch_extra": "none", "key_share": "ok", "key_share_bytes": "ok", "groups": "ok", "suites": "ok", "sigalgs": "ok", "sid": "ok", "psk_modes": "ok",
                 "version_field": False, "client_flight": "ok", "mut_msg": "none", "chunks": None}

    def focus(full, ok):
        # mostly-valid cases: only one or two fields deviate from the honest handshake
        return st.tuples(full, st.lists(st.sampled_from(sorted(ok)), min_size=1, max_size=2), st.integers(0, 9)).map(
            lambda t: t[0] if t[2] < 2 else dict(t[0], **{k: v for k, v in ok.items() if k not in t[1]})
        )

    return focus(server, ok_server), focus(client, ok_client)


def g4_task(ctx, which, examples, shard):
    from .harness import run_hypothesis

    server, client = g4_strategies()

    def body(ctx, case):
        try:
            if case["kind"] == "g4s":
                hostile_server_case(ctx, case)
            else:
                hostile_client_case(ctx, case)
        except Skip:
            ctx.cls("g4:reference-cannot-build")
            return
        if ctx.want_sample():
            ctx.sample({k: v for k, v in case.items() if k != "mut"})

    run_hypothesis(ctx, body, server if which == "server" else client, examples, shard=shard)


def tup(x):
    return tuple(tup(v) for v in x) if isinstance(x, list) else x


def replay(ctx, case):
    case = dict(case)
    if "mut" in case:
        case["mut"] = [tup(m) for m in case["mut"]]
    ctx.case(None, True)
    try:
        if case.get("kind") == "g4s":
            hostile_server_case(ctx, case)
        elif case.get("kind") == "g4c":
            hostile_client_case(ctx, case)
    except Skip:
        pass


def plan_for(prop, tier, seed):
    q = tier == "quick"
    t = []
    if prop == "C05":
        for s in range(3):
            t.append(("tls-hostile-server-%d" % s, {"fn": "g4", "which": "server", "examples": 700 if q else 12000, "shard": s}))
            t.append(("tls-hostile-client-%d" % s, {"fn": "g4", "which": "client", "examples": 700 if q else 12000, "shard": s}))
    return t


def run_task(ctx, prop, name, fn, **kw):
    if fn == "g4":
        g4_task(ctx, kw["which"], kw["examples"], kw["shard"])
