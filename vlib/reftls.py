"""reftls - an independent, minimal TLS 1.3 (RFC 8446) implementation for QUIC.

Only handshake messages are handled (RFC 9001 section 4: QUIC carries raw
handshake messages in CRYPTO frames, there is no record layer).  The module is
written from RFC 8446 and depends only on ``cryptography`` and the standard
library.  It never imports aioquic.

Three layers:

* a handshake message codec (``encode_message`` / ``decode_message`` /
  ``split_messages``) working on plain dicts, plus build_*/parse_* helpers for
  extension bodies;
* the key schedule of RFC 8446 section 7.1 (``KeySchedule``);
* two scriptable peers, ``RefServer`` and ``RefClient``, which do the real key
  exchange and then let the caller send ANY sequence of handshake messages,
  each built over exactly the transcript sent so far.

Conventions
-----------
* A message is a dict ``{"type": int, ...fields}``.  Containers are lists,
  elements of containers are tuples (e.g. ``extensions`` is a list of
  ``(ext_type, ext_body)`` tuples) so that ``decode_message(encode_message(m))
  == m`` holds for hand-built messages following the same convention.
* ``extensions`` of a ClientHello / ServerHello may be ``None``: the extensions
  block is absent altogether (legal pre-TLS 1.3 syntax, RFC 8446 4.1.2).
* Decoding raises ``ParseError`` only.  Encoding raises ``EncodeError``.
  Protocol-level failures in RefServer/RefClient raise ``HandshakeError``
  whose ``alert`` attribute names the RFC 8446 alert a real peer would send.
"""

from __future__ import annotations

import hashlib
import hmac
import os

from cryptography import x509
from cryptography.exceptions import InvalidSignature
from cryptography.hazmat.primitives import hashes, serialization
from cryptography.hazmat.primitives.asymmetric import (
    ec,
    ed448,
    ed25519,
    padding,
    rsa,
    x448,
    x25519,
)

# --------------------------------------------------------------------------
# constants
# --------------------------------------------------------------------------

HT_CLIENT_HELLO = 1
HT_SERVER_HELLO = 2
HT_NEW_SESSION_TICKET = 4
HT_END_OF_EARLY_DATA = 5
HT_ENCRYPTED_EXTENSIONS = 8
HT_CERTIFICATE = 11
HT_CERTIFICATE_REQUEST = 13
HT_CERTIFICATE_VERIFY = 15
HT_FINISHED = 20
HT_KEY_UPDATE = 24
HT_MESSAGE_HASH = 254

EXT_SERVER_NAME = 0
EXT_SUPPORTED_GROUPS = 10
EXT_SIGNATURE_ALGORITHMS = 13
EXT_ALPN = 16
EXT_PRE_SHARED_KEY = 41
EXT_EARLY_DATA = 42
EXT_SUPPORTED_VERSIONS = 43
EXT_COOKIE = 44
EXT_PSK_KEY_EXCHANGE_MODES = 45
EXT_KEY_SHARE = 51
EXT_QUIC_TRANSPORT_PARAMETERS = 0x39

TLS_AES_128_GCM_SHA256 = 0x1301
TLS_AES_256_GCM_SHA384 = 0x1302
TLS_CHACHA20_POLY1305_SHA256 = 0x1303

GROUP_SECP256R1 = 23
GROUP_SECP384R1 = 24
GROUP_SECP521R1 = 25
GROUP_X25519 = 29
GROUP_X448 = 30

TLS_VERSION_1_2 = 0x0303
TLS_VERSION_1_3 = 0x0304

PSK_KE = 0
PSK_DHE_KE = 1

SIG_RSA_PKCS1_SHA1 = 0x0201
SIG_RSA_PKCS1_SHA256 = 0x0401
SIG_RSA_PKCS1_SHA384 = 0x0501
SIG_RSA_PKCS1_SHA512 = 0x0601
SIG_ECDSA_SECP256R1_SHA256 = 0x0403
SIG_ECDSA_SECP384R1_SHA384 = 0x0503
SIG_ECDSA_SECP521R1_SHA512 = 0x0603
SIG_RSA_PSS_RSAE_SHA256 = 0x0804
SIG_RSA_PSS_RSAE_SHA384 = 0x0805
SIG_RSA_PSS_RSAE_SHA512 = 0x0806
SIG_ED25519 = 0x0807
SIG_ED448 = 0x0808
SIG_RSA_PSS_PSS_SHA256 = 0x0809
SIG_RSA_PSS_PSS_SHA384 = 0x080A
SIG_RSA_PSS_PSS_SHA512 = 0x080B

#: signature schemes that RFC 8446 (4.2.3 / 4.4.3) allows in CertificateVerify.
#: RSASSA-PKCS1-v1_5 and SHA-1 schemes are for certificates only.
TLS13_CERTIFICATE_VERIFY_ALGORITHMS = frozenset(
    (
        SIG_ECDSA_SECP256R1_SHA256,
        SIG_ECDSA_SECP384R1_SHA384,
        SIG_ECDSA_SECP521R1_SHA512,
        SIG_RSA_PSS_RSAE_SHA256,
        SIG_RSA_PSS_RSAE_SHA384,
        SIG_RSA_PSS_RSAE_SHA512,
        SIG_ED25519,
        SIG_ED448,
        SIG_RSA_PSS_PSS_SHA256,
        SIG_RSA_PSS_PSS_SHA384,
        SIG_RSA_PSS_PSS_SHA512,
    )
)

DEFAULT_SIGNATURE_ALGORITHMS = (
    SIG_ECDSA_SECP256R1_SHA256,
    SIG_RSA_PSS_RSAE_SHA256,
    SIG_ED25519,
    SIG_ECDSA_SECP384R1_SHA384,
    SIG_RSA_PSS_RSAE_SHA384,
    SIG_RSA_PSS_RSAE_SHA512,
    SIG_ECDSA_SECP521R1_SHA512,
    SIG_ED448,
    # certificate-only schemes (advertised so that RSA-PKCS1 signed chains are
    # acceptable; never accepted in CertificateVerify)
    SIG_RSA_PKCS1_SHA256,
    SIG_RSA_PKCS1_SHA384,
    SIG_RSA_PKCS1_SHA512,
)

#: ServerHello.random of a HelloRetryRequest (RFC 8446 4.1.3)
HRR_RANDOM = bytes.fromhex(
    "cf21ad74e59a6111be1d8c021e65b891c2a211167abb8c5e079e09e2c8a8339c"
)

CIPHER_SUITE_HASH = {
    TLS_AES_128_GCM_SHA256: "sha256",
    TLS_AES_256_GCM_SHA384: "sha384",
    TLS_CHACHA20_POLY1305_SHA256: "sha256",
}


class ParseError(Exception):
    """Malformed wire data."""


class EncodeError(ValueError):
    """A message dict cannot be serialised (missing field / value too big)."""


class HandshakeError(Exception):
    """Protocol-level failure; ``alert`` names the RFC 8446 alert."""

    def __init__(self, alert: str, detail: str = ""):
        super().__init__(f"{alert}: {detail}" if detail else alert)
        self.alert = alert
        self.detail = detail


# --------------------------------------------------------------------------
# low-level reader / writer
# --------------------------------------------------------------------------


class _Reader:
    __slots__ = ("d", "p", "strict")

    def __init__(self, data: bytes, strict: bool = True):
        self.d = bytes(data)
        self.p = 0
        self.strict = strict

    def remaining(self) -> int:
        return len(self.d) - self.p

    def take(self, n: int) -> bytes:
        if n < 0 or self.remaining() < n:
            raise ParseError(f"truncated: need {n} bytes, have {self.remaining()}")
        out = self.d[self.p : self.p + n]
        self.p += n
        return out

    def uint(self, n: int) -> int:
        return int.from_bytes(self.take(n), "big")

    def u8(self) -> int:
        return self.uint(1)

    def u16(self) -> int:
        return self.uint(2)

    def u24(self) -> int:
        return self.uint(3)

    def u32(self) -> int:
        return self.uint(4)

    def vec(self, nlen: int, lo: int = 0, hi: int | None = None, what: str = "vector") -> bytes:
        """opaque <lo..hi> with an nlen-byte length prefix."""
        n = self.uint(nlen)
        if self.strict:
            if n < lo:
                raise ParseError(f"{what}: length {n} below minimum {lo}")
            if hi is not None and n > hi:
                raise ParseError(f"{what}: length {n} above maximum {hi}")
        return self.take(n)

    def sub(self, nlen: int, lo: int = 0, hi: int | None = None, what: str = "vector") -> "_Reader":
        return _Reader(self.vec(nlen, lo, hi, what), self.strict)

    def rest(self) -> bytes:
        return self.take(self.remaining())

    def end(self, what: str = "structure") -> None:
        if self.remaining():
            raise ParseError(f"{what}: {self.remaining()} trailing bytes")


def _uint(value, n: int, what: str = "integer") -> bytes:
    try:
        value = int(value)
    except (TypeError, ValueError):
        raise EncodeError(f"{what}: not an integer: {value!r}")
    if value < 0 or value >> (8 * n):
        raise EncodeError(f"{what}: {value} does not fit in {n} bytes")
    return value.to_bytes(n, "big")


def _vec(data, nlen: int, what: str = "vector") -> bytes:
    try:
        data = bytes(data)
    except (TypeError, ValueError):
        raise EncodeError(f"{what}: not bytes: {data!r}")
    if len(data) >> (8 * nlen):
        raise EncodeError(f"{what}: {len(data)} bytes do not fit a {nlen}-byte length")
    return len(data).to_bytes(nlen, "big") + data


def _uint_list(r: _Reader, width: int, what: str) -> list[int]:
    if r.remaining() % width:
        raise ParseError(f"{what}: length {r.remaining()} is not a multiple of {width}")
    out = []
    while r.remaining():
        out.append(r.uint(width))
    return out


# --------------------------------------------------------------------------
# extension blocks
# --------------------------------------------------------------------------


def parse_extensions(data: bytes) -> list[tuple[int, bytes]]:
    """Parse the *content* of an extensions vector (without its 2-byte length)."""
    r = _Reader(data)
    out: list[tuple[int, bytes]] = []
    while r.remaining():
        ext_type = r.u16()
        out.append((ext_type, r.vec(2, what=f"extension {ext_type}")))
    return out


def build_extensions(extensions) -> bytes:
    """Inverse of parse_extensions (content only, no outer length)."""
    out = bytearray()
    try:
        for ext_type, body in extensions:
            out += _uint(ext_type, 2, "extension type")
            out += _vec(body, 2, f"extension {ext_type}")
    except (TypeError, ValueError) as exc:
        if isinstance(exc, EncodeError):
            raise
        raise EncodeError(f"bad extension list: {exc}")
    return bytes(out)


def find_extension(extensions, ext_type: int) -> bytes | None:
    """Body of the first extension of the given type, or None."""
    for t, body in extensions or ():
        if t == ext_type:
            return body
    return None


def duplicate_extensions(extensions) -> list[int]:
    """Extension types appearing more than once (forbidden by RFC 8446 4.2)."""
    seen, dup = set(), []
    for t, _ in extensions or ():
        if t in seen and t not in dup:
            dup.append(t)
        seen.add(t)
    return dup


# --------------------------------------------------------------------------
# handshake message codec
# --------------------------------------------------------------------------


def _dec_client_hello(r: _Reader) -> dict:
    msg = {
        "type": HT_CLIENT_HELLO,
        "legacy_version": r.u16(),
        "random": r.take(32),
        "legacy_session_id": r.vec(1, 0, 32, "legacy_session_id"),
        "cipher_suites": _uint_list(r.sub(2, 2, None, "cipher_suites"), 2, "cipher_suites"),
        "compression_methods": _uint_list(
            r.sub(1, 1, None, "compression_methods"), 1, "compression_methods"
        ),
    }
    msg["extensions"] = parse_extensions(r.vec(2, what="extensions")) if r.remaining() else None
    return msg


def _enc_client_hello(m: dict) -> bytes:
    out = _uint(m["legacy_version"], 2) + _fixed(m["random"], 32, "random")
    out += _vec(m["legacy_session_id"], 1, "legacy_session_id")
    out += _vec(b"".join(_uint(c, 2, "cipher suite") for c in m["cipher_suites"]), 2)
    out += _vec(b"".join(_uint(c, 1, "compression") for c in m["compression_methods"]), 1)
    if m["extensions"] is not None:
        out += _vec(build_extensions(m["extensions"]), 2, "extensions")
    return out


def _fixed(data, n: int, what: str) -> bytes:
    data = bytes(data)
    if len(data) != n:
        raise EncodeError(f"{what}: must be {n} bytes, got {len(data)}")
    return data


def _dec_server_hello(r: _Reader) -> dict:
    msg = {
        "type": HT_SERVER_HELLO,
        "legacy_version": r.u16(),
        "random": r.take(32),
        "legacy_session_id_echo": r.vec(1, 0, 32, "legacy_session_id_echo"),
        "cipher_suite": r.u16(),
        "compression_method": r.u8(),
    }
    msg["extensions"] = parse_extensions(r.vec(2, what="extensions")) if r.remaining() else None
    return msg


def _enc_server_hello(m: dict) -> bytes:
    out = _uint(m["legacy_version"], 2) + _fixed(m["random"], 32, "random")
    out += _vec(m["legacy_session_id_echo"], 1, "legacy_session_id_echo")
    out += _uint(m["cipher_suite"], 2) + _uint(m["compression_method"], 1)
    if m["extensions"] is not None:
        out += _vec(build_extensions(m["extensions"]), 2, "extensions")
    return out


def _dec_new_session_ticket(r: _Reader) -> dict:
    return {
        "type": HT_NEW_SESSION_TICKET,
        "ticket_lifetime": r.u32(),
        "ticket_age_add": r.u32(),
        "ticket_nonce": r.vec(1, what="ticket_nonce"),
        "ticket": r.vec(2, 1, None, "ticket"),
        "extensions": parse_extensions(r.vec(2, 0, 0xFFFE, "extensions")),
    }


def _enc_new_session_ticket(m: dict) -> bytes:
    return (
        _uint(m["ticket_lifetime"], 4, "ticket_lifetime")
        + _uint(m["ticket_age_add"], 4, "ticket_age_add")
        + _vec(m["ticket_nonce"], 1, "ticket_nonce")
        + _vec(m["ticket"], 2, "ticket")
        + _vec(build_extensions(m["extensions"]), 2, "extensions")
    )


def _dec_encrypted_extensions(r: _Reader) -> dict:
    return {
        "type": HT_ENCRYPTED_EXTENSIONS,
        "extensions": parse_extensions(r.vec(2, what="extensions")),
    }


def _enc_encrypted_extensions(m: dict) -> bytes:
    return _vec(build_extensions(m["extensions"]), 2, "extensions")


def _dec_certificate(r: _Reader) -> dict:
    msg = {"type": HT_CERTIFICATE, "request_context": r.vec(1, what="request_context")}
    lst = r.sub(3, what="certificate_list")
    certs = []
    while lst.remaining():
        der = lst.vec(3, 1, None, "cert_data")
        certs.append((der, parse_extensions(lst.vec(2, what="certificate extensions"))))
    msg["certificates"] = certs
    return msg


def _enc_certificate(m: dict) -> bytes:
    body = bytearray()
    for entry in m["certificates"]:
        try:
            der, exts = entry
        except (TypeError, ValueError):
            raise EncodeError("certificate entry must be (der, extensions)")
        body += _vec(der, 3, "cert_data") + _vec(build_extensions(exts), 2)
    return _vec(m["request_context"], 1, "request_context") + _vec(body, 3, "certificate_list")


def _dec_certificate_request(r: _Reader) -> dict:
    return {
        "type": HT_CERTIFICATE_REQUEST,
        "request_context": r.vec(1, what="request_context"),
        "extensions": parse_extensions(r.vec(2, 2, None, "extensions")),
    }


def _enc_certificate_request(m: dict) -> bytes:
    return _vec(m["request_context"], 1, "request_context") + _vec(
        build_extensions(m["extensions"]), 2, "extensions"
    )


def _dec_certificate_verify(r: _Reader) -> dict:
    return {
        "type": HT_CERTIFICATE_VERIFY,
        "algorithm": r.u16(),
        "signature": r.vec(2, what="signature"),
    }


def _enc_certificate_verify(m: dict) -> bytes:
    return _uint(m["algorithm"], 2, "algorithm") + _vec(m["signature"], 2, "signature")


def _dec_finished(r: _Reader) -> dict:
    return {"type": HT_FINISHED, "verify_data": r.rest()}


def _enc_finished(m: dict) -> bytes:
    return bytes(m["verify_data"])


def _dec_end_of_early_data(r: _Reader) -> dict:
    return {"type": HT_END_OF_EARLY_DATA}


def _enc_end_of_early_data(m: dict) -> bytes:
    return b""


def _dec_key_update(r: _Reader) -> dict:
    v = r.u8()
    if r.strict and v > 1:
        raise ParseError(f"key_update: illegal request_update {v}")
    return {"type": HT_KEY_UPDATE, "request_update": v}


def _enc_key_update(m: dict) -> bytes:
    return _uint(m["request_update"], 1, "request_update")


_CODEC = {
    HT_CLIENT_HELLO: (_dec_client_hello, _enc_client_hello, "client_hello"),
    HT_SERVER_HELLO: (_dec_server_hello, _enc_server_hello, "server_hello"),
    HT_NEW_SESSION_TICKET: (_dec_new_session_ticket, _enc_new_session_ticket, "new_session_ticket"),
    HT_END_OF_EARLY_DATA: (_dec_end_of_early_data, _enc_end_of_early_data, "end_of_early_data"),
    HT_ENCRYPTED_EXTENSIONS: (
        _dec_encrypted_extensions,
        _enc_encrypted_extensions,
        "encrypted_extensions",
    ),
    HT_CERTIFICATE: (_dec_certificate, _enc_certificate, "certificate"),
    HT_CERTIFICATE_REQUEST: (_dec_certificate_request, _enc_certificate_request, "certificate_request"),
    HT_CERTIFICATE_VERIFY: (_dec_certificate_verify, _enc_certificate_verify, "certificate_verify"),
    HT_FINISHED: (_dec_finished, _enc_finished, "finished"),
    HT_KEY_UPDATE: (_dec_key_update, _enc_key_update, "key_update"),
}


def message_name(msg_type: int) -> str:
    entry = _CODEC.get(msg_type)
    return entry[2] if entry else f"handshake_type_{msg_type}"


def encode_message(msg: dict) -> bytes:
    """Serialise one handshake message including its 4-byte header.

    Unknown types are encoded from ``{"type": t, "body": bytes}``.  The encoder
    is deliberately permissive about RFC vector bounds (an adversary must be
    able to emit out-of-bounds values); it only refuses what cannot be
    represented.
    """
    try:
        msg_type = msg["type"]
        entry = _CODEC.get(msg_type)
        body = entry[1](msg) if entry else bytes(msg["body"])
    except KeyError as exc:
        raise EncodeError(f"missing field {exc}")
    except EncodeError:
        raise
    except (TypeError, ValueError) as exc:
        raise EncodeError(str(exc))
    return _uint(msg_type, 1, "handshake type") + _vec(body, 3, "handshake body")


def decode_message(data: bytes, strict: bool = True) -> dict:
    """Parse exactly one complete handshake message.

    ``strict`` additionally enforces the vector bounds of the RFC 8446
    presentation language (e.g. legacy_session_id<0..32>, ticket<1..2^16-1>).
    Structural consistency (every declared length is exactly consumed) is
    always enforced.
    """
    try:
        outer = _Reader(data, strict)
    except TypeError:
        raise ParseError("input is not bytes")
    msg_type = outer.u8()
    body = outer.vec(3, what="handshake body")
    outer.end("handshake message")
    entry = _CODEC.get(msg_type)
    if entry is None:
        return {"type": msg_type, "body": body}
    r = _Reader(body, strict)
    msg = entry[0](r)
    r.end(entry[2])
    return msg


def split_messages(data: bytes) -> list[bytes]:
    """Split a CRYPTO byte stream into complete handshake messages."""
    data = bytes(data)
    out = []
    pos = 0
    while pos < len(data):
        if len(data) - pos < 4:
            raise ParseError("incomplete handshake header at end of stream")
        n = int.from_bytes(data[pos + 1 : pos + 4], "big")
        if len(data) - pos - 4 < n:
            raise ParseError("incomplete handshake message at end of stream")
        out.append(data[pos : pos + 4 + n])
        pos += 4 + n
    return out


# --------------------------------------------------------------------------
# extension bodies
# --------------------------------------------------------------------------


def _whole(body: bytes, what: str) -> _Reader:
    try:
        return _Reader(body)
    except TypeError:
        raise ParseError(f"{what}: not bytes")


def build_server_name(host: str) -> bytes:
    try:
        name = host.encode("ascii")
    except (UnicodeError, AttributeError):
        raise EncodeError("server_name: host must be an ASCII str")
    return _vec(b"\x00" + _vec(name, 2, "host_name"), 2, "server_name_list")


def parse_server_name(body: bytes) -> str:
    """First host_name entry of a ClientHello server_name extension (RFC 6066)."""
    r = _whole(body, "server_name")
    lst = r.sub(2, 1, None, "server_name_list")
    r.end("server_name")
    host = None
    seen_types = set()
    while lst.remaining():
        name_type = lst.u8()
        if name_type in seen_types:
            raise ParseError("server_name: duplicate name_type")
        seen_types.add(name_type)
        # only host_name(0) is defined; RFC 6066 gives every NameType a
        # 2-byte length so unknown types can be skipped
        value = lst.vec(2, 1, None, "server_name entry")
        if name_type == 0:
            try:
                host = value.decode("ascii")
            except UnicodeDecodeError:
                raise ParseError("server_name: host_name is not ASCII")
    if host is None:
        raise ParseError("server_name: no host_name entry")
    return host


def build_supported_versions(versions, server: bool = False) -> bytes:
    if server:
        return _uint(versions, 2, "selected_version")
    return _vec(b"".join(_uint(v, 2, "version") for v in versions), 1, "versions")


def parse_supported_versions(body: bytes, server: bool = False):
    r = _whole(body, "supported_versions")
    if server:
        v = r.u16()
        r.end("supported_versions")
        return v
    out = _uint_list(r.sub(1, 2, 254, "versions"), 2, "versions")
    r.end("supported_versions")
    return out


def build_supported_groups(groups) -> bytes:
    return _vec(b"".join(_uint(g, 2, "group") for g in groups), 2, "named_group_list")


def parse_supported_groups(body: bytes) -> list[int]:
    r = _whole(body, "supported_groups")
    out = _uint_list(r.sub(2, 2, None, "named_group_list"), 2, "named_group_list")
    r.end("supported_groups")
    return out


def build_signature_algorithms(algorithms) -> bytes:
    return _vec(b"".join(_uint(a, 2, "signature scheme") for a in algorithms), 2)


def parse_signature_algorithms(body: bytes) -> list[int]:
    r = _whole(body, "signature_algorithms")
    out = _uint_list(r.sub(2, 2, None, "signature_algorithms"), 2, "signature_algorithms")
    r.end("signature_algorithms")
    return out


def _build_key_share_entry(entry) -> bytes:
    try:
        group, key_exchange = entry
    except (TypeError, ValueError):
        raise EncodeError("key_share entry must be (group, key_exchange)")
    return _uint(group, 2, "group") + _vec(key_exchange, 2, "key_exchange")


def _parse_key_share_entry(r: _Reader) -> tuple[int, bytes]:
    group = r.u16()
    return (group, r.vec(2, 1, None, "key_exchange"))


def build_key_share(shares, server: bool = False) -> bytes:
    """client: list of (group, key_exchange); server: a single (group, key_exchange)."""
    if server:
        return _build_key_share_entry(shares)
    return _vec(b"".join(_build_key_share_entry(e) for e in shares), 2, "client_shares")


def parse_key_share(body: bytes, server: bool = False):
    r = _whole(body, "key_share")
    if server:
        entry = _parse_key_share_entry(r)
        r.end("key_share")
        return entry
    lst = r.sub(2, what="client_shares")
    r.end("key_share")
    out = []
    while lst.remaining():
        out.append(_parse_key_share_entry(lst))
    return out


def build_key_share_hrr(group: int) -> bytes:
    return _uint(group, 2, "selected_group")


def parse_key_share_hrr(body: bytes) -> int:
    r = _whole(body, "key_share")
    g = r.u16()
    r.end("key_share (HelloRetryRequest)")
    return g


def build_alpn(protocols) -> bytes:
    return _vec(b"".join(_vec(p, 1, "protocol_name") for p in protocols), 2, "protocol_name_list")


def parse_alpn(body: bytes) -> list[bytes]:
    r = _whole(body, "alpn")
    lst = r.sub(2, 2, None, "protocol_name_list")
    r.end("alpn")
    out = []
    while lst.remaining():
        out.append(lst.vec(1, 1, None, "protocol_name"))
    return out


def build_psk_key_exchange_modes(modes) -> bytes:
    return _vec(b"".join(_uint(m, 1, "ke_mode") for m in modes), 1, "ke_modes")


def parse_psk_key_exchange_modes(body: bytes) -> list[int]:
    r = _whole(body, "psk_key_exchange_modes")
    out = _uint_list(r.sub(1, 1, None, "ke_modes"), 1, "ke_modes")
    r.end("psk_key_exchange_modes")
    return out


def _build_binders(binders) -> bytes:
    return _vec(b"".join(_vec(b, 1, "binder") for b in binders), 2, "binders")


def build_pre_shared_key(identities=None, binders=None, *, selected: int | None = None) -> bytes:
    """client: identities [(identity, obfuscated_ticket_age)], binders [bytes];
    server: ``selected=index``."""
    if selected is not None:
        return _uint(selected, 2, "selected_identity")
    ids = bytearray()
    for entry in identities or ():
        try:
            identity, age = entry
        except (TypeError, ValueError):
            raise EncodeError("psk identity must be (identity, obfuscated_ticket_age)")
        ids += _vec(identity, 2, "identity") + _uint(age, 4, "obfuscated_ticket_age")
    return _vec(ids, 2, "identities") + _build_binders(binders or ())


def parse_pre_shared_key(body: bytes, server: bool = False):
    r = _whole(body, "pre_shared_key")
    if server:
        idx = r.u16()
        r.end("pre_shared_key")
        return idx
    ids = r.sub(2, 7, None, "identities")
    bnd = r.sub(2, 33, None, "binders")
    r.end("pre_shared_key")
    identities, binders = [], []
    while ids.remaining():
        identity = ids.vec(2, 1, None, "identity")
        identities.append((identity, ids.u32()))
    while bnd.remaining():
        binders.append(bnd.vec(1, 32, None, "binder"))
    return identities, binders


def binders_length(binders) -> int:
    """Wire size of the binders vector (incl. its 2-byte length): the number of
    bytes to cut from the end of a ClientHello to get the binder transcript."""
    return 2 + sum(1 + len(b) for b in binders)


def build_early_data(max_early_data_size: int | None = None) -> bytes:
    """Empty in ClientHello / EncryptedExtensions, uint32 in NewSessionTicket."""
    return b"" if max_early_data_size is None else _uint(max_early_data_size, 4)


def parse_early_data(body: bytes, nst: bool = False):
    r = _whole(body, "early_data")
    if nst:
        v = r.u32()
        r.end("early_data")
        return v
    r.end("early_data")
    return None


def build_quic_transport_parameters(params: bytes) -> bytes:
    return bytes(params)


def parse_quic_transport_parameters(body: bytes) -> bytes:
    return bytes(body)


# --------------------------------------------------------------------------
# HKDF and the key schedule (RFC 5869, RFC 8446 section 7.1)
# --------------------------------------------------------------------------


def _hash_len(hash_name: str) -> int:
    return hashlib.new(hash_name).digest_size


def hkdf_extract(hash_name: str, salt: bytes, ikm: bytes) -> bytes:
    """HKDF-Extract(salt, IKM) = HMAC-Hash(salt, IKM)."""
    if not salt:
        salt = bytes(_hash_len(hash_name))
    return hmac.new(salt, ikm, hash_name).digest()


def hkdf_expand(hash_name: str, prk: bytes, info: bytes, length: int) -> bytes:
    """HKDF-Expand(PRK, info, L)."""
    n = _hash_len(hash_name)
    if length > 255 * n:
        raise ValueError("hkdf_expand: length too large")
    okm, block, counter = b"", b"", 1
    while len(okm) < length:
        block = hmac.new(prk, block + info + bytes([counter]), hash_name).digest()
        okm += block
        counter += 1
    return okm[:length]


def hkdf_expand_label(hash_name: str, secret: bytes, label: bytes, context: bytes, length: int) -> bytes:
    """HKDF-Expand-Label(Secret, Label, Context, Length); ``label`` without the
    "tls13 " prefix."""
    if isinstance(label, str):
        label = label.encode("ascii")
    full = b"tls13 " + label
    info = length.to_bytes(2, "big") + bytes([len(full)]) + full + bytes([len(context)]) + context
    return hkdf_expand(hash_name, secret, info, length)


def derive_secret(hash_name: str, secret: bytes, label: bytes, transcript_hash: bytes) -> bytes:
    """Derive-Secret(Secret, Label, Messages) given Transcript-Hash(Messages)."""
    return hkdf_expand_label(hash_name, secret, label, transcript_hash, _hash_len(hash_name))


class KeySchedule:
    """RFC 8446 7.1 key schedule plus the running transcript hash.

    All ``*_secret()`` accessors use the transcript as updated so far, so the
    caller decides what "the transcript" is.
    """

    def __init__(self, cipher_suite: int, psk: bytes | None = None):
        if cipher_suite not in CIPHER_SUITE_HASH:
            raise ValueError(f"unknown cipher suite {cipher_suite:#06x}")
        self.cipher_suite = cipher_suite
        self.hash_name = CIPHER_SUITE_HASH[cipher_suite]
        self.hash_len = _hash_len(self.hash_name)
        self._transcript = hashlib.new(self.hash_name)
        self._empty_hash = hashlib.new(self.hash_name).digest()
        self._zeros = bytes(self.hash_len)
        self.psk = psk
        self.early_secret = hkdf_extract(self.hash_name, self._zeros, psk if psk is not None else self._zeros)
        self.handshake_secret: bytes | None = None
        self.master_secret: bytes | None = None

    # -- transcript
    def update(self, message_bytes: bytes) -> None:
        self._transcript.update(message_bytes)

    def transcript_hash(self) -> bytes:
        return self._transcript.copy().digest()

    def replace_with_message_hash(self) -> None:
        """HelloRetryRequest rule (4.4.1): replace ClientHello1 in the transcript
        by a synthetic message_hash message."""
        h = self.transcript_hash()
        self._transcript = hashlib.new(self.hash_name)
        self._transcript.update(bytes([HT_MESSAGE_HASH, 0, 0, self.hash_len]) + h)

    def copy(self) -> "KeySchedule":
        other = KeySchedule.__new__(KeySchedule)
        other.__dict__.update(self.__dict__)
        other._transcript = self._transcript.copy()
        return other

    def _derive(self, secret: bytes | None, label: bytes, transcript_hash: bytes | None = None) -> bytes:
        if secret is None:
            raise ValueError(f"key schedule stage for {label!r} not reached")
        if transcript_hash is None:
            transcript_hash = self.transcript_hash()
        return derive_secret(self.hash_name, secret, label, transcript_hash)

    # -- early secret stage
    def binder_key(self, external: bool = False) -> bytes:
        return self._derive(self.early_secret, b"ext binder" if external else b"res binder", self._empty_hash)

    def client_early_traffic_secret(self) -> bytes:
        return self._derive(self.early_secret, b"c e traffic")

    def early_exporter_master_secret(self) -> bytes:
        return self._derive(self.early_secret, b"e exp master")

    # -- handshake secret stage
    def set_shared_secret(self, ecdhe: bytes | None) -> None:
        derived = self._derive(self.early_secret, b"derived", self._empty_hash)
        self.handshake_secret = hkdf_extract(self.hash_name, derived, ecdhe if ecdhe is not None else self._zeros)

    def client_handshake_traffic_secret(self) -> bytes:
        return self._derive(self.handshake_secret, b"c hs traffic")

    def server_handshake_traffic_secret(self) -> bytes:
        return self._derive(self.handshake_secret, b"s hs traffic")

    # -- master secret stage
    def derive_master(self) -> None:
        derived = self._derive(self.handshake_secret, b"derived", self._empty_hash)
        self.master_secret = hkdf_extract(self.hash_name, derived, self._zeros)

    def client_application_traffic_secret(self) -> bytes:
        return self._derive(self.master_secret, b"c ap traffic")

    def server_application_traffic_secret(self) -> bytes:
        return self._derive(self.master_secret, b"s ap traffic")

    def exporter_master_secret(self) -> bytes:
        return self._derive(self.master_secret, b"exp master")

    def resumption_master_secret(self) -> bytes:
        return self._derive(self.master_secret, b"res master")

    def resumption_psk(self, resumption_master_secret: bytes, ticket_nonce: bytes) -> bytes:
        """PSK associated with a NewSessionTicket (4.6.1)."""
        return hkdf_expand_label(self.hash_name, resumption_master_secret, b"resumption", ticket_nonce, self.hash_len)

    def next_application_traffic_secret(self, secret: bytes) -> bytes:
        """application_traffic_secret_N+1 (7.2)."""
        return hkdf_expand_label(self.hash_name, secret, b"traffic upd", b"", self.hash_len)

    # -- authentication
    def finished_key(self, base_secret: bytes) -> bytes:
        return hkdf_expand_label(self.hash_name, base_secret, b"finished", b"", self.hash_len)

    def finished_verify_data(self, base_secret: bytes, transcript_hash: bytes | None = None) -> bytes:
        if transcript_hash is None:
            transcript_hash = self.transcript_hash()
        return hmac.new(self.finished_key(base_secret), transcript_hash, self.hash_name).digest()

    @staticmethod
    def certificate_verify_input(transcript_hash: bytes, server: bool) -> bytes:
        context = b"TLS 1.3, server CertificateVerify" if server else b"TLS 1.3, client CertificateVerify"
        return b"\x20" * 64 + context + b"\x00" + transcript_hash


def compute_binder(
    cipher_suite: int, psk: bytes, truncated_client_hello: bytes, external: bool = False, prefix: bytes = b""
) -> bytes:
    """PSK binder (4.2.11.2) over ``prefix`` (e.g. message_hash + HRR) followed
    by the ClientHello truncated before the binders vector."""
    ks = KeySchedule(cipher_suite, psk)
    ks.update(prefix)
    ks.update(truncated_client_hello)
    return ks.finished_verify_data(ks.binder_key(external))


# --------------------------------------------------------------------------
# signatures (RFC 8446 4.2.3)
# --------------------------------------------------------------------------

_HASHES = {"sha1": hashes.SHA1, "sha256": hashes.SHA256, "sha384": hashes.SHA384, "sha512": hashes.SHA512}

# scheme -> (kind, hash name, curve class or None)
_SIG_SCHEMES = {
    SIG_RSA_PKCS1_SHA1: ("rsa_pkcs1", "sha1", None),
    SIG_RSA_PKCS1_SHA256: ("rsa_pkcs1", "sha256", None),
    SIG_RSA_PKCS1_SHA384: ("rsa_pkcs1", "sha384", None),
    SIG_RSA_PKCS1_SHA512: ("rsa_pkcs1", "sha512", None),
    SIG_RSA_PSS_RSAE_SHA256: ("rsa_pss", "sha256", None),
    SIG_RSA_PSS_RSAE_SHA384: ("rsa_pss", "sha384", None),
    SIG_RSA_PSS_RSAE_SHA512: ("rsa_pss", "sha512", None),
    SIG_RSA_PSS_PSS_SHA256: ("rsa_pss", "sha256", None),
    SIG_RSA_PSS_PSS_SHA384: ("rsa_pss", "sha384", None),
    SIG_RSA_PSS_PSS_SHA512: ("rsa_pss", "sha512", None),
    SIG_ECDSA_SECP256R1_SHA256: ("ecdsa", "sha256", ec.SECP256R1),
    SIG_ECDSA_SECP384R1_SHA384: ("ecdsa", "sha384", ec.SECP384R1),
    SIG_ECDSA_SECP521R1_SHA512: ("ecdsa", "sha512", ec.SECP521R1),
    SIG_ED25519: ("ed25519", None, None),
    SIG_ED448: ("ed448", None, None),
}


def _rsa_padding(kind: str, hash_obj):
    if kind == "rsa_pss":
        # salt length equals the digest length (4.2.3)
        return padding.PSS(mgf=padding.MGF1(hash_obj), salt_length=hash_obj.digest_size)
    return padding.PKCS1v15()


def sign(private_key, algorithm: int, data: bytes) -> bytes:
    """Sign ``data`` with a SignatureScheme.  PKCS#1 v1.5 schemes are available
    for adversarial use although TLS 1.3 forbids them in CertificateVerify."""
    scheme = _SIG_SCHEMES.get(algorithm)
    if scheme is None:
        raise ValueError(f"unsupported signature scheme {algorithm:#06x}")
    kind, hash_name, curve = scheme
    if kind in ("rsa_pss", "rsa_pkcs1"):
        if not isinstance(private_key, rsa.RSAPrivateKey):
            raise ValueError("signature scheme needs an RSA key")
        h = _HASHES[hash_name]()
        return private_key.sign(data, _rsa_padding(kind, h), h)
    if kind == "ecdsa":
        if not isinstance(private_key, ec.EllipticCurvePrivateKey):
            raise ValueError("signature scheme needs an EC key")
        return private_key.sign(data, ec.ECDSA(_HASHES[hash_name]()))
    if kind == "ed25519":
        if not isinstance(private_key, ed25519.Ed25519PrivateKey):
            raise ValueError("signature scheme needs an Ed25519 key")
        return private_key.sign(data)
    if not isinstance(private_key, ed448.Ed448PrivateKey):
        raise ValueError("signature scheme needs an Ed448 key")
    return private_key.sign(data)


def verify(public_key, algorithm: int, signature: bytes, data: bytes) -> bool:
    """True iff ``signature`` is valid for ``data`` under the scheme AND the key
    type/curve is the one the scheme prescribes."""
    scheme = _SIG_SCHEMES.get(algorithm)
    if scheme is None:
        return False
    kind, hash_name, curve = scheme
    try:
        if kind in ("rsa_pss", "rsa_pkcs1"):
            if not isinstance(public_key, rsa.RSAPublicKey):
                return False
            h = _HASHES[hash_name]()
            public_key.verify(signature, data, _rsa_padding(kind, h), h)
        elif kind == "ecdsa":
            if not isinstance(public_key, ec.EllipticCurvePublicKey) or not isinstance(public_key.curve, curve):
                return False
            public_key.verify(signature, data, ec.ECDSA(_HASHES[hash_name]()))
        elif kind == "ed25519":
            if not isinstance(public_key, ed25519.Ed25519PublicKey):
                return False
            public_key.verify(signature, data)
        else:
            if not isinstance(public_key, ed448.Ed448PublicKey):
                return False
            public_key.verify(signature, data)
    except InvalidSignature:
        return False
    return True


def signature_algorithms_for_key(key) -> list[int]:
    """TLS 1.3 CertificateVerify schemes usable with a private or public key,
    in preference order."""
    if isinstance(key, (rsa.RSAPrivateKey, rsa.RSAPublicKey)):
        return [SIG_RSA_PSS_RSAE_SHA256, SIG_RSA_PSS_RSAE_SHA384, SIG_RSA_PSS_RSAE_SHA512]
    if isinstance(key, (ec.EllipticCurvePrivateKey, ec.EllipticCurvePublicKey)):
        for alg, (kind, _, curve) in _SIG_SCHEMES.items():
            if kind == "ecdsa" and isinstance(key.curve, curve):
                return [alg]
        return []
    if isinstance(key, (ed25519.Ed25519PrivateKey, ed25519.Ed25519PublicKey)):
        return [SIG_ED25519]
    if isinstance(key, (ed448.Ed448PrivateKey, ed448.Ed448PublicKey)):
        return [SIG_ED448]
    return []


def choose_signature_algorithm(key, offered) -> int | None:
    for alg in signature_algorithms_for_key(key):
        if alg in offered:
            return alg
    return None


def certificate_public_key(der: bytes):
    try:
        return x509.load_der_x509_certificate(der).public_key()
    except Exception as exc:  # cryptography raises ValueError and friends
        raise HandshakeError("bad_certificate", f"cannot parse certificate: {exc}")


# --------------------------------------------------------------------------
# (EC)DHE (RFC 8446 4.2.8 / 7.4)
# --------------------------------------------------------------------------

_EC_GROUPS = {
    GROUP_SECP256R1: (ec.SECP256R1, 32),
    GROUP_SECP384R1: (ec.SECP384R1, 48),
    GROUP_SECP521R1: (ec.SECP521R1, 66),
}
SUPPORTED_GROUPS = (GROUP_X25519, GROUP_SECP256R1, GROUP_SECP384R1, GROUP_SECP521R1, GROUP_X448)


def generate_key_share(group: int, rng=os.urandom):
    """Return (private_key, key_exchange bytes) for a named group, drawing all
    randomness from ``rng``."""
    if group == GROUP_X25519:
        priv = x25519.X25519PrivateKey.from_private_bytes(rng(32))
        return priv, priv.public_key().public_bytes(serialization.Encoding.Raw, serialization.PublicFormat.Raw)
    if group == GROUP_X448:
        priv = x448.X448PrivateKey.from_private_bytes(rng(56))
        return priv, priv.public_key().public_bytes(serialization.Encoding.Raw, serialization.PublicFormat.Raw)
    if group in _EC_GROUPS:
        curve, size = _EC_GROUPS[group]
        for _ in range(64):
            value = int.from_bytes(rng(size), "big")
            if group == GROUP_SECP521R1:
                value &= (1 << 521) - 1
            try:
                if value == 0:
                    continue
                priv = ec.derive_private_key(value, curve())
            except ValueError:
                continue  # >= group order, draw again
            return priv, priv.public_key().public_bytes(
                serialization.Encoding.X962, serialization.PublicFormat.UncompressedPoint
            )
        raise ValueError("rng did not yield a valid EC scalar")
    raise ValueError(f"unsupported group {group}")


def compute_shared_secret(group: int, private_key, peer_key_exchange: bytes) -> bytes:
    """(EC)DHE shared secret; HandshakeError(illegal_parameter) for invalid
    peer values (wrong length, point not on curve, all-zero X25519 output)."""
    try:
        if group == GROUP_X25519:
            if len(peer_key_exchange) != 32:
                raise ValueError("x25519 key_exchange must be 32 bytes")
            shared = private_key.exchange(x25519.X25519PublicKey.from_public_bytes(peer_key_exchange))
        elif group == GROUP_X448:
            if len(peer_key_exchange) != 56:
                raise ValueError("x448 key_exchange must be 56 bytes")
            shared = private_key.exchange(x448.X448PublicKey.from_public_bytes(peer_key_exchange))
        elif group in _EC_GROUPS:
            curve, size = _EC_GROUPS[group]
            if len(peer_key_exchange) != 1 + 2 * size or peer_key_exchange[0] != 4:
                raise ValueError("EC key_exchange must be an uncompressed point")
            peer = ec.EllipticCurvePublicKey.from_encoded_point(curve(), peer_key_exchange)
            shared = private_key.exchange(ec.ECDH(), peer)
        else:
            raise ValueError(f"unsupported group {group}")
    except HandshakeError:
        raise
    except Exception as exc:
        raise HandshakeError("illegal_parameter", f"key exchange failed: {exc}")
    if not any(shared):
        raise HandshakeError("illegal_parameter", "all-zero shared secret")
    return shared


# --------------------------------------------------------------------------
# scriptable peers
# --------------------------------------------------------------------------


def _ext_dict(extensions, where: str) -> dict[int, bytes]:
    dup = duplicate_extensions(extensions)
    if dup:
        raise HandshakeError("illegal_parameter", f"duplicate extensions {dup} in {where}")
    return dict(extensions or ())


def _parse_ext(func, body, where: str, *args, **kwargs):
    try:
        return func(body, *args, **kwargs)
    except ParseError as exc:
        raise HandshakeError("decode_error", f"{where}: {exc}")


def _decode(data: bytes, where: str) -> dict:
    try:
        return decode_message(data)
    except ParseError as exc:
        raise HandshakeError("decode_error", f"{where}: {exc}")


class _Peer:
    """Transcript discipline shared by RefServer and RefClient: every message
    handed out is first appended to the transcript, nothing else is."""

    ks: KeySchedule | None

    def _init_peer(self, rng) -> None:
        self.rng = rng
        self.ks = None
        self.sent: list[bytes] = []
        self.received: list[dict] = []
        self.client_early_secret: bytes | None = None
        self.client_hs_secret: bytes | None = None
        self.server_hs_secret: bytes | None = None
        self.client_app_secret: bytes | None = None
        self.server_app_secret: bytes | None = None
        self.resumption_master: bytes | None = None

    def _need_ks(self) -> KeySchedule:
        if self.ks is None:
            raise RuntimeError("key schedule not started (no ServerHello yet)")
        return self.ks

    def _emit(self, message_bytes: bytes) -> bytes:
        message_bytes = bytes(message_bytes)
        self._need_ks().update(message_bytes)
        self.sent.append(message_bytes)
        return message_bytes

    def raw(self, message_bytes: bytes) -> bytes:
        """Append arbitrary bytes to the transcript and return them."""
        return self._emit(message_bytes)

    def secrets(self) -> dict[str, bytes | None]:
        return {
            "client_early": self.client_early_secret,
            "client_hs": self.client_hs_secret,
            "server_hs": self.server_hs_secret,
            "client_app": self.client_app_secret,
            "server_app": self.server_app_secret,
        }


class RefServer(_Peer):
    """A scriptable TLS 1.3 server for QUIC (no record layer).

    Typical use::

        s = RefServer(chain, key, alpn=b"h3", transport_parameters=tp)
        s.receive_client_hello(ch)
        initial = s.server_hello()
        handshake = s.encrypted_extensions() + s.certificate() + s.certificate_verify() + s.finished()
        ok = s.check_client_finished(client_fin)

    ``strict=False`` lets the server continue when negotiation fails (no
    common suite / signature scheme / ALPN) by imposing its own first choice;
    problems are always listed in ``negotiation_errors``.
    """

    def __init__(
        self,
        cert_chain_der: list[bytes],
        private_key,
        *,
        alpn: bytes | None = None,
        transport_parameters: bytes | None = b"",
        cipher_suites=(TLS_AES_128_GCM_SHA256, TLS_AES_256_GCM_SHA384, TLS_CHACHA20_POLY1305_SHA256),
        rng=os.urandom,
        psk_lookup=None,
        groups=SUPPORTED_GROUPS,
        strict: bool = True,
    ):
        self._init_peer(rng)
        self.cert_chain_der = [bytes(c) for c in cert_chain_der]
        self.private_key = private_key
        self.alpn = alpn
        self.transport_parameters = transport_parameters
        self.cipher_suites = tuple(cipher_suites)
        self.groups = tuple(groups)
        self.psk_lookup = psk_lookup
        self.strict = strict

        self.client_hello: dict | None = None
        self.client_hello_bytes: bytes | None = None
        self.client_extensions: dict[int, bytes] = {}
        self.negotiation_errors: list[str] = []
        self.cipher_suite: int | None = None
        self.group: int | None = None
        self.key_share: tuple[int, bytes] | None = None
        self.shared_secret: bytes | None = None
        self.signature_algorithm: int | None = None
        self.client_signature_algorithms: list[int] = []
        self.client_alpn: list[bytes] | None = None
        self.client_server_name: str | None = None
        self.client_transport_parameters: bytes | None = None
        self.client_offers_early_data = False
        self.psk_offered: tuple[list, list] | None = None
        self.psk_modes: list[int] = []
        self.psk: bytes | None = None
        self.binder_ok: bool | None = None
        self.psk_selected = False
        self.server_random: bytes | None = None
        self.client_certificates: list | None = None
        self.client_cert_verify_ok: bool | None = None
        self.client_finished_ok: bool | None = None
        self.issued_tickets: dict[bytes, bytes] = {}

    # ---- ClientHello ---------------------------------------------------

    def _problem(self, alert: str, detail: str) -> None:
        self.negotiation_errors.append(f"{alert}: {detail}")
        if self.strict:
            raise HandshakeError(alert, detail)

    def receive_client_hello(self, ch_bytes: bytes) -> None:
        ch_bytes = bytes(ch_bytes)
        ch = _decode(ch_bytes, "ClientHello")
        if ch["type"] != HT_CLIENT_HELLO:
            raise HandshakeError("unexpected_message", f"expected ClientHello, got {message_name(ch['type'])}")
        self.client_hello = ch
        self.client_hello_bytes = ch_bytes
        self.negotiation_errors = []
        exts = self.client_extensions = _ext_dict(ch["extensions"], "ClientHello")

        # version (4.2.1): supported_versions is the only version signal
        versions = []
        if EXT_SUPPORTED_VERSIONS in exts:
            versions = _parse_ext(parse_supported_versions, exts[EXT_SUPPORTED_VERSIONS], "supported_versions")
        if TLS_VERSION_1_3 not in versions:
            raise HandshakeError("protocol_version", "ClientHello does not offer TLS 1.3")
        if ch["legacy_version"] != TLS_VERSION_1_2:
            self._problem("illegal_parameter", "legacy_version is not 0x0303")
        if 0 not in ch["compression_methods"] or len(ch["compression_methods"]) != 1:
            self._problem("illegal_parameter", "legacy_compression_methods must be exactly [0]")

        # cipher suite: server preference
        self.cipher_suite = next((c for c in self.cipher_suites if c in ch["cipher_suites"]), None)
        if self.cipher_suite is None:
            self._problem("handshake_failure", "no common cipher suite")
            self.cipher_suite = self.cipher_suites[0]

        # informational extensions
        if EXT_SERVER_NAME in exts:
            self.client_server_name = _parse_ext(parse_server_name, exts[EXT_SERVER_NAME], "server_name")
        if EXT_ALPN in exts:
            self.client_alpn = _parse_ext(parse_alpn, exts[EXT_ALPN], "alpn")
        self.client_transport_parameters = exts.get(EXT_QUIC_TRANSPORT_PARAMETERS)
        if self.alpn is not None and (self.client_alpn is None or self.alpn not in self.client_alpn):
            self._problem("no_application_protocol", "configured ALPN not offered by the client")

        # PSK (4.2.9 / 4.2.11)
        self.psk_offered, self.psk, self.binder_ok = None, None, None
        if EXT_PSK_KEY_EXCHANGE_MODES in exts:
            self.psk_modes = _parse_ext(
                parse_psk_key_exchange_modes, exts[EXT_PSK_KEY_EXCHANGE_MODES], "psk_key_exchange_modes"
            )
        if EXT_EARLY_DATA in exts:
            _parse_ext(parse_early_data, exts[EXT_EARLY_DATA], "early_data")
            self.client_offers_early_data = True
        if EXT_PRE_SHARED_KEY in exts:
            if ch["extensions"][-1][0] != EXT_PRE_SHARED_KEY:
                raise HandshakeError("illegal_parameter", "pre_shared_key is not the last extension")
            if EXT_PSK_KEY_EXCHANGE_MODES not in exts:
                raise HandshakeError("missing_extension", "pre_shared_key without psk_key_exchange_modes")
            identities, binders = _parse_ext(parse_pre_shared_key, exts[EXT_PRE_SHARED_KEY], "pre_shared_key")
            if len(identities) != len(binders):
                raise HandshakeError("illegal_parameter", "identities/binders count mismatch")
            self.psk_offered = (identities, binders)
            if self.psk_lookup is not None and PSK_DHE_KE in self.psk_modes:
                psk = self.psk_lookup(identities[0][0])
                if psk is not None:
                    self.psk = bytes(psk)
                    truncated = ch_bytes[: len(ch_bytes) - binders_length(binders)]
                    expected = compute_binder(self.cipher_suite, self.psk, truncated)
                    self.binder_ok = hmac.compare_digest(expected, binders[0])
        elif self.client_offers_early_data:
            self._problem("illegal_parameter", "early_data without pre_shared_key")

        # signature scheme for our certificate key
        if EXT_SIGNATURE_ALGORITHMS in exts:
            self.client_signature_algorithms = _parse_ext(
                parse_signature_algorithms, exts[EXT_SIGNATURE_ALGORITHMS], "signature_algorithms"
            )
        elif self.psk is None:
            self._problem("missing_extension", "signature_algorithms")
        self.signature_algorithm = choose_signature_algorithm(self.private_key, self.client_signature_algorithms)
        if self.signature_algorithm is None:
            if self.psk is None:
                self._problem("handshake_failure", "no common signature scheme")
            own = signature_algorithms_for_key(self.private_key)
            self.signature_algorithm = own[0] if own else None

        # key exchange
        if EXT_SUPPORTED_GROUPS not in exts or EXT_KEY_SHARE not in exts:
            raise HandshakeError("missing_extension", "supported_groups / key_share")
        client_groups = _parse_ext(parse_supported_groups, exts[EXT_SUPPORTED_GROUPS], "supported_groups")
        shares = _parse_ext(parse_key_share, exts[EXT_KEY_SHARE], "key_share")
        share_groups = [g for g, _ in shares]
        if len(set(share_groups)) != len(share_groups):
            self._problem("illegal_parameter", "duplicate group in key_share")
        if any(g not in client_groups for g in share_groups):
            self._problem("illegal_parameter", "key_share for a group not in supported_groups")
        self.group = next((g for g in self.groups if g in share_groups), None)
        if self.group is None:
            raise HandshakeError("handshake_failure", "no usable key share (HelloRetryRequest not implemented)")
        peer_share = next(k for g, k in shares if g == self.group)
        self.server_random = bytes(self.rng(32))
        private, public = generate_key_share(self.group, self.rng)
        self.key_share = (self.group, public)
        self.shared_secret = compute_shared_secret(self.group, private, peer_share)

    # ---- server flight -------------------------------------------------

    def server_hello(
        self,
        select_psk: bool = False,
        *,
        cipher_suite: int | None = None,
        legacy_session_id_echo: bytes | None = None,
        random: bytes | None = None,
        selected_identity: int = 0,
        version: int = TLS_VERSION_1_3,
        extra_extensions=(),
    ) -> bytes:
        if self.client_hello is None:
            raise RuntimeError("receive_client_hello() first")
        if cipher_suite is not None:
            self.cipher_suite = cipher_suite
        psk = None
        if select_psk:
            if self.psk is None:
                raise HandshakeError("internal_error", "select_psk but no PSK offered/known")
            if not self.binder_ok and self.strict:
                raise HandshakeError("decrypt_error", "PSK binder does not verify")
            psk = self.psk
        self.psk_selected = bool(select_psk)
        self.ks = KeySchedule(self.cipher_suite, psk)
        self.sent = []
        self.ks.update(self.client_hello_bytes)
        if psk is not None:
            self.client_early_secret = self.ks.client_early_traffic_secret()

        extensions = [
            (EXT_SUPPORTED_VERSIONS, build_supported_versions(version, server=True)),
            (EXT_KEY_SHARE, build_key_share(self.key_share, server=True)),
        ]
        if select_psk:
            extensions.append((EXT_PRE_SHARED_KEY, build_pre_shared_key(selected=selected_identity)))
        extensions.extend(extra_extensions)
        sh = encode_message(
            {
                "type": HT_SERVER_HELLO,
                "legacy_version": TLS_VERSION_1_2,
                "random": self.server_random if random is None else random,
                "legacy_session_id_echo": (
                    self.client_hello["legacy_session_id"] if legacy_session_id_echo is None else legacy_session_id_echo
                ),
                "cipher_suite": self.cipher_suite,
                "compression_method": 0,
                "extensions": extensions,
            }
        )
        self._emit(sh)
        self.ks.set_shared_secret(self.shared_secret)
        self.client_hs_secret = self.ks.client_handshake_traffic_secret()
        self.server_hs_secret = self.ks.server_handshake_traffic_secret()
        return sh

    _DEFAULT = object()

    def encrypted_extensions(self, extra_extensions=(), *, alpn=_DEFAULT, early_data: bool = False) -> bytes:
        alpn = self.alpn if alpn is RefServer._DEFAULT else alpn
        extensions = []
        if alpn is not None:
            extensions.append((EXT_ALPN, build_alpn([alpn])))
        if self.transport_parameters is not None:
            extensions.append((EXT_QUIC_TRANSPORT_PARAMETERS, bytes(self.transport_parameters)))
        if early_data:
            extensions.append((EXT_EARLY_DATA, build_early_data()))
        extensions.extend(extra_extensions)
        return self._emit(encode_message({"type": HT_ENCRYPTED_EXTENSIONS, "extensions": extensions}))

    def certificate_request(
        self, signature_algorithms=DEFAULT_SIGNATURE_ALGORITHMS, request_context: bytes = b"", extra_extensions=()
    ) -> bytes:
        extensions = [(EXT_SIGNATURE_ALGORITHMS, build_signature_algorithms(signature_algorithms))]
        extensions.extend(extra_extensions)
        return self._emit(
            encode_message(
                {"type": HT_CERTIFICATE_REQUEST, "request_context": request_context, "extensions": extensions}
            )
        )

    def certificate(self, chain=None, request_context: bytes = b"") -> bytes:
        chain = self.cert_chain_der if chain is None else chain
        return self._emit(
            encode_message(
                {
                    "type": HT_CERTIFICATE,
                    "request_context": request_context,
                    "certificates": [(bytes(der), []) for der in chain],
                }
            )
        )

    def certificate_verify(self, private_key=None, algorithm: int | None = None) -> bytes:
        key = self.private_key if private_key is None else private_key
        if algorithm is None:
            algorithm = choose_signature_algorithm(key, self.client_signature_algorithms)
            if algorithm is None:
                own = signature_algorithms_for_key(key)
                if not own:
                    raise ValueError("no signature scheme for this key")
                algorithm = own[0]
        to_sign = KeySchedule.certificate_verify_input(self._need_ks().transcript_hash(), server=True)
        signature = sign(key, algorithm, to_sign)
        return self._emit(
            encode_message({"type": HT_CERTIFICATE_VERIFY, "algorithm": algorithm, "signature": signature})
        )

    def finished(self, verify_data: bytes | None = None) -> bytes:
        """Server Finished over the transcript so far.  On the first call the
        master secret and both application traffic secrets are derived (over
        ClientHello..this Finished)."""
        ks = self._need_ks()
        if self.server_hs_secret is None:
            raise RuntimeError("server_hello() first")
        if verify_data is None:
            verify_data = ks.finished_verify_data(self.server_hs_secret)
        out = self._emit(encode_message({"type": HT_FINISHED, "verify_data": verify_data}))
        if ks.master_secret is None:
            ks.derive_master()
            self.client_app_secret = ks.client_application_traffic_secret()
            self.server_app_secret = ks.server_application_traffic_secret()
        return out

    def default_flight(self, select_psk: bool = False, request_client_certificate: bool = False) -> tuple[bytes, bytes]:
        """(ServerHello bytes for the Initial space, EE..Finished for the Handshake space)."""
        sh = self.server_hello(select_psk=select_psk)
        out = self.encrypted_extensions()
        if not select_psk:
            if request_client_certificate:
                out += self.certificate_request()
            out += self.certificate() + self.certificate_verify()
        return sh, out + self.finished()

    # ---- client's second flight -----------------------------------------

    def expected_client_finished(self) -> bytes:
        """verify_data the client must send given the transcript so far."""
        return self._need_ks().finished_verify_data(self.client_hs_secret)

    def check_client_finished(self, fin_bytes: bytes) -> bool:
        ks = self._need_ks()
        expected = self.expected_client_finished()
        try:
            msg = decode_message(fin_bytes)
        except ParseError:
            self.client_finished_ok = False
            return False
        ok = msg["type"] == HT_FINISHED and hmac.compare_digest(msg["verify_data"], expected)
        self.client_finished_ok = ok
        if ok:
            self.received.append(msg)
            ks.update(bytes(fin_bytes))
            if ks.master_secret is not None and self.resumption_master is None:
                self.resumption_master = ks.resumption_master_secret()
        return ok

    def receive_client_flight(self, data: bytes) -> list[dict]:
        """Process [Certificate, [CertificateVerify]], Finished from the client.
        Raises HandshakeError on any authentication failure."""
        out = []
        try:
            chunks = split_messages(data)
        except ParseError as exc:
            raise HandshakeError("decode_error", str(exc))
        for chunk in chunks:
            msg = _decode(chunk, "client flight")
            ks = self._need_ks()
            if msg["type"] == HT_CERTIFICATE and self.client_certificates is None:
                self.client_certificates = msg["certificates"]
                ks.update(chunk)
                self.received.append(msg)
            elif msg["type"] == HT_CERTIFICATE_VERIFY and self.client_certificates and self.client_cert_verify_ok is None:
                public_key = certificate_public_key(self.client_certificates[0][0])
                signed = KeySchedule.certificate_verify_input(ks.transcript_hash(), server=False)
                self.client_cert_verify_ok = msg[
                    "algorithm"
                ] in TLS13_CERTIFICATE_VERIFY_ALGORITHMS and verify(
                    public_key, msg["algorithm"], msg["signature"], signed
                )
                if not self.client_cert_verify_ok:
                    raise HandshakeError("decrypt_error", "client CertificateVerify does not verify")
                ks.update(chunk)
                self.received.append(msg)
            elif msg["type"] == HT_FINISHED:
                if self.client_certificates and self.client_cert_verify_ok is None:
                    raise HandshakeError("unexpected_message", "Finished before CertificateVerify")
                if not self.check_client_finished(chunk):
                    raise HandshakeError("decrypt_error", "client Finished does not verify")
            else:
                raise HandshakeError("unexpected_message", message_name(msg["type"]))
            out.append(msg)
        return out

    # ---- post-handshake --------------------------------------------------

    def new_session_ticket(
        self,
        ticket: bytes | None = None,
        *,
        ticket_nonce: bytes = b"",
        ticket_lifetime: int = 86400,
        ticket_age_add: int | None = None,
        max_early_data_size: int | None = None,
        extra_extensions=(),
    ) -> bytes:
        """Build a NewSessionTicket (NOT part of the handshake transcript) and
        remember ``issued_tickets[ticket] = resumption PSK``.

        If the client Finished has not been processed yet (0.5-RTT ticket) the
        resumption master secret is computed over the *expected* client
        Finished, which is only right when no client certificate was requested.
        """
        ks = self._need_ks()
        if ks.master_secret is None:
            raise RuntimeError("finished() first")
        if self.resumption_master is not None:
            res_master = self.resumption_master
        else:
            predicted = ks.copy()
            predicted.update(encode_message({"type": HT_FINISHED, "verify_data": self.expected_client_finished()}))
            res_master = predicted.resumption_master_secret()
        if ticket is None:
            ticket = bytes(self.rng(32))
        if ticket_age_add is None:
            ticket_age_add = int.from_bytes(self.rng(4), "big")
        extensions = []
        if max_early_data_size is not None:
            extensions.append((EXT_EARLY_DATA, build_early_data(max_early_data_size)))
        extensions.extend(extra_extensions)
        self.issued_tickets[bytes(ticket)] = ks.resumption_psk(res_master, ticket_nonce)
        return encode_message(
            {
                "type": HT_NEW_SESSION_TICKET,
                "ticket_lifetime": ticket_lifetime,
                "ticket_age_add": ticket_age_add,
                "ticket_nonce": ticket_nonce,
                "ticket": ticket,
                "extensions": extensions,
            }
        )


class RefClient(_Peer):
    """A scriptable TLS 1.3 client for QUIC (no record layer).

    Typical use::

        c = RefClient(server_name="localhost", alpn=[b"h3"], transport_parameters=tp)
        ch = c.client_hello()
        c.receive_server_flight(server_initial_crypto)      # ServerHello
        c.receive_server_flight(server_handshake_crypto)    # EE .. Finished
        out = c.client_flight()                             # [Certificate, CertificateVerify,] Finished

    ``psk`` is a dict ``{"identity": bytes, "key": bytes, "cipher_suite": int,
    "obfuscated_age": int, "external": bool}`` (see ``ticket_psk``).
    Certificate *chain* validation is out of scope: only the CertificateVerify
    signature (with the leaf key) and the Finished MAC are checked.
    """

    (
        EXPECT_SERVER_HELLO,
        EXPECT_ENCRYPTED_EXTENSIONS,
        EXPECT_CERTIFICATE_REQUEST_OR_CERTIFICATE,
        EXPECT_CERTIFICATE,
        EXPECT_CERTIFICATE_VERIFY,
        EXPECT_FINISHED,
        CONNECTED,
    ) = range(7)

    def __init__(
        self,
        *,
        server_name: str | None = None,
        alpn: list[bytes] | None = None,
        transport_parameters: bytes | None = b"",
        cipher_suites=(TLS_AES_128_GCM_SHA256, TLS_AES_256_GCM_SHA384, TLS_CHACHA20_POLY1305_SHA256),
        groups=(GROUP_X25519, GROUP_SECP256R1),
        rng=os.urandom,
        client_cert_chain_der: list[bytes] | None = None,
        client_private_key=None,
        signature_algorithms=DEFAULT_SIGNATURE_ALGORITHMS,
        key_share_groups=None,
        psk: dict | None = None,
        psk_modes=(PSK_DHE_KE,),
        early_data: bool = False,
        legacy_session_id: bytes = b"",
        extra_extensions=(),
    ):
        self._init_peer(rng)
        self.server_name = server_name
        self.alpn = alpn
        self.transport_parameters = transport_parameters
        self.cipher_suites = tuple(cipher_suites)
        self.groups = tuple(groups)
        self.key_share_groups = tuple(groups if key_share_groups is None else key_share_groups)
        self.client_cert_chain_der = client_cert_chain_der
        self.client_private_key = client_private_key
        self.signature_algorithms = tuple(signature_algorithms)
        self.psk = psk
        self.psk_modes = tuple(psk_modes) if psk_modes is not None else None
        self.early_data = early_data
        self.legacy_session_id = legacy_session_id
        self.extra_extensions = tuple(extra_extensions)

        self.state = RefClient.EXPECT_SERVER_HELLO
        self.client_random: bytes | None = None
        self.client_hello_bytes: bytes | None = None
        self.client_hello_msg: dict | None = None
        self._private_keys: dict[int, object] = {}
        self.server_hello: dict | None = None
        self.cipher_suite: int | None = None
        self.group: int | None = None
        self.psk_selected = False
        self.encrypted_extensions: dict | None = None
        self.alpn_negotiated: bytes | None = None
        self.server_transport_parameters: bytes | None = None
        self.early_data_accepted = False
        self.certificate_request: dict | None = None
        self.server_certificates: list | None = None
        self.server_signature_algorithm: int | None = None
        self.new_session_tickets: list[dict] = []
        self._buffer = b""

    # ---- ClientHello -----------------------------------------------------

    def client_hello(self) -> bytes:
        self.client_random = bytes(self.rng(32))
        shares = []
        for group in self.key_share_groups:
            private, public = generate_key_share(group, self.rng)
            self._private_keys[group] = private
            shares.append((group, public))
        extensions = []
        if self.server_name is not None:
            extensions.append((EXT_SERVER_NAME, build_server_name(self.server_name)))
        extensions.append((EXT_SUPPORTED_VERSIONS, build_supported_versions([TLS_VERSION_1_3])))
        extensions.append((EXT_SUPPORTED_GROUPS, build_supported_groups(self.groups)))
        extensions.append((EXT_SIGNATURE_ALGORITHMS, build_signature_algorithms(self.signature_algorithms)))
        extensions.append((EXT_KEY_SHARE, build_key_share(shares)))
        if self.alpn is not None:
            extensions.append((EXT_ALPN, build_alpn(self.alpn)))
        if self.psk_modes is not None:
            extensions.append((EXT_PSK_KEY_EXCHANGE_MODES, build_psk_key_exchange_modes(self.psk_modes)))
        if self.transport_parameters is not None:
            extensions.append((EXT_QUIC_TRANSPORT_PARAMETERS, bytes(self.transport_parameters)))
        extensions.extend(self.extra_extensions)
        if self.psk is not None and self.early_data:
            extensions.append((EXT_EARLY_DATA, build_early_data()))

        msg = {
            "type": HT_CLIENT_HELLO,
            "legacy_version": TLS_VERSION_1_2,
            "random": self.client_random,
            "legacy_session_id": self.legacy_session_id,
            "cipher_suites": list(self.cipher_suites),
            "compression_methods": [0],
            "extensions": extensions,
        }
        if self.psk is not None:
            # pre_shared_key MUST be last; binder covers the ClientHello up to
            # (excluding) the binders vector (4.2.11.2)
            suite = self.psk["cipher_suite"]
            identity = (self.psk["identity"], self.psk.get("obfuscated_age", 0))
            placeholder = [bytes(_hash_len(CIPHER_SUITE_HASH[suite]))]
            extensions.append((EXT_PRE_SHARED_KEY, build_pre_shared_key([identity], placeholder)))
            draft = encode_message(msg)
            truncated = draft[: len(draft) - binders_length(placeholder)]
            binder = compute_binder(suite, self.psk["key"], truncated, external=self.psk.get("external", False))
            extensions[-1] = (EXT_PRE_SHARED_KEY, build_pre_shared_key([identity], [binder]))
        self.client_hello_msg = msg
        self.client_hello_bytes = encode_message(msg)
        if self.psk is not None:
            early = KeySchedule(self.psk["cipher_suite"], self.psk["key"])
            early.update(self.client_hello_bytes)
            self.client_early_secret = early.client_early_traffic_secret()
        self.state = RefClient.EXPECT_SERVER_HELLO
        return self.client_hello_bytes

    # ---- server flight -----------------------------------------------------

    def receive_server_flight(self, data: bytes) -> list[dict]:
        """Feed CRYPTO bytes from the server (may be called repeatedly, e.g.
        once for the Initial and once for the Handshake space; incomplete
        trailing messages are buffered).  Returns the messages processed by
        this call; raises HandshakeError on any failure."""
        self._buffer += bytes(data)
        out = []
        while len(self._buffer) >= 4:
            n = 4 + int.from_bytes(self._buffer[1:4], "big")
            if len(self._buffer) < n:
                break
            chunk, self._buffer = self._buffer[:n], self._buffer[n:]
            msg = _decode(chunk, "server flight")
            self._handle(msg, chunk)
            self.received.append(msg)
            out.append(msg)
        return out

    def _unexpected(self, msg: dict):
        raise HandshakeError("unexpected_message", f"{message_name(msg['type'])} in state {self.state}")

    def _handle(self, msg: dict, chunk: bytes) -> None:
        t = msg["type"]
        st = self.state
        if st == RefClient.EXPECT_SERVER_HELLO:
            if t != HT_SERVER_HELLO:
                self._unexpected(msg)
            self._on_server_hello(msg, chunk)
        elif st == RefClient.EXPECT_ENCRYPTED_EXTENSIONS:
            if t != HT_ENCRYPTED_EXTENSIONS:
                self._unexpected(msg)
            self._on_encrypted_extensions(msg, chunk)
        elif st == RefClient.EXPECT_CERTIFICATE_REQUEST_OR_CERTIFICATE and t == HT_CERTIFICATE_REQUEST:
            self._on_certificate_request(msg, chunk)
        elif st in (RefClient.EXPECT_CERTIFICATE_REQUEST_OR_CERTIFICATE, RefClient.EXPECT_CERTIFICATE):
            if t != HT_CERTIFICATE:
                self._unexpected(msg)
            self._on_certificate(msg, chunk)
        elif st == RefClient.EXPECT_CERTIFICATE_VERIFY:
            if t != HT_CERTIFICATE_VERIFY:
                self._unexpected(msg)
            self._on_certificate_verify(msg, chunk)
        elif st == RefClient.EXPECT_FINISHED:
            if t != HT_FINISHED:
                self._unexpected(msg)
            self._on_finished(msg, chunk)
        else:  # CONNECTED: post-handshake messages are not in the transcript
            if t != HT_NEW_SESSION_TICKET:
                self._unexpected(msg)
            dup = duplicate_extensions(msg["extensions"])
            if dup:
                raise HandshakeError("illegal_parameter", f"duplicate extensions {dup} in NewSessionTicket")
            self.new_session_tickets.append(msg)

    def _on_server_hello(self, sh: dict, chunk: bytes) -> None:
        if self.client_hello_bytes is None:
            raise RuntimeError("client_hello() first")
        if sh["random"] == HRR_RANDOM:
            raise HandshakeError("unexpected_message", "HelloRetryRequest is not implemented by RefClient")
        if sh["legacy_version"] != TLS_VERSION_1_2:
            raise HandshakeError("illegal_parameter", "ServerHello.legacy_version")
        if sh["legacy_session_id_echo"] != self.legacy_session_id:
            raise HandshakeError("illegal_parameter", "legacy_session_id_echo does not match")
        if sh["cipher_suite"] not in self.cipher_suites or sh["cipher_suite"] not in CIPHER_SUITE_HASH:
            raise HandshakeError("illegal_parameter", "cipher suite not offered")
        if sh["compression_method"] != 0:
            raise HandshakeError("illegal_parameter", "compression method")
        exts = _ext_dict(sh["extensions"], "ServerHello")
        for ext_type in exts:
            if ext_type not in (EXT_SUPPORTED_VERSIONS, EXT_KEY_SHARE, EXT_PRE_SHARED_KEY):
                raise HandshakeError("unsupported_extension", f"extension {ext_type} in ServerHello")
        if EXT_SUPPORTED_VERSIONS not in exts:
            raise HandshakeError("protocol_version", "ServerHello without supported_versions")
        version = _parse_ext(parse_supported_versions, exts[EXT_SUPPORTED_VERSIONS], "supported_versions", server=True)
        if version != TLS_VERSION_1_3:
            raise HandshakeError("illegal_parameter", f"selected version {version:#06x}")
        # TLS 1.2 downgrade sentinel (4.1.3) cannot legitimately appear here
        if sh["random"][24:] in (b"DOWNGRD\x01", b"DOWNGRD\x00"):
            raise HandshakeError("illegal_parameter", "downgrade sentinel in ServerHello.random")
        self.cipher_suite = sh["cipher_suite"]

        psk = None
        if EXT_PRE_SHARED_KEY in exts:
            index = _parse_ext(parse_pre_shared_key, exts[EXT_PRE_SHARED_KEY], "pre_shared_key", server=True)
            if self.psk is None or index != 0:
                raise HandshakeError("illegal_parameter", "selected_identity out of range")
            if CIPHER_SUITE_HASH[self.cipher_suite] != CIPHER_SUITE_HASH[self.psk["cipher_suite"]]:
                raise HandshakeError("illegal_parameter", "cipher suite hash incompatible with the PSK")
            psk = self.psk["key"]
            self.psk_selected = True

        if EXT_KEY_SHARE not in exts:
            # psk_ke is never offered by default, so a key share is required
            if not (self.psk_selected and self.psk_modes and PSK_KE in self.psk_modes):
                raise HandshakeError("missing_extension", "ServerHello without key_share")
            shared = None
        else:
            group, key_exchange = _parse_ext(parse_key_share, exts[EXT_KEY_SHARE], "key_share", server=True)
            if group not in self._private_keys:
                raise HandshakeError("illegal_parameter", f"key_share group {group} was not offered")
            self.group = group
            shared = compute_shared_secret(group, self._private_keys[group], key_exchange)

        self.server_hello = sh
        self.ks = KeySchedule(self.cipher_suite, psk)
        self.sent = []
        self.ks.update(self.client_hello_bytes)
        self.ks.update(chunk)
        self.ks.set_shared_secret(shared)
        self.client_hs_secret = self.ks.client_handshake_traffic_secret()
        self.server_hs_secret = self.ks.server_handshake_traffic_secret()
        self.state = RefClient.EXPECT_ENCRYPTED_EXTENSIONS

    def _on_encrypted_extensions(self, ee: dict, chunk: bytes) -> None:
        exts = _ext_dict(ee["extensions"], "EncryptedExtensions")
        offered = {t for t, _ in self.client_hello_msg["extensions"]}
        for ext_type in exts:
            if ext_type not in offered:
                raise HandshakeError("unsupported_extension", f"unsolicited extension {ext_type}")
            if ext_type in (
                EXT_SUPPORTED_VERSIONS,
                EXT_KEY_SHARE,
                EXT_PRE_SHARED_KEY,
                EXT_PSK_KEY_EXCHANGE_MODES,
                EXT_SIGNATURE_ALGORITHMS,
                EXT_COOKIE,
            ):
                raise HandshakeError("illegal_parameter", f"extension {ext_type} not allowed in EncryptedExtensions")
        if EXT_ALPN in exts:
            protocols = _parse_ext(parse_alpn, exts[EXT_ALPN], "alpn")
            if len(protocols) != 1 or protocols[0] not in (self.alpn or ()):
                raise HandshakeError("illegal_parameter", "ALPN selection")
            self.alpn_negotiated = protocols[0]
        if EXT_EARLY_DATA in exts:
            _parse_ext(parse_early_data, exts[EXT_EARLY_DATA], "early_data")
            if not self.psk_selected:
                raise HandshakeError("illegal_parameter", "early_data accepted without PSK")
            self.early_data_accepted = True
        self.server_transport_parameters = exts.get(EXT_QUIC_TRANSPORT_PARAMETERS)
        self.encrypted_extensions = ee
        self.ks.update(chunk)
        self.state = (
            RefClient.EXPECT_FINISHED if self.psk_selected else RefClient.EXPECT_CERTIFICATE_REQUEST_OR_CERTIFICATE
        )

    def _on_certificate_request(self, cr: dict, chunk: bytes) -> None:
        if cr["request_context"] != b"":
            raise HandshakeError("illegal_parameter", "non-empty certificate_request_context in handshake")
        exts = _ext_dict(cr["extensions"], "CertificateRequest")
        if EXT_SIGNATURE_ALGORITHMS not in exts:
            raise HandshakeError("missing_extension", "CertificateRequest without signature_algorithms")
        _parse_ext(parse_signature_algorithms, exts[EXT_SIGNATURE_ALGORITHMS], "signature_algorithms")
        self.certificate_request = cr
        self.ks.update(chunk)
        self.state = RefClient.EXPECT_CERTIFICATE

    def _on_certificate(self, cert: dict, chunk: bytes) -> None:
        if cert["request_context"] != b"":
            raise HandshakeError("illegal_parameter", "server Certificate with request context")
        if not cert["certificates"]:
            raise HandshakeError("decode_error", "empty server certificate list")
        certificate_public_key(cert["certificates"][0][0])  # must parse
        self.server_certificates = cert["certificates"]
        self.ks.update(chunk)
        self.state = RefClient.EXPECT_CERTIFICATE_VERIFY

    def _on_certificate_verify(self, cv: dict, chunk: bytes) -> None:
        alg = cv["algorithm"]
        if alg not in self.signature_algorithms or alg not in TLS13_CERTIFICATE_VERIFY_ALGORITHMS:
            raise HandshakeError("illegal_parameter", f"CertificateVerify scheme {alg:#06x} not acceptable")
        public_key = certificate_public_key(self.server_certificates[0][0])
        signed = KeySchedule.certificate_verify_input(self.ks.transcript_hash(), server=True)
        if not verify(public_key, alg, cv["signature"], signed):
            raise HandshakeError("decrypt_error", "server CertificateVerify does not verify")
        self.server_signature_algorithm = alg
        self.ks.update(chunk)
        self.state = RefClient.EXPECT_FINISHED

    def _on_finished(self, fin: dict, chunk: bytes) -> None:
        expected = self.ks.finished_verify_data(self.server_hs_secret)
        if not hmac.compare_digest(expected, fin["verify_data"]):
            raise HandshakeError("decrypt_error", "server Finished does not verify")
        self.ks.update(chunk)
        self.ks.derive_master()
        self.client_app_secret = self.ks.client_application_traffic_secret()
        self.server_app_secret = self.ks.server_application_traffic_secret()
        self.state = RefClient.CONNECTED

    # ---- client's second flight (scriptable) ----------------------------------

    def certificate(self, chain=None, request_context: bytes | None = None) -> bytes:
        if chain is None:
            chain = self.client_cert_chain_der or []
        if request_context is None:
            request_context = self.certificate_request["request_context"] if self.certificate_request else b""
        return self._emit(
            encode_message(
                {
                    "type": HT_CERTIFICATE,
                    "request_context": request_context,
                    "certificates": [(bytes(der), []) for der in chain],
                }
            )
        )

    def certificate_verify(self, private_key=None, algorithm: int | None = None) -> bytes:
        key = self.client_private_key if private_key is None else private_key
        if key is None:
            raise ValueError("no client private key")
        if algorithm is None:
            offered = ()
            if self.certificate_request is not None:
                body = find_extension(self.certificate_request["extensions"], EXT_SIGNATURE_ALGORITHMS)
                offered = parse_signature_algorithms(body)
            algorithm = choose_signature_algorithm(key, offered)
            if algorithm is None:
                own = signature_algorithms_for_key(key)
                if not own:
                    raise ValueError("no signature scheme for this key")
                algorithm = own[0]
        to_sign = KeySchedule.certificate_verify_input(self._need_ks().transcript_hash(), server=False)
        return self._emit(
            encode_message(
                {"type": HT_CERTIFICATE_VERIFY, "algorithm": algorithm, "signature": sign(key, algorithm, to_sign)}
            )
        )

    def finished(self, verify_data: bytes | None = None) -> bytes:
        """Client Finished over the transcript so far; the first call fixes the
        resumption master secret (over ClientHello..this Finished)."""
        ks = self._need_ks()
        if verify_data is None:
            verify_data = ks.finished_verify_data(self.client_hs_secret)
        out = self._emit(encode_message({"type": HT_FINISHED, "verify_data": verify_data}))
        if ks.master_secret is not None and self.resumption_master is None:
            self.resumption_master = ks.resumption_master_secret()
        return out

    def client_flight(self) -> bytes:
        """The honest second flight: [Certificate, [CertificateVerify],] Finished."""
        if self.state != RefClient.CONNECTED:
            raise HandshakeError("internal_error", "server flight not complete")
        out = b""
        if self.certificate_request is not None:
            have = bool(self.client_cert_chain_der) and self.client_private_key is not None
            out += self.certificate(self.client_cert_chain_der if have else [])
            if have:
                out += self.certificate_verify()
        return out + self.finished()

    # ---- tickets ------------------------------------------------------------

    def ticket_psk(self, nst: dict, obfuscated_age: int | None = None, age_ms: int = 0) -> dict:
        """Turn a received NewSessionTicket into the ``psk=`` argument of a new
        RefClient (requires finished() to have been sent)."""
        if self.resumption_master is None:
            raise RuntimeError("finished() first")
        if obfuscated_age is None:
            obfuscated_age = (age_ms + nst["ticket_age_add"]) % (1 << 32)
        return {
            "identity": nst["ticket"],
            "key": self.ks.resumption_psk(self.resumption_master, nst["ticket_nonce"]),
            "cipher_suite": self.cipher_suite,
            "obfuscated_age": obfuscated_age,
            "external": False,
        }
