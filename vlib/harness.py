"""Runner shared by every property check.

A property module (props/Cxx.py) provides

    PROPERTY, LEVEL, RULE, ASSUMPTIONS, FLAVOUR (optional, default "plain")
    plan(tier, seed)           -> list of (task_name, kwargs)
    run_task(ctx, name, **kw)  -> None        (executed in a worker process)
    replay(ctx, case)          -> None        (re-run one saved case, call ctx.violation on failure)
    finalize(cov, results)     -> None        (optional; add keys to coverage)

Exit status: 0 held on everything explored, 1 violation (prints
``VIOLATION property=<id> replay=<path>``), 2 harness error.
"""
import collections
import hashlib
import importlib
import json
import multiprocessing
import os
import sys
import time
import traceback

from . import build, findings

VERIF = build.VERIF
OUT = os.environ.get("VERIF_OUT") or os.path.join(VERIF, "out")


class Violation(AssertionError):
    def __init__(self, sig, text, case):
        super().__init__("%s: %s" % (sig, text))
        self.sig = sig
        self.text = text
        self.case = case


class HarnessError(Exception):
    pass


def h64(obj):
    if not isinstance(obj, (bytes, bytearray)):
        obj = repr(obj).encode()
    return int.from_bytes(hashlib.blake2b(obj, digest_size=8).digest(), "big")


def derive_seed(seed, *parts):
    return h64(("seed", seed) + parts) % (2**31 - 1) + 1


def jsonable(x):
    if isinstance(x, (bytes, bytearray)):
        return {"hex": bytes(x).hex()}
    if isinstance(x, dict):
        return {str(k): jsonable(v) for k, v in x.items()}
    if isinstance(x, (list, tuple, set, frozenset)):
        return [jsonable(v) for v in x]
    if isinstance(x, (int, float, str, bool)) or x is None:
        if isinstance(x, float) and (x != x or x in (float("inf"), float("-inf"))):
            return repr(x)
        return x
    return repr(x)


def unjson(x):
    if isinstance(x, dict):
        if set(x) == {"hex"}:
            return bytes.fromhex(x["hex"])
        return {k: unjson(v) for k, v in x.items()}
    if isinstance(x, list):
        return [unjson(v) for v in x]
    return x


class Ctx:
    """Per-task collector living in the worker process."""

    MAX_SAMPLES = 4

    def __init__(self, prop, tier, seed, task, known):
        self.prop = prop
        self.tier = tier
        self.seed = seed
        self.task = task
        self.known = known
        self.evaluations = 0
        self.nontrivial = set()
        self.classes = collections.Counter()
        self.samples = []
        self.violations = []
        self.excluded = collections.Counter()
        self.extra = {}
        self._last = None
        self.collect_all = os.environ.get("VERIF_COLLECT") == "1"

    # --- counting -----------------------------------------------------------
    def case(self, desc=None, nontrivial=False, classes=()):
        self.evaluations += 1
        if nontrivial:
            self.nontrivial.add(h64(desc if desc is not None else self.evaluations))
        for c in classes:
            self.classes[c] += 1

    def cls(self, *names):
        for c in names:
            self.classes[c] += 1

    SAMPLE_AT = (3, 25, 150, 600)

    def want_sample(self):
        """True when the harness would like the current case written out as a sample."""
        n = len(self.samples)
        return n < self.MAX_SAMPLES and self.evaluations >= self.SAMPLE_AT[n]

    def sample(self, obj, every=1):
        if len(self.samples) < self.MAX_SAMPLES:
            self.samples.append(jsonable(obj))

    # --- violations ---------------------------------------------------------
    def is_known(self, sig):
        return self.known.lookup(self.prop, sig) is not None

    def violation(self, sig, text, case, soft=False):
        """Report a violation.  Returns normally when the signature is a listed
        known finding (the caller continues / routes around); otherwise records
        it and raises Violation so that Hypothesis can shrink."""
        sig = sig.replace(" ", "_")
        if self.is_known(sig):
            self.excluded[sig] += 1
            return True
        v = {"signature": sig, "text": text, "case": jsonable(case), "task": self.task}
        self._last = v
        if soft or self.collect_all:
            if not any(x["signature"] == sig for x in self.violations):
                self.violations.append(v)
            return False
        raise Violation(sig, text, case)

    def result(self):
        return {
            "task": self.task,
            "evaluations": self.evaluations,
            "nontrivial": self.nontrivial,
            "classes": self.classes,
            "samples": self.samples,
            "violations": self.violations,
            "excluded": self.excluded,
            "extra": self.extra,
        }


def run_hypothesis(ctx, test_body, strategy, max_examples, shard=0, stateful=None):
    """Run ``test_body(ctx, value)`` over ``strategy`` with the pinned settings.
    A Violation raised inside is shrunk by Hypothesis; the shrunk case is kept."""
    import hypothesis
    from hypothesis import HealthCheck, Phase, given, settings

    phases = [Phase.explicit, Phase.generate, Phase.target]
    if os.environ.get("VERIF_NOSHRINK") != "1":
        phases.append(Phase.shrink)
    st = settings(
        max_examples=max_examples,
        deadline=None,
        database=None,
        derandomize=False,
        report_multiple_bugs=False,
        phases=phases,
        suppress_health_check=list(HealthCheck),
        print_blob=False,
    )
    sd = derive_seed(ctx.seed, ctx.task, shard)
    if stateful is not None:
        from hypothesis.stateful import run_state_machine_as_test

        st = settings(st, stateful_step_count=stateful.get("steps", 50))
        machine = hypothesis.seed(sd)(stateful["machine"])
        try:
            run_state_machine_as_test(machine, settings=st)
        except Violation:
            ctx.violations.append(ctx._last)
        return

    @hypothesis.seed(sd)
    @settings(st)
    @given(strategy)
    def t(value):
        test_body(ctx, value)

    try:
        t()
    except Violation:
        ctx.violations.append(ctx._last)


# ------------------------------------------------------------------------------


def _worker(args):
    prop, tier, seed, name, kwargs, replay_case = args
    t0 = time.time()
    import logging

    logging.disable(logging.CRITICAL)
    try:
        mod = importlib.import_module("props." + prop)
        known = findings.Findings.load()
        ctx = Ctx(prop, tier, seed, name, known)
        if replay_case is not None:
            try:
                mod.replay(ctx, unjson(replay_case["case"]))
            except Violation:
                ctx.violations.append(ctx._last)
        else:
            try:
                mod.run_task(ctx, name, **kwargs)
            except Violation:
                ctx.violations.append(ctx._last)
        r = ctx.result()
        r["wall"] = time.time() - t0
        return r
    except BaseException:
        return {"task": name, "error": traceback.format_exc(), "wall": time.time() - t0}


def main(argv=None):
    import argparse

    ap = argparse.ArgumentParser()
    ap.add_argument("prop")
    ap.add_argument("--tier", default=os.environ.get("VERIF_TIER") or "quick")
    ap.add_argument("--seed", type=int, default=None)
    ap.add_argument("--replay", default=None)
    ap.add_argument("--jobs", type=int, default=int(os.environ.get("VERIF_JOBS", "16")))
    ap.add_argument("--only", default=None, help="run only tasks whose name contains this")
    a = ap.parse_args(argv)
    if a.seed is None:
        try:
            a.seed = int(os.environ.get("VERIF_SEED", "1"))
        except ValueError:
            a.seed = h64(os.environ.get("VERIF_SEED")) % 2**31
    if a.tier not in ("quick", "thorough"):
        a.tier = "quick"
    prop = a.prop
    t0 = time.time()
    os.environ.setdefault("PYTHONHASHSEED", "0")
    sys.path.insert(0, VERIF)
    try:
        mod = importlib.import_module("props." + prop)
    except ImportError:
        print("harness error: no such property module %s\n%s" % (prop, traceback.format_exc()))
        return 2
    flavour = getattr(mod, "FLAVOUR", "plain")
    try:
        build.activate(flavour)
    except build.BuildError as e:
        print("harness error: %s" % e)
        return 2

    known = findings.Findings.load()
    tasks = []
    if a.replay:
        with open(a.replay) as f:
            rc = json.load(f)
        tasks.append((prop, a.tier, a.seed, "replay:" + os.path.basename(a.replay), {}, rc))
    else:
        cdir = os.path.join(VERIF, "corpus", prop)
        if os.path.isdir(cdir) and hasattr(mod, "replay"):
            for fn in sorted(os.listdir(cdir)):
                if fn.endswith(".json"):
                    with open(os.path.join(cdir, fn)) as f:
                        tasks.append((prop, a.tier, a.seed, "corpus:" + fn, {}, json.load(f)))
        try:
            for name, kw in mod.plan(a.tier, a.seed):
                if a.only and a.only not in name:
                    continue
                tasks.append((prop, a.tier, a.seed, name, kw, None))
        except Exception:
            print("harness error in plan():\n" + traceback.format_exc())
            return 2

    budget = float(os.environ.get("VERIF_TASK_TIMEOUT", "1500" if a.tier == "quick" else "14400"))
    results = []
    errors = []
    ctxm = multiprocessing.get_context("fork")
    if getattr(mod, "INPROCESS", False) or a.jobs <= 1:
        for t in tasks:
            results.append(_worker(t))
    else:
        with ctxm.Pool(min(a.jobs, max(1, len(tasks))), maxtasksperchild=getattr(mod, "MAXTASKS", None)) as pool:
            pend = [pool.apply_async(_worker, (t,)) for t in tasks]
            for t, p in zip(tasks, pend):
                try:
                    results.append(p.get(timeout=max(1.0, budget - (time.time() - t0))))
                except multiprocessing.TimeoutError:
                    errors.append("task %s exceeded the wall budget of %.0fs (inconclusive)" % (t[3], budget))
                    pool.terminate()
                    break
                except Exception:
                    errors.append("task %s: worker died:\n%s" % (t[3], traceback.format_exc()))
    for r in results:
        if "error" in r:
            errors.append("task %s:\n%s" % (r["task"], r["error"]))
    good = [r for r in results if "error" not in r]

    # merge
    evaluations = sum(r["evaluations"] for r in good)
    nontrivial = set()
    classes = collections.Counter()
    excluded = collections.Counter()
    samples = []
    violations = []
    per_task = {}
    for r in good:
        nontrivial |= r["nontrivial"]
        classes.update(r["classes"])
        excluded.update(r["excluded"])
        violations.extend(v for v in r["violations"] if v)
        per_task[r["task"]] = {"evaluations": r["evaluations"], "wall_s": round(r["wall"], 2)}
        if r["extra"]:
            per_task[r["task"]].update(jsonable(r["extra"]))
    # spread samples over tasks
    pools = [list(r["samples"]) for r in good if r["samples"]]
    i = 0
    while pools and len(samples) < 6:
        p = pools[i % len(pools)]
        if p:
            samples.append(p.pop(0))
        if not any(pools):
            break
        i += 1

    cov = {
        "evaluations": evaluations,
        "distinct_nontrivial": len(nontrivial),
        "rule": mod.RULE,
        "samples": samples,
        "classes": dict(sorted(classes.items(), key=lambda kv: (-kv[1], kv[0]))[:80]),
        "excluded_known": dict(excluded),
        "tasks": per_task,
    }
    if hasattr(mod, "finalize"):
        try:
            mod.finalize(cov, good)
        except Exception:
            errors.append("finalize():\n" + traceback.format_exc())

    # known findings: one line per listed finding of this property
    for sig, text in known.for_property(prop):
        print("KNOWN-FINDING: property=%s %s [signature=%s, hit %d times in this run]" % (prop, text, sig, excluded.get(sig, 0)))

    # de-duplicate violations by signature, smallest case first
    uniq = {}
    for v in violations:
        k = v["signature"]
        if k not in uniq or len(json.dumps(v["case"])) < len(json.dumps(uniq[k]["case"])):
            uniq[k] = v
    os.makedirs(os.path.join(OUT, "replays", prop), exist_ok=True)
    vlines = []
    for k, v in sorted(uniq.items()):
        path = os.path.join(OUT, "replays", prop, "%s-%016x.json" % (prop, h64(k)))
        with open(path, "w") as f:
            json.dump({"property": prop, **v}, f, indent=1)
        vlines.append((path, v))

    ev = {
        "property_id": prop,
        "tier": a.tier,
        "seed": a.seed,
        "level": mod.LEVEL,
        "coverage": cov,
        "assumptions": list(getattr(mod, "ASSUMPTIONS", [])),
        "wall_s": round(time.time() - t0, 2),
        "violations": len(uniq),
    }
    if errors:
        ev["coverage"]["harness_errors"] = [e[-600:] for e in errors]
    if not a.replay:
        evdir = os.environ.get("VERIF_EVIDENCE_DIR") or os.path.join(VERIF, "evidence")
        os.makedirs(evdir, exist_ok=True)
        tmp = os.path.join(evdir, prop + ".json.tmp")
        with open(tmp, "w") as f:
            json.dump(ev, f, indent=1, sort_keys=False)
            f.write("\n")
        os.replace(tmp, os.path.join(evdir, prop + ".json"))

    print(
        "%s tier=%s seed=%d evaluations=%d distinct_nontrivial=%d excluded_known=%d wall=%.1fs"
        % (prop, a.tier, a.seed, evaluations, len(nontrivial), sum(excluded.values()), time.time() - t0)
    )
    for path, v in vlines:
        print("  violation %s: %s" % (v["signature"], v["text"][:300]))
        print("VIOLATION property=%s replay=%s" % (prop, path))
    for e in errors:
        print("harness error: " + e)
    if vlines:
        return 1
    if errors:
        return 2
    return 0


def exc_signature(exc, prefix=""):
    """(type, innermost frame inside the aioquic package) - no line numbers."""
    tb = traceback.extract_tb(exc.__traceback__)
    fn = "?"
    for fr in tb:
        if "/aioquic/" in fr.filename:
            fn = os.path.basename(fr.filename).replace(".py", "") + "." + fr.name
    return "%s%s-in-%s" % (prefix, type(exc).__name__, fn)
