"""TLS-level bench: aioquic tls.Context objects wired the way QuicConnection
wires them (handshake messages in, per-epoch output buffers out, traffic-key
callback), talking to the scriptable reference peers of vlib/reftls.py.
"""
import ssl

from . import endpoints as E
from . import reftls as L

TP = b"\x01\x02\x43\xe8\x04\x04\x80\x10\x00\x00"  # a small opaque transport-parameters blob


def der(cert):
    from cryptography.hazmat.primitives import serialization

    return cert.public_bytes(serialization.Encoding.DER)


def leaf(name="ed25519"):
    cert, key, chain = E.LEAVES[name]
    certs = [E.load_cert(cert)[0]] + [E.load_cert(c)[0] for c in chain]
    return certs, E.load_key(key)


class Ctx:
    """an aioquic tls.Context with its buffers and key trace"""

    def __init__(self, is_client, leaf_name="ed25519", alpn=None, request_client_cert=False, client_cert=False, verify=True, session_ticket=None, server_name="localhost", cipher_suites=None, ticket_store=None, ca="ca.pem"):
        import aioquic.tls as T
        from aioquic.buffer import Buffer

        self.T = T
        self.Buffer = Buffer
        kw = dict(is_client=is_client, alpn_protocols=alpn, cipher_suites=cipher_suites)
        if is_client:
            kw.update(cadata=E.ca_data(ca), server_name=server_name)
            if not verify:
                kw["verify_mode"] = ssl.CERT_NONE
            elif verify == "optional":
                kw["verify_mode"] = ssl.CERT_OPTIONAL  # for a client: the same as CERT_REQUIRED (a server always presents a certificate)
        else:
            kw["max_early_data"] = 0xFFFFFFFF
        self.ctx = T.Context(**kw)
        self.ctx.handshake_extensions = [(0x39, TP)]
        if not is_client or client_cert:
            certs, key = leaf(leaf_name if not is_client else "ed25519") if not client_cert else ([E.load_cert("client.pem")[0]], E.load_key("client.key"))
            self.ctx.certificate = certs[0]
            self.ctx.certificate_chain = certs[1:]
            self.ctx.certificate_private_key = key
        if request_client_cert:
            self.ctx._request_client_certificate = True
        if session_ticket is not None:
            self.ctx.session_ticket = session_ticket
        self.keys = []  # (direction name, epoch name)
        self.tickets = []
        self.ctx.update_traffic_key_cb = lambda d, e, c, s: self.keys.append((d.name, e.name))
        self.ctx.new_session_ticket_cb = self.tickets.append
        if ticket_store is not None:
            self.ctx.get_session_ticket_cb = ticket_store.get
            self.ctx.new_session_ticket_cb = lambda t: ticket_store.__setitem__(t.ticket, t)
        self.new_bufs()

    def new_bufs(self):
        T = self.T
        self.bufs = {T.Epoch.INITIAL: self.Buffer(capacity=16384), T.Epoch.HANDSHAKE: self.Buffer(capacity=16384), T.Epoch.ONE_RTT: self.Buffer(capacity=16384)}

    def feed(self, data):
        """-> dict epoch name -> bytes produced"""
        self.new_bufs()
        self.ctx.handle_message(data, self.bufs)
        return {e.name: b.data for e, b in self.bufs.items()}

    @property
    def state(self):
        return self.ctx.state.name

    def done(self):
        return self.ctx.state.name in ("CLIENT_POST_HANDSHAKE", "SERVER_POST_HANDSHAKE")


def ref_server(leaf_name="ed25519", alpn=None, rng=None, psk_lookup=None, **kw):
    certs, key = leaf(leaf_name)
    return L.RefServer([der(c) for c in certs], key, alpn=alpn, transport_parameters=TP, rng=rng or E.os.urandom, psk_lookup=psk_lookup, **kw)


def ref_client(alpn=None, rng=None, client_cert=False, **kw):
    extra = {}
    if client_cert:
        extra = dict(client_cert_chain_der=[der(E.load_cert("client.pem")[0])], client_private_key=E.load_key("client.key"))
    return L.RefClient(server_name="localhost", alpn=alpn, transport_parameters=TP, rng=rng or E.os.urandom, **extra, **kw)
