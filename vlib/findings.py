"""known_findings.txt: committed, line oriented, never written at run time.

    known: property=<id> signature=<sig> <what fails>
    fixed: property=<id> <commit> <what failed>

``known`` entries are keyed by (property, signature) so that a different
violation of the same property is still reported.  ``fixed`` entries are
history and suppress nothing.
"""
import os
import re

from . import build

PATH = os.environ.get("VERIF_KNOWN_FINDINGS") or os.path.join(build.VERIF, "known_findings.txt")  # (the override is a development aid)
_RX = re.compile(r"^known:\s+property=(\S+)\s+signature=(\S+)\s+(.*)$")


class Findings:
    def __init__(self, entries):
        self.entries = entries  # (prop, sig) -> text

    @classmethod
    def load(cls, path=PATH):
        entries = {}
        if os.path.exists(path):
            with open(path) as f:
                for line in f:
                    m = _RX.match(line.strip())
                    if m:
                        entries[(m.group(1), m.group(2))] = m.group(3)
        return cls(entries)

    def lookup(self, prop, sig):
        return self.entries.get((prop, sig))

    def for_property(self, prop):
        return [(s, t) for (p, s), t in sorted(self.entries.items()) if p == prop]
