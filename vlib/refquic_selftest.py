#!/venv/bin/python
"""Self-test for vlib/refquic.py.

    /venv/bin/python -B /verif/vlib/refquic_selftest.py

Prints "refquic selftest ok (N checks)" and exits 0 when every anchor passes,
otherwise prints the failed checks and exits 1.

Sections 1-9 use ONLY refquic + the literal constants of vectors.py.
Section 10 is the one place that imports aioquic (from /repo/src) in order to
prove that refquic and aioquic interoperate; a disagreement there is reported
as a failure, it is NOT a reason to bend refquic.

Divergences between aioquic and the RFCs that are already understood are listed
in KNOWN_AIOQUIC_DIVERGENCES: they are printed as NOTE lines and do not fail the
run (pass --strict-aioquic to turn them into failures).
"""

from __future__ import annotations

import os
import random
import sys

HERE = os.path.dirname(os.path.abspath(__file__))
sys.path.insert(0, HERE)

import refquic as R          # noqa: E402
import vectors as V          # noqa: E402

STRICT_AIOQUIC = "--strict-aioquic" in sys.argv[1:]
KNOWN_AIOQUIC_DIVERGENCES = {
    # crypto.py next_key_phase(): label "quic ku" used for QUIC v2 as well (RFC 9369 3.3.2: "quicv2 ku")
    "v2-key-update-label",
    # _crypto.c HeaderProtection_remove(): Py_BuildValue("y#i", ..., uint32_t pn_truncated) returns a NEGATIVE
    # truncated packet number for 4 byte encodings >= 0x80000000; decoding then fails once expected >= 2**32
    "hp-remove-signed-pn32",
}

_checks = 0
_failures: list[str] = []
_notes: list[str] = []


def check(cond: bool, what: str) -> bool:
    global _checks
    _checks += 1
    if not cond:
        _failures.append(what)
    return bool(cond)


def eq(got, want, what: str) -> bool:
    ok = got == want
    if not ok:
        def show(x):
            if isinstance(x, (bytes, bytearray)):
                h = bytes(x).hex()
                return h if len(h) <= 96 else h[:96] + "...(%d bytes)" % len(x)
            r = repr(x)
            return r if len(r) <= 200 else r[:200] + "..."
        what = "%s: got %s, want %s" % (what, show(got), show(want))
    return check(ok, what)


def raises(exc, fn, what: str) -> bool:
    try:
        fn()
    except exc:
        return check(True, what)
    except Exception as e:  # wrong exception type
        return check(False, "%s: raised %s(%s) instead of %s" % (what, type(e).__name__, e, exc.__name__))
    return check(False, "%s: did not raise %s" % (what, exc.__name__))


def divergence(tag: str, cond: bool, what: str) -> None:
    """A cross-check that is expected to disagree because of a known aioquic defect."""
    global _checks
    _checks += 1
    if cond:
        _notes.append("NOTE %s: aioquic now AGREES with refquic (%s) - remove it from "
                      "KNOWN_AIOQUIC_DIVERGENCES" % (tag, what))
        return
    if tag in KNOWN_AIOQUIC_DIVERGENCES and not STRICT_AIOQUIC:
        _notes.append("NOTE known aioquic divergence [%s]: %s" % (tag, what))
    else:
        _failures.append("aioquic divergence [%s]: %s" % (tag, what))


# ---------------------------------------------------------------------------
def t_varints() -> None:
    for enc, val in V.VARINT_EXAMPLES:
        eq(R.dec_varint(enc), (val, len(enc)), "A.1 decode %s" % enc.hex())
        eq(R.enc_varint_n(val, len(enc)), enc, "A.1 encode_n %d" % val)
    eq(R.enc_varint(37), bytes.fromhex("25"), "minimal 37")
    eq(R.enc_varint(15293), bytes.fromhex("7bbd"), "minimal 15293")
    eq(R.enc_varint(494878333), bytes.fromhex("9d7f3e7d"), "minimal 494878333")
    eq(R.enc_varint(151288809941952652), bytes.fromhex("c2197c5eff14e88c"), "minimal 8 byte")
    for v, n in ((0, 1), (63, 1), (64, 2), (16383, 2), (16384, 4), (2**30 - 1, 4), (2**30, 8),
                 (2**62 - 1, 8)):
        eq(R.varint_size(v), n, "varint_size(%d)" % v)
        eq(len(R.enc_varint(v)), n, "len enc_varint(%d)" % v)
        eq(R.dec_varint(R.enc_varint(v)), (v, n), "roundtrip %d" % v)
        for m in (1, 2, 4, 8):
            if m >= n:
                eq(R.dec_varint(b"\xaa" + R.enc_varint_n(v, m), 1), (v, m + 1), "forced %d/%d" % (v, m))
            else:
                raises(ValueError, lambda v=v, m=m: R.enc_varint_n(v, m), "enc_varint_n(%d,%d) too small" % (v, m))
    raises(ValueError, lambda: R.enc_varint(-1), "enc_varint(-1)")
    raises(ValueError, lambda: R.enc_varint(2**62), "enc_varint(2**62)")
    raises(ValueError, lambda: R.enc_varint_n(1, 3), "enc_varint_n bad size")
    raises(R.ParseError, lambda: R.dec_varint(b""), "dec_varint empty")
    raises(R.ParseError, lambda: R.dec_varint(b"\x01", 1), "dec_varint at end")
    for enc, _ in V.VARINT_EXAMPLES:
        for cut in range(len(enc)):
            raises(R.ParseError, lambda e=enc[:cut]: R.dec_varint(e), "dec_varint truncated %s" % enc[:cut].hex())
    rnd = random.Random(1)
    ok = True
    for _ in range(2000):
        v = rnd.getrandbits(rnd.choice((3, 6, 7, 14, 15, 30, 31, 62)))
        ok &= R.dec_varint(R.enc_varint(v)) == (v, R.varint_size(v))
    check(ok, "random varint roundtrips")


# ---------------------------------------------------------------------------
def t_packet_numbers() -> None:
    (args, want) = V.PN_DECODE_EXAMPLE
    eq(R.decode_pn(*args), want, "A.3 example")
    eq(R.decode_pn_bruteforce(*args), want, "A.3 example (bruteforce)")
    for (pn, la), n in V.PN_ENCODE_EXAMPLES:
        eq(R.encode_pn_len(pn, la), n, "17.1 example encode_pn_len(%x,%x)" % (pn, la))
    eq(R.encode_pn_len(0, None), 1, "encode_pn_len first packet")
    eq(R.encode_pn_len(127, None), 1, "encode_pn_len 128 unacked -> 1 (A.2 pseudo-code)")
    eq(R.encode_pn_len(127, None, strict=True), 2, "encode_pn_len 128 unacked -> 2 (17.1 wording)")
    eq(R.encode_pn_len(128, None), 2, "encode_pn_len 129 unacked")
    eq(R.encode_pn_len(2**31 + 5, 5), 4, "encode_pn_len 2**31 unacked still fits 4 bytes (A.2 pseudo-code)")
    eq(R.encode_pn_len(2**31 + 5, 5, strict=True), 5, "encode_pn_len 2**31 unacked needs 5 with the 17.1 wording")
    eq(R.encode_pn_len(2**31 + 6, 5), 5, "encode_pn_len reports > 4 when impossible")
    raises(ValueError, lambda: R.encode_pn_len(5, 5), "encode_pn_len pn == largest_acked")

    # spot values that follow from the definition (window of 256 centred on expected)
    eq([R.decode_pn(i, 8, 0) for i in range(256)], list(range(256)), "decode expected=0")
    eq(R.decode_pn(0, 8, 128), 256, "decode (0,8,128) tie -> upper")
    eq([R.decode_pn(i, 8, 128) for i in range(1, 256)], list(range(1, 256)), "decode expected=128")
    eq(R.decode_pn(1, 8, 129), 257, "decode (1,8,129)")
    eq([R.decode_pn(i, 8, 256) for i in range(128)], [256 + i for i in range(128)], "decode expected=256 low")
    eq(R.decode_pn(128, 8, 256), 384, "decode (128,8,256) tie -> upper")
    eq([R.decode_pn(i, 8, 256) for i in range(129, 256)], list(range(129, 256)), "decode expected=256 high")
    top = 2**62 - 1
    eq(R.decode_pn(0xFF, 8, top), top, "decode top of number space")
    eq(R.decode_pn(0x00, 8, top), top - 255, "decode cannot wrap above 2**62-1")

    # decode_pn vs bruteforce on a grid
    expecteds = [0, 1, 2, 126, 127, 128, 129, 130, 254, 255, 256, 257, 383, 384, 385, 511, 512,
                 2**16 - 1, 2**16, 2**24, 2**32 - 129, 2**32 - 128, 2**32 - 1, 2**32, 2**32 + 1,
                 2**32 + 127, 2**32 + 128, 2**32 + 129]
    expecteds += list(range(2**62 - 300, 2**62))
    bad = []
    n = 0
    for e in expecteds:
        for t in range(256):
            n += 1
            a, b = R.decode_pn(t, 8, e), R.decode_pn_bruteforce(t, 8, e)
            if a != b or not 0 <= a < 2**62 or a % 256 != t:
                bad.append((t, 8, e, a, b))
    check(not bad, "decode_pn == bruteforce on nbits=8 grid (%d points): first bad %r" % (n, bad[:3]))
    rnd = random.Random(2)
    bad = []
    for _ in range(20000):
        nbits = rnd.choice((8, 16, 24, 32))
        e = rnd.choice((rnd.getrandbits(rnd.randrange(1, 63)),
                        2**62 - 1 - rnd.getrandbits(rnd.randrange(1, 34)),
                        rnd.getrandbits(rnd.randrange(1, 34))))
        e = min(max(e, 0), 2**62 - 1)
        win = 1 << nbits
        t = rnd.choice((rnd.randrange(win), (e + rnd.randrange(-3, 4)) % win,
                        (e + win // 2 + rnd.randrange(-2, 3)) % win))
        a, b = R.decode_pn(t, nbits, e), R.decode_pn_bruteforce(t, nbits, e)
        if a != b or not 0 <= a < 2**62 or a % win != t:
            bad.append((t, nbits, e, a, b))
    check(not bad, "decode_pn == bruteforce random 8/16/24/32 bits: first bad %r" % (bad[:3],))
    # the documented edge: expected == 2**62 makes the RFC pseudo-code leave the number space
    check(R.decode_pn(0, 8, 2**62) >= 2**62 and R.decode_pn_bruteforce(0, 8, 2**62) < 2**62,
          "documented A.3 overflow at expected == 2**62")
    # a sender following A.2 is always decoded correctly by a receiver following A.3
    bad = []
    for _ in range(5000):
        la = rnd.getrandbits(rnd.randrange(1, 40))
        pn = la + 1 + rnd.getrandbits(rnd.randrange(1, 31))
        nb = R.encode_pn_len(pn, la)
        if nb > 4:
            continue
        largest_rx = rnd.randrange(la, pn)      # receiver saw at least `la`
        t = pn & ((1 << (8 * nb)) - 1)
        if R.decode_pn(t, 8 * nb, largest_rx + 1) != pn:
            bad.append((pn, la, nb, largest_rx))
    check(not bad, "A.2 length is always decodable by A.3: %r" % (bad[:3],))


# ---------------------------------------------------------------------------
def t_key_schedule() -> None:
    eq(R.suite_hash(R.AES128), "sha256", "suite_hash aes128")
    eq(R.suite_hash(R.CHACHA), "sha256", "suite_hash chacha")
    eq(R.suite_hash(R.AES256), "sha384", "suite_hash aes256")
    raises(ValueError, lambda: R.suite_hash("des"), "suite_hash unknown")
    # RFC 5869 A.1 (sha256) test case 1
    prk = R.hkdf_extract("sha256", bytes.fromhex("000102030405060708090a0b0c"), bytes([0x0B] * 22))
    eq(prk.hex(), "077709362c2e32df0ddc3f0dc47bba6390b6c73bb50f9c3122ec844ad7c2b3e5", "RFC 5869 A.1 PRK")
    okm = R.hkdf_expand("sha256", prk, bytes.fromhex("f0f1f2f3f4f5f6f7f8f9"), 42)
    eq(okm.hex(), "3cb25f25faacd57a90434f64d0362f2a2d2d0a90cf1a5a4c5db02d56ecc4c5bf34007208d5b887185865",
       "RFC 5869 A.1 OKM")
    eq(R.hkdf_extract("sha256", V.V1_INITIAL_SALT, V.DCID), V.V1_INITIAL_SECRET, "v1 initial_secret")
    for ver, name in ((R.V1, "V1"), (R.V2, "V2")):
        c, s = R.initial_secrets(ver, V.DCID)
        eq(c, getattr(V, name + "_CLIENT_INITIAL_SECRET"), name + " client initial secret")
        eq(s, getattr(V, name + "_SERVER_INITIAL_SECRET"), name + " server initial secret")
        for side, sec in (("CLIENT", c), ("SERVER", s)):
            k = R.derive_keys(R.AES128, ver, sec)
            eq(k.key, getattr(V, "%s_%s_KEY" % (name, side)), "%s %s key" % (name, side))
            eq(k.iv, getattr(V, "%s_%s_IV" % (name, side)), "%s %s iv" % (name, side))
            eq(k.hp, getattr(V, "%s_%s_HP" % (name, side)), "%s %s hp" % (name, side))
            eq((k.suite, k.version, k.secret), (R.AES128, ver, sec), "%s %s Keys fields" % (name, side))
        ck, sk = R.initial_keys(ver, V.DCID)
        eq((ck.key, sk.key), (getattr(V, name + "_CLIENT_KEY"), getattr(V, name + "_SERVER_KEY")),
           name + " initial_keys")
        k = R.derive_keys(R.CHACHA, ver, V.CHACHA20_SECRET)
        eq(k.key, getattr(V, name + "_CHACHA20_KEY"), name + " chacha key")
        eq(k.iv, getattr(V, name + "_CHACHA20_IV"), name + " chacha iv")
        eq(k.hp, getattr(V, name + "_CHACHA20_HP"), name + " chacha hp")
        eq(R.next_secret(R.CHACHA, ver, V.CHACHA20_SECRET), getattr(V, name + "_CHACHA20_KU_SECRET"),
           name + " A.5 ku secret")
        k2 = R.update_keys(k)
        eq(k2.secret, getattr(V, name + "_CHACHA20_KU_SECRET"), name + " update_keys secret")
        eq(k2.hp, k.hp, name + " update_keys keeps hp")
        fresh = R.derive_keys(R.CHACHA, ver, k2.secret)
        eq((k2.key, k2.iv), (fresh.key, fresh.iv), name + " update_keys key/iv from new secret")
        check(k2.key != k.key and k2.iv != k.iv and fresh.hp != k.hp, name + " update_keys changes key/iv")
    k = R.derive_keys(R.AES256, R.V1, bytes(48))
    eq((len(k.key), len(k.iv), len(k.hp)), (32, 12, 32), "aes256 key sizes")
    eq(len(R.next_secret(R.AES256, R.V1, bytes(48))), 48, "aes256 ku secret is 48 bytes")
    raises(ValueError, lambda: R.derive_keys(R.AES128, 0x1234, bytes(32)), "derive_keys unknown version")
    raises(ValueError, lambda: R.initial_secrets(0x1234, V.DCID), "initial_secrets unknown version")


# ---------------------------------------------------------------------------
def t_protection_vectors() -> None:
    for ver, name in ((R.V1, "V1"), (R.V2, "V2")):
        ck, sk = R.initial_keys(ver, V.DCID)
        chk = R.derive_keys(R.CHACHA, ver, V.CHACHA20_SECRET)
        cases = [
            ("client initial", ck, "LONG_CLIENT", 18, 0),
            ("server initial", sk, "LONG_SERVER", 18, 0),
            ("chacha short", chk, "CHACHA20_CLIENT", 1, getattr(V, name + "_CHACHA20_CLIENT_PACKET_NUMBER")),
        ]
        for label, keys, pre, pn_off, expected in cases:
            hdr = getattr(V, "%s_%s_PLAIN_HEADER" % (name, pre))
            pay = getattr(V, "%s_%s_PLAIN_PAYLOAD" % (name, pre))
            pn = getattr(V, "%s_%s_PACKET_NUMBER" % (name, pre))
            enc = getattr(V, "%s_%s_ENCRYPTED_PACKET" % (name, pre))
            eq(R.protect(keys, hdr, pn, pay), enc, "%s protect %s" % (name, label))
            try:
                got = R.unprotect(keys, enc, pn_off, expected)
            except R.AuthError as e:
                got = "AuthError(%s)" % e
            eq(got, (hdr, pn, pay), "%s unprotect %s" % (name, label))
            # any single bit flip must be rejected
            rnd = random.Random(3)
            ok = True
            for _ in range(25):
                i = rnd.randrange(len(enc))
                mod = bytearray(enc)
                mod[i] ^= 1 << rnd.randrange(8)
                try:
                    R.unprotect(keys, bytes(mod), pn_off, expected)
                    ok = False
                except R.AuthError:
                    pass
            check(ok, "%s %s: bit flips give AuthError" % (name, label))
        # wrong direction keys
        raises(R.AuthError, lambda: R.unprotect(sk, getattr(V, name + "_LONG_CLIENT_ENCRYPTED_PACKET"), 18, 0),
               name + " wrong keys -> AuthError")
    ck, _ = R.initial_keys(R.V1, V.DCID)
    for n in range(0, 40):
        pkt = V.V1_LONG_SERVER_ENCRYPTED_PACKET[:n]
        raises(R.AuthError, lambda p=pkt: R.unprotect(ck, p, 18, 0), "unprotect %d byte packet" % n)
    raises(R.AuthError, lambda: R.unprotect(ck, V.V1_LONG_SERVER_ENCRYPTED_PACKET, 0, 0), "unprotect pn_offset 0")
    raises(R.AuthError, lambda: R.unprotect(ck, V.V1_LONG_SERVER_ENCRYPTED_PACKET, 10**6, 0), "unprotect pn_offset huge")
    raises(ValueError, lambda: R.protect(ck, bytes.fromhex("4000"), 1, b"\x01"), "protect: pn mismatch (strict)")
    raises(ValueError, lambda: R.protect(ck, bytes.fromhex("4001"), 1, b"\x01"), "protect: too short to sample")
    eq(len(R.protect(ck, bytes.fromhex("4001"), 1, b"\x01\x00\x00")), 2 + 3 + 16, "protect: minimum size packet")

    # protect/unprotect roundtrip for all suites, pn lengths, header forms and both versions
    rnd = random.Random(4)
    bad = []
    for i in range(600):
        suite = rnd.choice((R.AES128, R.AES256, R.CHACHA))
        ver = rnd.choice((R.V1, R.V2))
        keys = R.derive_keys(suite, ver, rnd.randbytes(48 if suite == R.AES256 else 32))
        pn_len = rnd.randrange(1, 5)
        largest_acked = rnd.getrandbits(rnd.randrange(1, 50))
        pn = largest_acked + 1 + rnd.randrange(0, 1 << (8 * pn_len - 1))
        payload = rnd.randbytes(rnd.randrange(4 - pn_len if pn_len < 4 else 0, 200) or 1)
        if len(payload) + pn_len < 4:
            payload += bytes(4)
        dcid = rnd.randbytes(rnd.randrange(0, 21))
        if rnd.random() < 0.5:
            hdr = R.build_short_header(dcid, pn, pn_len, key_phase=rnd.randrange(2), spin=rnd.randrange(2))
            pn_off = 1 + len(dcid)
        else:
            pt = rnd.choice((R.PT_INITIAL, R.PT_ZERO_RTT, R.PT_HANDSHAKE))
            hdr = R.build_long_header(ver, pt, dcid, rnd.randbytes(rnd.randrange(0, 21)), pn, pn_len,
                                      len(payload), token=rnd.randbytes(rnd.randrange(0, 70)) if pt == R.PT_INITIAL else b"",
                                      length_size=rnd.choice((None, 2, 4)))
            pn_off = len(hdr) - pn_len
        pkt = R.protect(keys, hdr, pn, payload)
        expected = rnd.randrange(largest_acked + 1, pn + 1)
        try:
            got = R.unprotect(keys, pkt, pn_off, expected)
        except R.AuthError as e:
            got = repr(e)
        if got != (hdr, pn, payload) or len(pkt) != len(hdr) + len(payload) + 16:
            bad.append((i, suite, ver, pn_len, got if isinstance(got, str) else "mismatch"))
    check(not bad, "protect/unprotect random roundtrips: %r" % (bad[:3],))


# ---------------------------------------------------------------------------
def t_headers() -> None:
    eq([R.long_type_bits(R.V1, t) for t in (R.PT_INITIAL, R.PT_ZERO_RTT, R.PT_HANDSHAKE, R.PT_RETRY)],
       [0, 1, 2, 3], "v1 long type bits")
    eq([R.long_type_bits(R.V2, t) for t in (R.PT_INITIAL, R.PT_ZERO_RTT, R.PT_HANDSHAKE, R.PT_RETRY)],
       [1, 2, 3, 0], "v2 long type bits")
    raises(ValueError, lambda: R.long_type_bits(R.V1, R.PT_ONE_RTT), "long_type_bits 1rtt")
    for ver, name in ((R.V1, "V1"), (R.V2, "V2")):
        # the plaintext headers published in appendix A.2 / A.3
        h = R.build_long_header(ver, R.PT_INITIAL, V.DCID, b"", 2, 4, 1162)
        eq(h, getattr(V, name + "_LONG_CLIENT_PLAIN_HEADER"), name + " A.2 header from build_long_header")
        pay = getattr(V, name + "_LONG_SERVER_PLAIN_PAYLOAD")
        h = R.build_long_header(ver, R.PT_INITIAL, b"", V.SERVER_SCID, 1, 2, len(pay))
        eq(h, getattr(V, name + "_LONG_SERVER_PLAIN_HEADER"), name + " A.3 header from build_long_header")
        # Retry (A.4)
        want = getattr(V, name + "_RETRY_PACKET")
        eq(R.build_retry(ver, b"", V.SERVER_SCID, V.RETRY_TOKEN, V.DCID, first_byte_unused_bits=0x0F), want,
           name + " A.4 retry packet")
        eq(R.retry_integrity_tag(ver, V.DCID, want[:-16]), want[-16:], name + " A.4 retry tag")
        check(R.verify_retry(want, V.DCID), name + " verify_retry ok")
        check(not R.verify_retry(want, V.DCID[:-1] + b"\x00"), name + " verify_retry wrong odcid")
        check(not R.verify_retry(want[:-1] + b"\x00", V.DCID), name + " verify_retry wrong tag")
        (p,) = R.split_datagram(want, 8)
        eq((p.ptype, p.version, p.dcid, p.scid, p.retry_token, p.retry_tag, p.start, p.end, p.pn_offset),
           (R.PT_RETRY, ver, b"", V.SERVER_SCID, V.RETRY_TOKEN, want[-16:], 0, len(want), None),
           name + " split retry")
        # split the published Initial packets
        enc = getattr(V, name + "_LONG_CLIENT_ENCRYPTED_PACKET")
        ps = R.split_datagram(enc, 8)
        eq(len(ps), 1, name + " split client initial count")
        p = ps[0]
        eq((p.ptype, p.version, p.dcid, p.scid, p.token, p.length, p.pn_offset, p.start, p.end, p.first_byte),
           (R.PT_INITIAL, ver, V.DCID, b"", b"", 1182, 18, 0, 1200, enc[0]), name + " split client initial")
        eq(ps.trailing_padding, 0, name + " no trailing padding")
        # coalesced: server initial + handshake + 1rtt, then the same with trailing zero padding
        _, sk = R.initial_keys(ver, V.DCID)
        hk = R.derive_keys(R.AES128, ver, bytes(range(32)))
        ak = R.derive_keys(R.CHACHA, ver, bytes(range(32, 64)))
        p1 = getattr(V, name + "_LONG_SERVER_ENCRYPTED_PACKET")
        hh = R.build_long_header(ver, R.PT_HANDSHAKE, b"\x11" * 5, V.SERVER_SCID, 7, 1, 30, length_size=2)
        p2 = R.protect(hk, hh, 7, b"\x01" * 30)
        sh = R.build_short_header(b"\x11" * 5, 0x1234, 2, key_phase=1)
        p3 = R.protect(ak, sh, 0x1234, b"\x01" * 9)
        dg = p1 + p2 + p3
        ps = R.split_datagram(dg, 5)
        eq([(q.ptype, q.start, q.end, q.pn_offset) for q in ps],
           [(R.PT_INITIAL, 0, len(p1), 18),
            (R.PT_HANDSHAKE, len(p1), len(p1) + len(p2), len(p1) + len(hh) - 1),
            (R.PT_ONE_RTT, len(p1) + len(p2), len(dg), len(p1) + len(p2) + 6)],
           name + " split coalesced datagram")
        eq((ps[1].dcid, ps[1].scid, ps[1].length, ps[1].token), (b"\x11" * 5, V.SERVER_SCID, 47, None),
           name + " split handshake fields")
        eq((ps[2].dcid, ps[2].scid, ps[2].version, ps[2].length), (b"\x11" * 5, None, None, None),
           name + " split short fields")
        for q, keys, want in ((ps[1], hk, (hh, 7, b"\x01" * 30)), (ps[2], ak, (sh, 0x1234, b"\x01" * 9))):
            eq(R.unprotect(keys, dg[q.start:q.end], q.pn_offset_rel, want[1]), want,
               name + " unprotect via split offsets (%s)" % q.ptype)
        ps = R.split_datagram(p1 + p2 + bytes(100), 5)
        eq((len(ps), ps.trailing_padding), (2, 100), name + " trailing zero padding is not a packet")
        # every strict prefix of the coalesced datagram: either fewer whole packets or ParseError
        ok = True
        for cut in range(len(dg)):
            try:
                got = R.split_datagram(dg[:cut], 5)
                # prefixes that end exactly on a packet boundary, or inside the final short packet, are fine
                if not (cut in (len(p1), len(p1) + len(p2)) or cut > len(p1) + len(p2) + 5):
                    ok = False
                if sum(1 for _ in got) < 1:
                    ok = False
            except R.ParseError:
                pass
            except Exception as e:  # noqa: BLE001
                ok = False
                _failures.append("split_datagram prefix %d raised %r" % (cut, e))
        check(ok, name + " split_datagram on every prefix")
    # version negotiation
    (p,) = R.split_datagram(V.VERSION_NEGOTIATION_PACKET, 8)
    eq((p.ptype, p.version, p.dcid.hex(), p.scid.hex(), p.supported_versions, p.first_byte),
       (R.PT_VN, 0, "9aac5a49ba87a849", "f92f4336fa951ba1", [0x45474716, 1], 0xEA), "split version negotiation")
    eq(R.build_version_negotiation(p.dcid, p.scid, p.supported_versions, first_byte=0xEA),
       V.VERSION_NEGOTIATION_PACKET, "build version negotiation")
    eq(R.build_version_negotiation(b"", b"", [R.V1])[0], 0x80, "VN default first byte")
    raises(R.ParseError, lambda: R.split_datagram(V.VERSION_NEGOTIATION_PACKET[:-1], 8), "VN list not multiple of 4")
    # unknown version long header: only the invariant part is parsed
    unk = bytes([0xC5]) + (0xFACEB00C).to_bytes(4, "big") + bytes([21]) + bytes(21) + bytes([1, 9]) + b"xyz"
    (p,) = R.split_datagram(unk, 8)
    eq((p.ptype, p.version, len(p.dcid), p.scid, p.end, p.pn_offset), (R.PT_UNKNOWN, 0xFACEB00C, 21, b"\x09", len(unk), None),
       "unknown version long header")
    # malformed
    raises(R.ParseError, lambda: R.split_datagram(b"", 8), "empty datagram")
    raises(R.ParseError, lambda: R.split_datagram(bytes(50), 8), "all-zero datagram is not padding")
    raises(R.ParseError, lambda: R.split_datagram(bytes([0x00]) + bytes(range(1, 30)), 8), "short header without fixed bit")
    eq(R.split_datagram(bytes([0x00]) + bytes(range(1, 30)), 8, require_fixed_bit=False)[0].ptype, R.PT_ONE_RTT,
       "short header without fixed bit tolerated on request")
    raises(R.ParseError, lambda: R.split_datagram(bytes([0x40]) + bytes(7), 8), "short header shorter than dcid")
    v1_21 = bytes([0xC0, 0, 0, 0, 1, 21]) + bytes(21) + bytes([0, 0, 1, 0])
    raises(R.ParseError, lambda: R.split_datagram(v1_21, 8), "v1 dcid length 21")
    v1_s21 = bytes([0xC0, 0, 0, 0, 1, 0, 21]) + bytes(21) + bytes([0, 1, 0])
    raises(R.ParseError, lambda: R.split_datagram(v1_s21, 8), "v1 scid length 21")
    raises(R.ParseError, lambda: R.split_datagram(bytes([0x80, 0, 0, 0, 1, 0, 0, 0, 1, 0]), 8), "long header fixed bit zero")
    raises(R.ParseError, lambda: R.split_datagram(bytes([0xC0, 0, 0, 0, 1, 0, 0, 0, 5, 0]), 8), "Length beyond datagram")
    raises(R.ParseError, lambda: R.split_datagram(bytes([0xF0, 0, 0, 0, 1, 0, 0]) + bytes(15), 8), "retry shorter than tag")
    # header builders: field placement
    h = R.build_long_header(R.V1, R.PT_INITIAL, b"\xaa" * 3, b"\xbb" * 2, 0x010203, 3, 10, token=b"tok", reserved=3,
                            length_size=4)
    eq(h.hex(), "ce" "00000001" "03aaaaaa" "02bbbb" "03746f6b" "8000001d" "010203", "build_long_header layout")
    eq(R.build_long_header(R.V1, R.PT_HANDSHAKE, b"", b"", 5, 1, 20, tag_len=0).hex(), "e0" "00000001" "0000" "15" "05",
       "build_long_header sealed length (tag_len=0), minimal Length varint")
    eq(R.build_long_header(R.V2, R.PT_ZERO_RTT, b"", b"", 5, 1, 0).hex(), "e0" "6b3343cf" "0000" "11" "05",
       "build_long_header v2 0rtt")
    raises(ValueError, lambda: R.build_long_header(R.V1, R.PT_HANDSHAKE, b"", b"", 0, 1, 0, token=b"x"), "token on handshake")
    raises(ValueError, lambda: R.build_long_header(R.V1, R.PT_INITIAL, bytes(21), b"", 0, 1, 0), "dcid too long")
    raises(ValueError, lambda: R.build_long_header(R.V1, R.PT_INITIAL, b"", b"", 0, 5, 0), "pn_len 5")
    raises(ValueError, lambda: R.build_long_header(R.V1, R.PT_INITIAL, b"", b"", 0, 1, 100, length_size=1), "Length too big for 1 byte")
    eq(R.build_short_header(b"\xaa\xbb", 0x01020304, 4, key_phase=1, spin=1, reserved=3).hex(), "7f" "aabb" "01020304",
       "build_short_header layout")
    eq(R.build_short_header(b"", 0x1FF, 1).hex(), "40ff", "build_short_header truncates pn")
    # fuzz: only ParseError may escape split_datagram
    rnd = random.Random(5)
    seeds = [V.V1_LONG_SERVER_ENCRYPTED_PACKET, V.V2_RETRY_PACKET, V.VERSION_NEGOTIATION_PACKET, unk]
    ok = True
    for _ in range(4000):
        b = bytearray(rnd.choice(seeds))
        for _ in range(rnd.randrange(1, 4)):
            b[rnd.randrange(min(len(b), 30))] = rnd.randrange(256)
        b = bytes(b[:rnd.randrange(1, len(b) + 1)])
        try:
            for q in R.split_datagram(b, rnd.randrange(0, 21)):
                ok &= 0 <= q.start < q.end <= len(b)
        except R.ParseError:
            pass
        except Exception as e:  # noqa: BLE001
            ok = False
            _failures.append("split_datagram(%s) raised %r" % (b.hex(), e))
            break
    check(ok, "split_datagram fuzz raises only ParseError")


# ---------------------------------------------------------------------------
SAMPLE_FRAMES: list[tuple[str, dict]] = [
    # (wire hex, expected parse) - written by hand from RFC 9000 section 19 / RFC 9221
    ("000000", {"type": 0, "name": "padding", "length": 3}),
    ("01", {"type": 1, "name": "ping"}),
    ("02" "0a" "4064" "00" "03",
     {"type": 2, "name": "ack", "largest": 10, "delay": 100, "first_range": 3, "ranges": [], "ecn": None,
      "acked": [(7, 10)]}),
    ("02" "4064" "05" "02" "02" "01" "03" "00" "00",
     {"type": 2, "name": "ack", "largest": 100, "delay": 5, "first_range": 2, "ranges": [(1, 3), (0, 0)], "ecn": None,
      "acked": [(98, 100), (92, 95), (90, 90)]}),
    ("03" "05" "00" "01" "00" "02" "01" "01" "02" "03",
     {"type": 3, "name": "ack", "largest": 5, "delay": 0, "first_range": 0, "ranges": [(2, 1)], "ecn": (1, 2, 3),
      "acked": [(5, 5), (0, 1)]}),
    ("04" "08" "4100" "7fff",
     {"type": 4, "name": "reset_stream", "stream_id": 8, "error_code": 256, "final_size": 0x3FFF}),
    ("05" "03" "11", {"type": 5, "name": "stop_sending", "stream_id": 3, "error_code": 17}),
    ("06" "4040" "03" "616263", {"type": 6, "name": "crypto", "offset": 64, "data": b"abc"}),
    ("07" "04" "746f6b6e", {"type": 7, "name": "new_token", "token": b"tokn"}),
    ("0a" "04" "02" "6869",
     {"type": 0x0A, "name": "stream", "stream_id": 4, "offset": 0, "data": b"hi", "fin": False, "has_len": True, "has_off": False}),
    ("0b" "04" "00",
     {"type": 0x0B, "name": "stream", "stream_id": 4, "offset": 0, "data": b"", "fin": True, "has_len": True, "has_off": False}),
    ("0e" "04" "4400" "02" "6869",
     {"type": 0x0E, "name": "stream", "stream_id": 4, "offset": 1024, "data": b"hi", "fin": False, "has_len": True, "has_off": True}),
    ("0f" "3f" "05" "01" "7a",
     {"type": 0x0F, "name": "stream", "stream_id": 63, "offset": 5, "data": b"z", "fin": True, "has_len": True, "has_off": True}),
    ("10" "80100000", {"type": 0x10, "name": "max_data", "maximum": 1 << 20}),
    ("11" "04" "4800", {"type": 0x11, "name": "max_stream_data", "stream_id": 4, "maximum": 2048}),
    ("12" "40c8", {"type": 0x12, "name": "max_streams_bidi", "maximum": 200}),
    ("13" "03", {"type": 0x13, "name": "max_streams_uni", "maximum": 3}),
    ("14" "4400", {"type": 0x14, "name": "data_blocked", "maximum": 1024}),
    ("15" "08" "4400", {"type": 0x15, "name": "stream_data_blocked", "stream_id": 8, "maximum": 1024}),
    ("16" "0a", {"type": 0x16, "name": "streams_blocked_bidi", "maximum": 10}),
    ("17" "0b", {"type": 0x17, "name": "streams_blocked_uni", "maximum": 11}),
    ("18" "02" "01" "04" "deadbeef" "000102030405060708090a0b0c0d0e0f",
     {"type": 0x18, "name": "new_connection_id", "seq": 2, "retire_prior_to": 1, "cid": bytes.fromhex("deadbeef"),
      "reset_token": bytes(range(16))}),
    ("19" "07", {"type": 0x19, "name": "retire_connection_id", "seq": 7}),
    ("1a" "0102030405060708", {"type": 0x1A, "name": "path_challenge", "data": bytes(range(1, 9))}),
    ("1b" "0807060504030201", {"type": 0x1B, "name": "path_response", "data": bytes(range(8, 0, -1))}),
    ("1c" "0a" "06" "03" "626164",
     {"type": 0x1C, "name": "connection_close", "error_code": 10, "frame_type": 6, "reason": b"bad"}),
    ("1c" "4128" "00" "00",
     {"type": 0x1C, "name": "connection_close", "error_code": 0x128, "frame_type": 0, "reason": b""}),
    ("1d" "4101" "02" "6f6b", {"type": 0x1D, "name": "application_close", "error_code": 257, "reason": b"ok"}),
    ("1e", {"type": 0x1E, "name": "handshake_done"}),
    ("31" "03" "646767", {"type": 0x31, "name": "datagram", "data": b"dgg", "has_len": True}),
]
# frames that run to the end of the packet (must come last)
SAMPLE_TAIL_FRAMES: list[tuple[str, dict]] = [
    ("08" "04" "6869",
     {"type": 0x08, "name": "stream", "stream_id": 4, "offset": 0, "data": b"hi", "fin": False, "has_len": False, "has_off": False}),
    ("0d" "04" "07" "6869",
     {"type": 0x0D, "name": "stream", "stream_id": 4, "offset": 7, "data": b"hi", "fin": True, "has_len": False, "has_off": True}),
    ("30" "646767", {"type": 0x30, "name": "datagram", "data": b"dgg", "has_len": False}),
]
ALL_FRAME_NAMES = {
    "padding", "ping", "ack", "reset_stream", "stop_sending", "crypto", "new_token", "stream", "max_data",
    "max_stream_data", "max_streams_bidi", "max_streams_uni", "data_blocked", "stream_data_blocked",
    "streams_blocked_bidi", "streams_blocked_uni", "new_connection_id", "retire_connection_id", "path_challenge",
    "path_response", "connection_close", "application_close", "handshake_done", "datagram",
}


def t_frames() -> None:
    eq({d["name"] for _, d in SAMPLE_FRAMES + SAMPLE_TAIL_FRAMES}, ALL_FRAME_NAMES, "samples cover every frame name")
    eq(set(R.FRAME_NAMES.values()), ALL_FRAME_NAMES, "FRAME_NAMES covers every frame name")
    eq(sorted(R.FRAME_NAMES), list(range(0x00, 0x1F)) + [0x30, 0x31], "FRAME_NAMES covers every frame type")
    for hx, want in SAMPLE_FRAMES + SAMPLE_TAIL_FRAMES:
        wire = bytes.fromhex(hx)
        try:
            got = R.parse_frames(wire)
        except Exception as e:  # noqa: BLE001
            got = repr(e)
        eq(got, [want], "parse %s %s" % (want["name"], hx))
        eq(R.encode_frame(want), wire, "encode %s %s" % (want["name"], hx))
        minimal = {k: v for k, v in want.items() if k != "type"}
        eq(R.encode_frame(minimal), wire, "encode without 'type' %s %s" % (want["name"], hx))
    # all together in one payload, each tail variant last
    body = b"".join(bytes.fromhex(h) for h, _ in SAMPLE_FRAMES)
    wants = [d for _, d in SAMPLE_FRAMES]
    for hx, d in SAMPLE_TAIL_FRAMES:
        eq(R.parse_frames(body + bytes.fromhex(hx)), wants + [d], "parse full payload ending in %s" % hx)
        eq(R.encode_frames(wants + [d]), body + bytes.fromhex(hx), "encode full payload ending in %s" % hx)
    raises(ValueError, lambda: R.encode_frames([SAMPLE_TAIL_FRAMES[0][1], {"name": "ping"}]), "length-less frame must be last")
    # defaults of the stream / datagram encoders
    eq(R.encode_frame({"name": "stream", "stream_id": 4, "data": b"x"}).hex(), "0e04000178", "stream defaults has_off/has_len True")
    eq(R.encode_frame({"name": "stream", "stream_id": 4, "data": b"x", "fin": True, "has_off": False}).hex(), "0b040178",
       "stream explicit flags")
    eq(R.encode_frame({"type": 0x09, "stream_id": 4, "data": b"x"}).hex(), "090478", "stream flags from 'type' when only type given")
    eq(R.encode_frame({"type": 0x08, "name": "stream", "stream_id": 4, "data": b"x", "has_len": True}).hex(), "0a040178",
       "stream flag fields win over 'type'")
    raises(ValueError, lambda: R.encode_frame({"name": "stream", "stream_id": 4, "offset": 5, "has_off": False}), "stream offset without has_off")
    eq(R.encode_frame({"name": "datagram", "data": b"x"}).hex(), "310178", "datagram default has_len True")
    eq(R.encode_frame({"type": 0x30, "data": b"x"}).hex(), "3078", "datagram from type 0x30")
    eq(R.encode_frame({"name": "padding", "length": 4}), bytes(4), "padding length")
    raises(ValueError, lambda: R.encode_frame({"name": "bogus"}), "encode unknown name")
    raises(ValueError, lambda: R.encode_frame({"type": 0x99}), "encode unknown type")
    raises(ValueError, lambda: R.encode_frame({"name": "max_data", "maximum": 2**62}), "encode value out of varint range")
    # every strict prefix: fewer frames or ParseError, never anything else
    full = body + bytes.fromhex(SAMPLE_TAIL_FRAMES[1][0])
    ok = True
    for cut in range(len(full)):
        try:
            R.parse_frames(full[:cut])
        except R.ParseError:
            pass
        except Exception as e:  # noqa: BLE001
            ok = False
            _failures.append("parse_frames prefix %d raised %r" % (cut, e))
    check(ok, "parse_frames on every prefix raises only ParseError")
    # each single frame truncated by one byte must be a ParseError
    for hx, want in SAMPLE_FRAMES:
        wire = bytes.fromhex(hx)
        if want["name"] in ("padding", "ping", "handshake_done"):
            continue
        raises(R.ParseError, lambda w=wire[:-1]: R.parse_frames(w), "truncated %s" % want["name"])
    # the RFC 9001 A.2 client Initial payload: CRYPTO frame with the ClientHello, then 917 bytes of PADDING
    fr = R.parse_frames(V.V1_LONG_CLIENT_PLAIN_PAYLOAD)
    eq([(f["name"], f.get("offset"), len(f.get("data", b"")), f.get("length")) for f in fr],
       [("crypto", 0, 241, None), ("padding", None, 0, 917)], "A.2 payload frames")
    eq(fr[0]["data"][:6].hex(), "010000ed0303", "A.2 payload is a ClientHello")
    eq(R.encode_frames(fr), V.V1_LONG_CLIENT_PLAIN_PAYLOAD, "A.2 payload re-encodes")
    fr = R.parse_frames(V.V1_LONG_SERVER_PLAIN_PAYLOAD)
    eq([(f["name"], f.get("acked"), len(f.get("data", b""))) for f in fr],
       [("ack", [(0, 0)], 0), ("crypto", None, 90)], "A.3 payload frames")
    eq(R.encode_frames(fr), V.V1_LONG_SERVER_PLAIN_PAYLOAD, "A.3 payload re-encodes")
    # ack helpers
    f = R.ack_frame_from_ranges([(98, 100), (92, 95), (90, 90)], 5)
    eq((f["largest"], f["first_range"], f["ranges"], f["type"]), (100, 2, [(1, 3), (0, 0)], 2), "ack_frame_from_ranges")
    eq(R.encode_frame(f).hex(), "02406405020201030000", "ack_frame_from_ranges encodes")
    eq(R.ack_frame_from_ranges([(0, 0)], 0, ecn=(1, 2, 3))["type"], 3, "ack with ecn is type 3")
    raises(ValueError, lambda: R.ack_frame_from_ranges([(5, 9), (3, 4)], 0), "adjacent ack ranges rejected")
    raises(ValueError, lambda: R.ack_frame_from_ranges([(3, 4), (6, 9)], 0), "ascending ack ranges rejected")
    raises(ValueError, lambda: R.ack_frame_from_ranges([], 0), "empty ack ranges rejected")
    eq(R.encode_frame({"name": "ack", "largest": 9, "first_range": 1, "ranges": [(0, 2)], "delay": 1}).hex(),
       "020901010100" "02", "ack encoded from raw fields when 'acked' is absent")
    rnd = random.Random(6)
    ok = True
    for _ in range(500):
        hi = rnd.getrandbits(rnd.randrange(1, 62))
        rs = []
        while hi >= 0 and len(rs) < rnd.randrange(1, 12):
            lo = max(0, hi - rnd.getrandbits(rnd.randrange(0, 8)))
            rs.append((lo, hi))
            hi = lo - 2 - rnd.getrandbits(rnd.randrange(0, 10))
        f = R.ack_frame_from_ranges(rs, rnd.getrandbits(20), rnd.choice((None, (1, 2, 3))))
        (g,) = R.parse_frames(R.encode_frame(f))
        ok &= g["acked"] == rs and g == f
    check(ok, "random ack range roundtrips")
    # semantic violations (strict) vs lenient
    for hx, what in (("02" "03" "00" "00" "04", "ack first_range > largest"),
                     ("02" "0a" "00" "01" "02" "07" "00", "ack gap below zero"),
                     ("02" "0a" "00" "01" "02" "03" "04", "ack range length below zero"),
                     ("18" "01" "02" "01" "aa" + "00" * 16, "ncid retire_prior_to > seq"),
                     ("18" "01" "00" "00" + "00" * 16, "ncid cid length 0"),
                     ("18" "01" "00" "15" + "00" * 21 + "00" * 16, "ncid cid length 21"),
                     ("12" "d000000000000001", "max_streams > 2**60"),
                     ("17" "d000000000000001", "streams_blocked > 2**60"),
                     ("0e" "00" "ffffffffffffffff" "01" "00", "stream offset+len > 2**62-1"),
                     ("07" "00", "new_token empty")):
        raises(R.FrameEncodingError, lambda h=hx: R.parse_frames(bytes.fromhex(h)), "strict: " + what)
        try:
            R.parse_frames(bytes.fromhex(hx), strict=False)
            check(True, "lenient: " + what)
        except Exception as e:  # noqa: BLE001
            check(False, "lenient: %s raised %r" % (what, e))
    eq(R.parse_frames(bytes.fromhex("0203000004"), strict=False)[0]["acked"], None, "lenient bad ack has acked None")
    eq(R.parse_frames(bytes.fromhex("12" "d000000000000000"))[0]["maximum"], 1 << 60, "max_streams == 2**60 allowed")
    eq(R.parse_frames(bytes.fromhex("0e" "00" "fffffffffffffffe" "01" "00"))[0]["offset"], 2**62 - 2,
       "stream ending exactly at 2**62-1 allowed")
    raises(R.ParseError, lambda: R.parse_frames(bytes.fromhex("1f")), "unknown frame type 0x1f")
    raises(R.ParseError, lambda: R.parse_frames(bytes.fromhex("32")), "unknown frame type 0x32")
    raises(R.ParseError, lambda: R.parse_frames(bytes.fromhex("4040")), "unknown frame type 0x40 (2 byte)")
    raises(R.ParseError, lambda: R.parse_frames(bytes.fromhex("02" "00" "00" "bfffffff" "00")), "ack range count larger than data")
    f = R.parse_frames(bytes.fromhex("4001" "4000"))
    eq([(x["name"], x.get("type_nonminimal")) for x in f], [("ping", True), ("padding", True)], "non-minimal frame types are flagged")
    eq(R.encode_frames(f).hex(), "40014000", "non-minimal frame types re-encode")
    eq(R.parse_frames(b""), [], "empty payload")
    eq([R.is_ack_eliciting(n) for n in ("ack", "padding", "connection_close", "application_close")], [False] * 4,
       "non ack-eliciting frames")
    check(all(R.is_ack_eliciting(n) for n in ALL_FRAME_NAMES - {"ack", "padding", "connection_close", "application_close"}),
          "ack-eliciting frames")
    raises(ValueError, lambda: R.is_ack_eliciting("bogus"), "is_ack_eliciting unknown name")
    eq([n for n in sorted(ALL_FRAME_NAMES) if R.frame_allowed(n, R.PT_INITIAL)],
       ["ack", "connection_close", "crypto", "padding", "ping"], "frames allowed in Initial (Table 3)")
    eq([n for n in sorted(ALL_FRAME_NAMES) if not R.frame_allowed(n, R.PT_ZERO_RTT)],
       ["ack", "crypto", "handshake_done", "new_token", "path_response"], "frames forbidden in 0-RTT (Table 3)")
    check(all(R.frame_allowed(n, R.PT_ONE_RTT) for n in ALL_FRAME_NAMES), "all frames allowed in 1-RTT")
    # fuzz: random mutations only raise ParseError; successful parses re-encode to the same bytes
    rnd = random.Random(7)
    ok = True
    for _ in range(6000):
        b = bytearray(rnd.choice((full, body, V.V1_LONG_SERVER_PLAIN_PAYLOAD, rnd.randbytes(rnd.randrange(1, 40)))))
        for _ in range(rnd.randrange(0, 4)):
            b[rnd.randrange(len(b))] = rnd.randrange(256)
        b = bytes(b[:rnd.randrange(0, len(b) + 1)])
        try:
            fr = R.parse_frames(b, strict=False)
        except R.ParseError:
            continue
        except Exception as e:  # noqa: BLE001
            ok = False
            _failures.append("parse_frames(%s) raised %r" % (b.hex(), e))
            break
        # re-encoding is canonical (minimal varints), so compare through a second parse
        try:
            again = R.parse_frames(R.encode_frames(
                [dict(f, acked=None) if f["name"] == "ack" and f["acked"] is None else f for f in fr]), strict=False)
        except Exception as e:  # noqa: BLE001
            ok = False
            _failures.append("re-encode of parse_frames(%s) raised %r" % (b.hex(), e))
            break
        if again != fr:
            ok = False
            _failures.append("parse/encode/parse not stable for %s" % b.hex())
            break
    check(ok, "parse_frames fuzz")


# ---------------------------------------------------------------------------
def t_transport_parameters() -> None:
    raw = R.decode_transport_parameters(V.TP_SAMPLE)
    eq([i for i, _ in raw], [1, 2, 3, 4, 5, 6, 8, 10, 11], "tp sample ids in wire order")
    typed = R.tp_decode_typed(raw)
    eq(typed, {
        "max_idle_timeout": 10000,
        "stateless_reset_token": bytes.fromhex("cc2fd6e7d97a53ab5be85b28d75c8008"),
        "max_udp_payload_size": 2020,
        "initial_max_data": 393210,
        "initial_max_stream_data_bidi_local": 65535,
        "initial_max_stream_data_bidi_remote": 65535,
        "initial_max_streams_bidi": 6,
        "ack_delay_exponent": 3,
        "max_ack_delay": 25,
    }, "tp sample typed")
    eq(R.tp_check(typed, from_server=True), [], "tp sample valid from server")
    eq(R.tp_check(typed, from_server=False), ["stateless_reset_token sent by a client"], "tp sample invalid from client")
    eq(R.encode_transport_parameters(raw), V.TP_SAMPLE, "tp raw re-encode is byte exact")
    # the sample uses 4-byte varints for some values, typed re-encode is minimal: compare typed views
    eq(R.tp_decode_typed(R.decode_transport_parameters(R.encode_transport_parameters(typed))), typed,
       "tp typed re-encode (dict, by name)")
    typed = R.tp_decode_typed(R.decode_transport_parameters(V.TP_PREFERRED_ADDRESS))
    pa = {"ipv4": "139.162.123.134", "ipv4_port": 4435, "ipv6": "2400:8902::f03c:91ff:fe69:a454", "ipv6_port": 4435,
          "cid": bytes.fromhex("62c4518d63013f0c287ed3573efa90956037"),
          "reset_token": bytes.fromhex("46b2e02d45480ba6643e5c6e7d48ecb4")}
    eq(typed, {"preferred_address": pa}, "tp preferred_address typed")
    eq(R.encode_transport_parameters([(0x0D, pa)]), V.TP_PREFERRED_ADDRESS, "tp preferred_address encode")
    typed = R.tp_decode_typed(R.decode_transport_parameters(V.TP_VERSION_INFORMATION))
    eq(typed, {"version_information": {"chosen": R.V1, "available": [R.V1, R.V2]}}, "tp version_information typed")
    eq(R.encode_transport_parameters([("version_information", typed["version_information"])]), V.TP_VERSION_INFORMATION,
       "tp version_information encode")
    # ordered emission, all value kinds, forced length size, unknown ids
    enc = R.encode_transport_parameters([
        (0x2AB2, True), ("disable_active_migration", None), (0x20, 65535), (0x0F, b"\x01\x02"), (0x0C, False),
        (0x1B66, b"grease"), (0x00, b"")])
    eq(enc.hex(), "6ab200" "0c00" "2004" "8000ffff" "0f02" "0102" "5b6606" "677265617365" "0000", "tp ordered emission")
    eq(R.tp_decode_typed(R.decode_transport_parameters(enc)),
       {"grease_quic_bit": True, "disable_active_migration": True, "max_datagram_frame_size": 65535,
        "initial_source_connection_id": b"\x01\x02", 0x1B66: b"grease", "original_destination_connection_id": b""},
       "tp typed view of mixed list")
    eq(R.encode_transport_parameters([(1, 5)], length_size=2).hex(), "01400105", "tp forced length size")
    eq(sorted(R.TP_NAMES), [0, 1, 2, 3, 4, 5, 6, 7, 8, 9, 10, 11, 12, 13, 14, 15, 16, 17, 0x20, 0x2AB2], "TP_NAMES ids")
    eq(R.decode_transport_parameters(b""), [], "tp empty")
    for cut in range(1, len(V.TP_SAMPLE)):
        try:
            R.decode_transport_parameters(V.TP_SAMPLE[:cut])
        except R.ParseError:
            pass
        except Exception as e:  # noqa: BLE001
            check(False, "tp truncated at %d raised %r" % (cut, e))
    raises(R.ParseError, lambda: R.decode_transport_parameters(V.TP_SAMPLE[:-1]), "tp truncated value")
    raises(R.ParseError, lambda: R.decode_transport_parameters(bytes.fromhex("01")), "tp missing length")
    raises(R.ParseError, lambda: R.decode_transport_parameters(bytes.fromhex("0140")), "tp truncated length")
    dt = lambda hx, **kw: R.tp_decode_typed(R.decode_transport_parameters(bytes.fromhex(hx)), **kw)  # noqa: E731
    raises(R.ParseError, lambda: dt("0b020a"), "tp integer length mismatch (too long)")
    raises(R.ParseError, lambda: dt("0b014a"), "tp integer length mismatch (too short)")
    raises(R.ParseError, lambda: dt("0b00"), "tp integer empty")
    raises(R.ParseError, lambda: dt("0c0100"), "tp flag with value")
    raises(R.ParseError, lambda: dt("0b010a0b010a"), "tp duplicate")
    eq(dt("0b010a0b010b", allow_duplicates=True), {"max_ack_delay": 11}, "tp duplicate tolerated on request")
    raises(R.ParseError, lambda: dt("11050000000100"), "tp version_information length not 4k")
    raises(R.ParseError, lambda: dt("1100"), "tp version_information empty")
    raises(R.ParseError, lambda: dt("0d03010203"), "tp preferred_address truncated")
    raises(R.ParseError, lambda: R.tp_decode_typed([(0x0D, V.TP_PREFERRED_ADDRESS[2:] + b"\x00")]), "tp preferred_address trailing byte")
    eq(dt("8000ff000100"), {0xFF00: b"\x00"}, "tp unknown id kept raw")
    eq(R.tp_check(dt("110400000000"), True), ["version_information contains version 0"], "tp_check chosen version 0")
    eq(R.tp_check(dt("11080000000100000000"), True), ["version_information contains version 0"], "tp_check available version 0")
    eq(R.tp_check(dt("030244af"), True), ["max_udp_payload_size below 1200"], "tp_check max_udp_payload_size 1199")
    eq(R.tp_check(dt("030244b0"), True), [], "tp_check max_udp_payload_size 1200")
    eq(R.tp_check({"ack_delay_exponent": 21, "max_ack_delay": 1 << 14, "active_connection_id_limit": 1,
                   "initial_max_streams_bidi": (1 << 60) + 1, "stateless_reset_token": b"x"}, True),
       ["stateless_reset_token is not 16 bytes", "ack_delay_exponent above 20", "max_ack_delay of 2**14 or more",
        "active_connection_id_limit below 2", "initial_max_streams_bidi above 2**60"], "tp_check value limits")
    eq(R.tp_check({"ack_delay_exponent": 20, "max_ack_delay": (1 << 14) - 1, "active_connection_id_limit": 2,
                   "initial_max_streams_uni": 1 << 60, "max_udp_payload_size": 1200}, False), [], "tp_check boundary values")
    raises(ValueError, lambda: R.encode_transport_parameters([("no_such_param", 1)]), "tp unknown name")
    raises(ValueError, lambda: R.encode_transport_parameters([(1, {"a": 1})]), "tp dict for integer param")


# ---------------------------------------------------------------------------
def t_keylog() -> None:
    cr = "aa" * 32
    text = ("# SSL/TLS secrets log file, generated by NSS\n"
            "\n"
            "CLIENT_HANDSHAKE_TRAFFIC_SECRET %s %s\n"
            "SERVER_HANDSHAKE_TRAFFIC_SECRET %s %s\r\n"
            "  CLIENT_TRAFFIC_SECRET_0 %s %s  \n" % (cr, "01" * 32, cr, "02" * 32, cr.upper(), "03" * 48))
    d = R.parse_keylog(text)
    key = bytes.fromhex(cr)
    eq(d, {("CLIENT_HANDSHAKE_TRAFFIC_SECRET", key): b"\x01" * 32,
           ("SERVER_HANDSHAKE_TRAFFIC_SECRET", key): b"\x02" * 32,
           ("CLIENT_TRAFFIC_SECRET_0", key): b"\x03" * 48}, "parse_keylog")
    eq(R.parse_keylog(""), {}, "parse_keylog empty")
    raises(R.ParseError, lambda: R.parse_keylog("LABEL aa\n"), "parse_keylog short line")
    raises(R.ParseError, lambda: R.parse_keylog("LABEL zz 00\n"), "parse_keylog bad hex")


# ---------------------------------------------------------------------------
def t_cross_aioquic() -> None:
    sys.path.insert(0, "/repo/src")
    try:
        from aioquic.quic.crypto import CryptoPair
        from aioquic.quic.packet import decode_packet_number
        from aioquic.tls import CipherSuite
    except Exception as e:  # noqa: BLE001
        check(False, "cannot import aioquic for the cross-check: %r" % (e,))
        return

    rnd = random.Random(8)
    mismatches: list[str] = []
    signed_pn_hits: list[int] = []
    n = 0

    def one_direction(ref_keys, aio_sender, aio_receiver, hdr, pn, payload, pn_off, expected, tag):
        nonlocal n
        n += 1
        mine = R.protect(ref_keys, hdr, pn, payload)
        theirs = aio_sender.encrypt_packet(hdr, payload, pn)
        if mine != theirs:
            mismatches.append("%s: protect differs for hdr=%s pn=%d len=%d" % (tag, hdr.hex(), pn, len(payload)))
            return
        try:
            a = aio_receiver.decrypt_packet(mine, pn_off, expected)
            a = (a[0], a[2], a[1])
        except Exception as e:  # noqa: BLE001
            a = "aioquic raised %r" % (e,)
        try:
            b = R.unprotect(ref_keys, theirs, pn_off, expected)
        except R.AuthError as e:
            b = "refquic raised %r" % (e,)
        if (isinstance(a, str) and b == (hdr, pn, payload) and (hdr[0] & 3) == 3
                and pn >= 2**32 and pn & 0x80000000):
            signed_pn_hits.append(pn)        # known divergence "hp-remove-signed-pn32", reported below
        elif a != b or b != (hdr, pn, payload):
            mismatches.append("%s: unprotect differs hdr=%s pn=%d expected=%d aioquic=%s refquic=%s"
                              % (tag, hdr.hex(), pn, expected, str(a)[:80], str(b)[:80]))

    for ver, vname in ((R.V1, "v1"), (R.V2, "v2")):
        for _ in range(150):
            dcid = rnd.randbytes(rnd.randrange(8, 21))
            cli, srv = CryptoPair(), CryptoPair()
            cli.setup_initial(cid=dcid, is_client=True, version=ver)
            srv.setup_initial(cid=dcid, is_client=False, version=ver)
            ck, sk = R.initial_keys(ver, dcid)
            for keys, sender, receiver, who in ((ck, cli, srv, "client"), (sk, srv, cli, "server")):
                pn_len = rnd.randrange(1, 5)
                base = rnd.getrandbits(rnd.randrange(1, 40))
                pn = base + rnd.randrange(1, 1 << (8 * pn_len - 1))
                expected = rnd.randrange(base + 1, pn + 1)
                payload = rnd.randbytes(rnd.randrange(4, 1300))
                hdr = R.build_long_header(ver, rnd.choice((R.PT_INITIAL, R.PT_HANDSHAKE)), rnd.randbytes(rnd.randrange(0, 21)),
                                          rnd.randbytes(rnd.randrange(0, 21)), pn, pn_len, len(payload), length_size=2)
                one_direction(keys, sender, receiver, hdr, pn, payload, len(hdr) - pn_len, expected,
                              "%s initial keys (%s)" % (vname, who))
    check(not mismatches, "aioquic CryptoPair vs refquic, Initial keys v1+v2, %d packets: %s" % (n, mismatches[:3]))

    # 1-RTT style: every cipher suite, short headers
    mismatches.clear()
    n = 0
    suites = ((R.AES128, CipherSuite.AES_128_GCM_SHA256, 32), (R.AES256, CipherSuite.AES_256_GCM_SHA384, 48),
              (R.CHACHA, CipherSuite.CHACHA20_POLY1305_SHA256, 32))
    for ver, vname in ((R.V1, "v1"), (R.V2, "v2")):
        for suite, aio_suite, slen in suites:
            for _ in range(40):
                secret = rnd.randbytes(slen)
                tx, rx = CryptoPair(), CryptoPair()
                tx.send.setup(cipher_suite=aio_suite, secret=secret, version=ver)
                rx.recv.setup(cipher_suite=aio_suite, secret=secret, version=ver)
                keys = R.derive_keys(suite, ver, secret)
                pn_len = rnd.randrange(1, 5)
                base = rnd.getrandbits(rnd.randrange(1, 50))
                pn = base + rnd.randrange(1, 1 << (8 * pn_len - 1))
                dcid = rnd.randbytes(rnd.randrange(0, 21))
                hdr = R.build_short_header(dcid, pn, pn_len, key_phase=0, spin=rnd.randrange(2))
                payload = rnd.randbytes(rnd.randrange(4, 1300))
                one_direction(keys, tx, rx, hdr, pn, payload, 1 + len(dcid), rnd.randrange(base + 1, pn + 1),
                              "%s %s short header" % (vname, suite))
    check(not mismatches, "aioquic CryptoPair vs refquic, short headers, all suites, %d packets: %s" % (n, mismatches[:3]))

    # targeted probe for the signed 32 bit truncated packet number
    dcid = b"\x07" * 8
    ck, _ = R.initial_keys(R.V1, dcid)
    srv = CryptoPair()
    srv.setup_initial(cid=dcid, is_client=False, version=R.V1)
    res = []
    for pn in (2**32 + 0x7FFFFFFF, 2**32 + 0x80000000, 5 * 2**32 + 0xFFFFFFFE):
        hdr = R.build_long_header(R.V1, R.PT_INITIAL, dcid, b"", pn, 4, 20, length_size=2)
        pkt = R.protect(ck, hdr, pn, b"\x01" * 20)
        eq(R.unprotect(ck, pkt, len(hdr) - 4, pn - 3), (hdr, pn, b"\x01" * 20), "refquic opens 4 byte pn 0x%x" % pn)
        try:
            res.append(srv.decrypt_packet(pkt, len(hdr) - 4, pn - 3)[2] == pn)
        except Exception:  # noqa: BLE001
            res.append(False)
    check(res[0], "aioquic opens a 4 byte packet number whose truncated value is 0x7fffffff")
    divergence("hp-remove-signed-pn32", res[1] and res[2],
               "aioquic cannot open packets with a 4 byte packet number encoding >= 0x80000000 once pn >= 2**32 "
               "(HeaderProtection.remove returns the truncated pn through a signed \"i\" format); "
               "%d of the random cross-check packets hit this" % len(signed_pn_hits))

    # the short header AES known answers that ship with aioquic's own tests
    for ver, name in ((R.V1, "V1"), (R.V2, "V2")):
        keys = R.derive_keys(R.AES128, ver, V.SHORT_SERVER_SECRET)
        hdr, pay = getattr(V, name + "_SHORT_SERVER_PLAIN_HEADER"), getattr(V, name + "_SHORT_SERVER_PLAIN_PAYLOAD")
        enc = getattr(V, name + "_SHORT_SERVER_ENCRYPTED_PACKET")
        eq(R.protect(keys, hdr, 3, pay), enc, name + " aioquic short header known answer (protect)")
        eq(R.unprotect(keys, enc, 9, 0), (hdr, 3, pay), name + " aioquic short header known answer (unprotect)")

    # packet number decoding
    bad = []
    for e in [0, 1, 127, 128, 129, 255, 256, 2**32 - 1, 2**32] + list(range(2**62 - 300, 2**62)):
        for t in range(256):
            if decode_packet_number(t, 8, e) != R.decode_pn(t, 8, e):
                bad.append((t, 8, e, decode_packet_number(t, 8, e), R.decode_pn(t, 8, e)))
    for _ in range(5000):
        nbits = rnd.choice((8, 16, 24, 32))
        e = rnd.getrandbits(rnd.randrange(1, 63))
        t = rnd.randrange(1 << nbits)
        if decode_packet_number(t, nbits, e) != R.decode_pn(t, nbits, e):
            bad.append((t, nbits, e, decode_packet_number(t, nbits, e), R.decode_pn(t, nbits, e)))
    check(not bad, "aioquic decode_packet_number vs decode_pn: %d differences, first (t,nbits,expected,aioquic,ref) %r"
          % (len(bad), bad[:3]))

    # key update: the receiver sees a flipped key phase bit and must derive the next keys itself
    for ver, vname in ((R.V1, "v1"), (R.V2, "v2")):
        for suite, aio_suite, slen in suites:
            secret = rnd.randbytes(slen)
            rx = CryptoPair()
            rx.recv.setup(cipher_suite=aio_suite, secret=secret, version=ver)
            rx.send.setup(cipher_suite=aio_suite, secret=secret, version=ver)
            k1 = R.update_keys(R.derive_keys(suite, ver, secret))
            hdr = R.build_short_header(b"\x01" * 8, 5, 2, key_phase=1)
            pkt = R.protect(k1, hdr, 5, b"\x01" * 20)
            try:
                got = rx.decrypt_packet(pkt, 9, 0)
                ok = (got[0], got[1], got[2]) == (hdr, b"\x01" * 20, 5)
            except Exception:  # noqa: BLE001
                ok = False
            what = "aioquic accepts a %s %s packet protected with the RFC next-generation keys" % (vname, suite)
            if ver == R.V2:
                divergence("v2-key-update-label", ok,
                           "%s: NO - crypto.py next_key_phase() derives the next secret with the label "
                           "\"quic ku\" for every version, RFC 9369 3.3.2 requires \"quicv2 ku\" for v2" % what)
            else:
                check(ok, what)


# ---------------------------------------------------------------------------
def main() -> int:
    sections = [t_varints, t_packet_numbers, t_key_schedule, t_protection_vectors, t_headers, t_frames,
                t_transport_parameters, t_keylog, t_cross_aioquic]
    for fn in sections:
        try:
            fn()
        except Exception as e:  # noqa: BLE001
            import traceback
            _failures.append("%s crashed: %r\n%s" % (fn.__name__, e, traceback.format_exc()))
    for note in dict.fromkeys(_notes):
        print(note)
    if _failures:
        print("refquic selftest FAILED (%d of %d checks)" % (len(_failures), _checks))
        for f in _failures[:60]:
            print("  - " + f)
        return 1
    print("refquic selftest ok (%d checks)" % _checks)
    return 0


if __name__ == "__main__":
    sys.exit(main())
