"""Run a task of a property module in a child interpreter that loads the
AddressSanitizer/UBSan build of the current C sources.

Parent side:  asanrun.run_child(ctx, prop, name, kw)
Child side :  python -B -m vlib.asanrun <spec.json>   (calls props.<prop>.child_task)

The child keeps the case it is about to run in a small memory-mapped file, so
that when the sanitizer kills the process the parent still knows the failing
case; the sanitizer report on stderr provides the signature.
"""
import json
import mmap
import os
import re
import subprocess
import sys
import tempfile
import time

VERIF = os.path.dirname(os.path.dirname(os.path.abspath(__file__)))
CUR_SIZE = 1 << 17


class Current:
    """the case being run, readable by the parent after a crash"""

    def __init__(self, path):
        self.f = open(path, "r+b")
        self.m = mmap.mmap(self.f.fileno(), CUR_SIZE)

    def set(self, text):
        b = text.encode() if isinstance(text, str) else text
        if len(b) > CUR_SIZE - 8:
            b = b[: CUR_SIZE - 8]
        self.m[0 : len(b) + 1] = b + b"\n"

    def set_json(self, obj):
        from .harness import jsonable

        self.set(json.dumps(jsonable(obj)))


class NullCurrent:
    def set(self, text):
        pass

    def set_json(self, obj):
        pass


def read_current(path):
    try:
        with open(path, "rb") as f:
            b = f.read(CUR_SIZE)
    except OSError:
        return None
    b = b.split(b"\n", 1)[0].rstrip(b"\x00")
    if not b:
        return None
    try:
        return json.loads(b.decode())
    except ValueError:
        return {"text": b.decode("latin-1")}


def sanitizer_signature(stderr):
    """-> (signature, excerpt) from an ASan/UBSan report, or (None, tail)"""
    m = re.search(r"ERROR: AddressSanitizer: ([A-Za-z0-9_-]+)", stderr)
    frames = re.findall(r"#\d+ 0x[0-9a-f]+ in (\w+) [^\n]*?(_crypto|_buffer)\.c", stderr)
    where = frames[0][0] if frames else "?"
    if m:
        i = stderr.find("ERROR: AddressSanitizer")
        return "asan-%s-in-%s" % (m.group(1), where), stderr[max(0, i - 100) : i + 1800]
    m = re.search(r"(_crypto|_buffer)\.c:\d+:\d+: runtime error: ([^\n]*)", stderr)
    if m:
        kind = re.sub(r"[^a-z]+", "-", re.sub(r"0x[0-9a-f]+|\d+", "", m.group(2).lower())).strip("-")[:60]
        i = m.start()
        return "ubsan-%s-in-%s" % (kind, where if where != "?" else m.group(1)), stderr[max(0, i - 100) : i + 1500]
    m = re.search(r"runtime error: ([^\n]*)", stderr)
    if m:
        return "ubsan-" + re.sub(r"[^a-z]+", "-", m.group(1).lower()).strip("-")[:60], stderr[max(0, m.start() - 300) : m.start() + 1200]
    return None, stderr[-2500:]


def run_child(ctx, prop, name, kw, timeout=None):
    """Run props.<prop>.child_task(ctx', name, **kw) under the sanitizer build; merge its counters into ctx."""
    from . import build
    from .harness import jsonable

    root = build.shadow("asan", os.environ.get("VERIF_REPO"))
    out = os.path.join(os.environ.get("VERIF_OUT") or os.path.join(VERIF, "out"), "children")
    os.makedirs(out, exist_ok=True)
    d = tempfile.mkdtemp(prefix="%s-%s-" % (prop, re.sub(r"[^A-Za-z0-9]+", "_", name)), dir=out)
    cur = os.path.join(d, "current")
    with open(cur, "wb") as f:
        f.write(b"\x00" * CUR_SIZE)
    spec = {"prop": prop, "tier": ctx.tier, "seed": ctx.seed, "task": name, "kw": jsonable(kw), "current": cur, "result": os.path.join(d, "result.json"), "root": root}
    sp = os.path.join(d, "spec.json")
    with open(sp, "w") as f:
        json.dump(spec, f)
    env = build.asan_env()
    env["PYTHONPATH"] = VERIF
    env["PYTHONHASHSEED"] = "0"
    t0 = time.time()
    try:
        p = subprocess.run([sys.executable, "-B", "-m", "vlib.asanrun", sp], env=env, cwd=VERIF, stdout=subprocess.PIPE, stderr=subprocess.PIPE, timeout=timeout)
        rc, err = p.returncode, p.stderr.decode("utf-8", "replace")
        outtxt = p.stdout.decode("utf-8", "replace")
    except subprocess.TimeoutExpired as e:
        rc, err, outtxt = -999, (e.stderr or b"").decode("utf-8", "replace"), ""
    res = None
    if os.path.exists(spec["result"]):
        with open(spec["result"]) as f:
            res = json.load(f)
    try:
        if res is not None and "error" not in res:
            ctx.evaluations += res["evaluations"]
            ctx.nontrivial.update(res["nontrivial"])
            ctx.classes.update(res["classes"])
            ctx.excluded.update(res["excluded"])
            for s in res["samples"]:
                if len(ctx.samples) < ctx.MAX_SAMPLES:
                    ctx.samples.append(s)
            for v in res["violations"]:
                if v and not any(x["signature"] == v["signature"] for x in ctx.violations):
                    ctx.violations.append(v)
            ctx.extra.update(res.get("extra") or {})
            ctx.extra["child_wall_s"] = round(time.time() - t0, 1)
            return
        if res is not None and "error" in res:
            raise RuntimeError("harness: sanitizer child failed:\n" + res["error"])
        if rc == -999:
            raise RuntimeError("harness: sanitizer child exceeded its time budget (inconclusive)")
        sig, excerpt = sanitizer_signature(err)
        case = read_current(cur)
        if sig is None:
            if rc < 0:
                sig, excerpt = "killed-by-signal-%d" % (-rc), err[-2000:]
            else:
                raise RuntimeError("harness: sanitizer child exited %d without a result or a sanitizer report:\n%s\n%s" % (rc, outtxt[-1500:], err[-3000:]))
        ctx.evaluations += 1
        ctx.violation(sig, "the sanitizer build of the C helpers stopped the interpreter while running this case:\n" + excerpt, {"kind": "crash", "task": name, "kw": jsonable(kw), "current": case}, soft=True)
    finally:
        for fn in ("current", "spec.json", "result.json"):
            try:
                os.unlink(os.path.join(d, fn))
            except OSError:
                pass
        try:
            os.rmdir(d)
        except OSError:
            pass


def child_main(spec_path):
    import importlib
    import logging
    import traceback

    with open(spec_path) as f:
        spec = json.load(f)
    sys.path.insert(0, spec["root"])
    sys.path.insert(1, VERIF)
    logging.disable(logging.CRITICAL)
    from . import findings
    from .harness import Ctx, Violation, jsonable, unjson

    try:
        import aioquic

        if not aioquic.__file__.startswith(spec["root"]):
            raise RuntimeError("shadow package not first on sys.path: %s" % aioquic.__file__)
        mod = importlib.import_module("props." + spec["prop"])
        ctx = Ctx(spec["prop"], spec["tier"], spec["seed"], spec["task"], findings.Findings.load())
        ctx.current = Current(spec["current"])
        try:
            mod.child_task(ctx, spec["task"], **unjson(spec["kw"]))
        except Violation:
            ctx.violations.append(ctx._last)
        r = ctx.result()
        r["nontrivial"] = sorted(r["nontrivial"])
        r["classes"] = dict(r["classes"])
        r["excluded"] = dict(r["excluded"])
        r = jsonable(r)
    except BaseException:
        r = {"error": traceback.format_exc()}
    tmp = spec["result"] + ".tmp"
    with open(tmp, "w") as f:
        json.dump(r, f)
    os.replace(tmp, spec["result"])
    sys.stdout.flush()
    os._exit(0)


if __name__ == "__main__":
    child_main(sys.argv[1])
