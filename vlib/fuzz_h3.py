#!/venv/bin/python
"""Coverage-guided fuzz target (atheris / libFuzzer) for C16: bytes -> a sequence of (stream, chunk, fin) deliveries and
datagrams to an H3Connection or H0Connection on a stub transport.  Oracle: handle_event returns normally.

Run by props/C16.py (thorough tier):  python vlib/fuzz_h3.py <shadow root> <corpus dir> -runs=N -seed=N ...
A crash leaves crash-<sha1> in the working directory; `decode()` turns the bytes back into the delivered plan for replay.
"""
import os
import sys

VERIF = os.path.dirname(os.path.dirname(os.path.abspath(__file__)))


def decode(data):
    """bytes -> (role flags, plan); plan items (stream_id, chunk, fin) or ("dgram", bytes)"""
    if len(data) < 2:
        return None
    flags = data[0]
    is_client = bool(flags & 1)
    h0 = bool(flags & 2) and False  # (H0 has its own Hypothesis task; keep the target on H3)
    logging_on = bool(flags & 4)
    # streams the peer can write to
    bidi = [1, 5] if is_client else [0, 4, 8]
    uni = [3, 7, 11, 15, 19] if is_client else [2, 6, 10, 14, 18]
    local = [0] if is_client else []
    streams = bidi + uni + local
    plan = []
    p = 1
    finished = set()
    while p + 2 <= len(data) and len(plan) < 64:
        sel = data[p]
        ln = data[p + 1]
        p += 2
        chunk = data[p : p + ln]
        p += ln
        if sel == 0xFF:
            plan.append(("dgram", bytes(chunk)))
            continue
        sid = streams[(sel & 0x0F) % len(streams)]
        if sid in finished:
            continue
        fin = bool(sel & 0x80)
        if fin:
            finished.add(sid)
        plan.append((sid, bytes(chunk), fin))
    return is_client, logging_on, plan


def run_plan(is_client, logging_on, plan):
    from aioquic.h3.connection import H3Connection
    from aioquic.quic.events import DatagramFrameReceived, StreamDataReceived
    from aioquic.quic.logger import QuicLogger

    from vlib import h3bench as B

    logger = QuicLogger().start_trace(is_client=is_client, odcid=b"\x00" * 8) if logging_on else None
    q = B.StubQuic(is_client, logger=logger)
    h3 = H3Connection(q, enable_webtransport=True)
    if is_client:
        h3.send_headers(q.get_next_available_stream_id(), [(b":method", b"GET"), (b":scheme", b"https"), (b":authority", b"a"), (b":path", b"/")], end_stream=True)
    for item in plan:
        if item[0] == "dgram":
            h3.handle_event(DatagramFrameReceived(data=item[1]))
        else:
            h3.handle_event(StreamDataReceived(stream_id=item[0], data=item[1], end_stream=item[2]))
    return q


def main():
    root = sys.argv[1]
    sys.path.insert(0, root)
    sys.path.insert(1, VERIF)
    sys.path.insert(2, os.path.join(VERIF, ".deps"))
    import logging

    logging.disable(logging.CRITICAL)
    import atheris

    with atheris.instrument_imports(include=["aioquic.h3", "aioquic.buffer"]):
        import aioquic.h3.connection  # noqa

    def test_one(data):
        d = decode(bytes(data))
        if d is None:
            return
        run_plan(*d)

    atheris.Setup([sys.argv[0]] + sys.argv[2:], test_one)
    atheris.Fuzz()


if __name__ == "__main__":
    main()
