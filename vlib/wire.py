"""Wire observer: decrypts every datagram an endpoint emits with the independent
implementation (vlib.refquic).  Keys: Initial keys from the DCID; Handshake /
0-RTT / 1-RTT secrets from the *server's* NSS key log (it records both
directions), followed through key updates by the reference key schedule.
"""
import collections

from . import refquic as R

LABELS = {
    ("c", R.PT_HANDSHAKE): "CLIENT_HANDSHAKE_TRAFFIC_SECRET",
    ("s", R.PT_HANDSHAKE): "SERVER_HANDSHAKE_TRAFFIC_SECRET",
    ("c", R.PT_ONE_RTT): "CLIENT_TRAFFIC_SECRET_0",
    ("s", R.PT_ONE_RTT): "SERVER_TRAFFIC_SECRET_0",
    ("c", R.PT_ZERO_RTT): "CLIENT_EARLY_TRAFFIC_SECRET",
}

SPACE = {R.PT_INITIAL: "initial", R.PT_HANDSHAKE: "handshake", R.PT_ZERO_RTT: "app", R.PT_ONE_RTT: "app"}


class PacketView:
    __slots__ = ("ptype", "pn", "frames", "size", "ack_eliciting", "info", "space", "key_phase", "raw", "payload", "header", "dest", "dgram_len", "key_gen")

    def __init__(self, ptype, pn, frames, size, info, key_phase, raw, payload, header):
        self.ptype = ptype
        self.pn = pn
        self.frames = frames
        self.size = size
        self.info = info
        self.space = SPACE.get(ptype)
        self.key_phase = key_phase
        self.key_gen = None  # 1-RTT: generation of the keys that opened the packet
        self.raw = raw
        self.payload = payload
        self.header = header
        self.ack_eliciting = any(R.is_ack_eliciting(f["name"]) for f in frames) if frames is not None else None

    def names(self):
        return [f["name"] for f in self.frames or []]


class KeyRing:
    """keys of one direction"""

    def __init__(self):
        self.initial = []  # list of Keys candidates (one per DCID seen)
        self.handshake = None
        self.zero_rtt = None
        self.app = []  # generations: app[g]
        self.gen = 0  # current generation (largest seen)


class WireObserver:
    def __init__(self, sim=None, keylog=None, cid_len=8):
        self.sim = sim
        self.keylog = keylog if keylog is not None else (sim.keylog if sim is not None else None)
        self.cid_len = {"c": cid_len, "s": cid_len}  # length of the DCID used in short headers SENT BY x
        self.rings = {"c": KeyRing(), "s": KeyRing()}
        self.largest = collections.defaultdict(lambda: -1)  # (x, space) -> largest pn seen
        self.version = None
        self.keylog_pos = 0
        self.secrets = {}  # label -> secret (the first one logged)
        self.all_secrets = {}  # label -> every secret logged under it, in order
        self.history = {"c": [], "s": []}  # (time, [PacketView])
        self.undecryptable = collections.Counter()
        self.initial_dcids = set()
        self._initial_cache = {}
        self.keylogs = [self.keylog] if self.keylog is not None else []
        self._pos = {}
        self.suite = None

    # ---------------------------------------------------------------- keys
    def add_keylog(self, f):
        if f is not None and f not in self.keylogs:
            self.keylogs.append(f)

    def refresh(self):
        for f in self.keylogs:
            text = f.getvalue()
            pos = self._pos.get(id(f), 0)
            if len(text) == pos:
                continue
            for line in text[pos:].splitlines():
                parts = line.split()
                if len(parts) == 3:
                    sec = bytes.fromhex(parts[2])
                    if parts[0] not in self.secrets:
                        self.secrets[parts[0]] = sec
                    # a client that starts over (Retry, Version Negotiation) sends a new ClientHello: a new early secret is logged under the same label
                    if sec not in self.all_secrets.setdefault(parts[0], []):
                        self.all_secrets[parts[0]].append(sec)
            self._pos[id(f)] = len(text)

    def suites_for(self, secret):
        if len(secret) == 48:
            return [R.AES256]
        if self.suite is not None:
            return [self.suite]
        return [R.AES128, R.CHACHA]

    def add_initial(self, dcid, version):
        self.initial_dcids.add(dcid)

    def initial_candidates(self, x, version):
        out = []
        for dcid in self.initial_dcids:
            k = (dcid, version)
            if k not in self._initial_cache:
                try:
                    self._initial_cache[k] = R.initial_keys(version, dcid)
                except Exception:
                    self._initial_cache[k] = None
            pair = self._initial_cache[k]
            if pair is not None:
                out.append(pair[0] if x == "c" else pair[1])
        return out

    def candidates(self, x, ptype, version):
        if ptype == R.PT_INITIAL:
            return self.initial_candidates(x, version)
        label = LABELS.get((x, ptype))
        if label is None:
            return []
        self.refresh()
        secrets = self.all_secrets.get(label)
        if not secrets:
            return []
        return [R.derive_keys(s, version, secret) for secret in reversed(secrets) for s in self.suites_for(secret)]

    # ---------------------------------------------------------------- decoding
    def try_open(self, x, keys_list, pkt, info, space):
        exp = self.largest[(x, space)] + 1
        for keys in keys_list:
            try:
                hdr, pn, payload = R.unprotect(keys, pkt, info.pn_offset_rel, exp)
                return keys, hdr, pn, payload
            except R.AuthError:
                continue
        return None

    def decode(self, x, data, record=True):
        """-> list of PacketView (frames None when the packet could not be opened)."""
        out = []
        try:
            infos = R.split_datagram(data, self.cid_len[x], require_fixed_bit=False)
        except R.ParseError:
            self.undecryptable["unparseable-datagram"] += 1
            return out
        for info in infos:
            pkt = data[info.start : info.end]
            if info.ptype in (R.PT_RETRY, R.PT_VN, R.PT_UNKNOWN):
                out.append(PacketView(info.ptype, None, [], len(pkt), info, None, pkt, b"", b""))
                continue
            version = info.version if info.version is not None else self.version
            if info.ptype == R.PT_INITIAL and x == "c":
                self.add_initial(info.dcid, info.version)
            if info.is_long and self.version is None and info.ptype == R.PT_HANDSHAKE:
                self.version = info.version
            if version is None:
                version = R.V1
            space = SPACE[info.ptype]
            res = None
            key_phase = None
            key_gen = None
            if info.ptype == R.PT_ONE_RTT:
                ring = self.rings[x]
                if not ring.app:
                    ks = self.candidates(x, R.PT_ONE_RTT, version)
                    res = self.try_open(x, ks, pkt, info, space)
                    if res is not None:
                        ring.app = [res[0]]
                        self.suite = res[0].suite
                        if self.version is None:
                            self.version = version
                else:
                    tries = [ring.app[ring.gen]]
                    if len(ring.app) <= ring.gen + 1:
                        ring.app.append(R.update_keys(ring.app[ring.gen]))
                    tries.append(ring.app[ring.gen + 1])
                    if ring.gen > 0:
                        tries.append(ring.app[ring.gen - 1])
                    res = self.try_open(x, tries, pkt, info, space)
                    if res is not None and res[0] is ring.app[ring.gen + 1]:
                        ring.gen += 1
                    elif res is None:
                        # two generations ahead of the last packet seen from x: the peer updated the keys (x followed without having sent anything
                        # yet) and x then initiated an update of its own
                        while len(ring.app) <= ring.gen + 2:
                            ring.app.append(R.update_keys(ring.app[-1]))
                        res = self.try_open(x, [ring.app[ring.gen + 2]], pkt, info, space)
                        if res is not None:
                            ring.gen += 2
                if res is not None:
                    key_phase = (res[1][0] >> 2) & 1
                    key_gen = next(i for i, k in enumerate(ring.app) if k is res[0])
            else:
                ks = self.candidates(x, info.ptype, version)
                res = self.try_open(x, ks, pkt, info, space)
                if res is not None and info.ptype == R.PT_HANDSHAKE:
                    self.suite = res[0].suite
            if res is None:
                self.undecryptable[info.ptype] += 1
                out.append(PacketView(info.ptype, None, None, len(pkt), info, None, pkt, None, None))
                continue
            keys, hdr, pn, payload = res
            if record and pn > self.largest[(x, space)]:
                self.largest[(x, space)] = pn
            try:
                frames = R.parse_frames(payload, strict=False)
            except R.ParseError:
                frames = None
                self.undecryptable["frames-unparseable"] += 1
            out.append(PacketView(info.ptype, pn, frames, len(pkt), info, key_phase, pkt, payload, hdr))
            out[-1].key_gen = key_gen
        return out

    def observe(self, x, data, now):
        views = self.decode(x, data)
        self.history[x].append((now, views, len(data)))
        return views

    def last(self, x):
        return self.history[x][-1][1] if self.history[x] else []
