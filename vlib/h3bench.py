"""HTTP/3 bench: a stub transport that records what an H3Connection sends and
replays per-stream byte strings into a receiving H3Connection with arbitrary
chunking / interleaving; a literal-only QPACK field-section encoder; an event
normaliser.  Offers the same surface as tests/test_h3.py::FakeQuicConnection.
"""
import collections


def varint(v):
    if v < 0x40:
        return bytes([v])
    if v < 0x4000:
        return (v | 0x4000).to_bytes(2, "big")
    if v < 0x40000000:
        return (v | 0x80000000).to_bytes(4, "big")
    return (v | 0xC000000000000000).to_bytes(8, "big")


def varint_n(v, n):
    tag = {1: 0, 2: 1, 4: 2, 8: 3}[n]
    return (v | (tag << (8 * n - 2))).to_bytes(n, "big")


def frame(ftype, payload):
    return varint(ftype) + varint(len(payload)) + payload


# optional hook: callable is_client -> QuicLoggerTrace or None, used when no logger is passed (C20)
LOGGER_FACTORY = None


class StubQuic:
    def __init__(self, is_client, logger=None, max_datagram_frame_size=65536):
        from aioquic.quic.configuration import QuicConfiguration

        if logger is None and LOGGER_FACTORY is not None:
            logger = LOGGER_FACTORY(is_client)
        self.configuration = QuicConfiguration(is_client=is_client)
        self._quic_logger = logger
        self._remote_max_datagram_frame_size = max_datagram_frame_size
        self.closed = None
        self.close_calls = 0
        self._u = 2 if is_client else 3
        self._b = 0 if is_client else 1
        self.out = collections.OrderedDict()
        self.fin = set()
        self.datagrams = []
        self.log = []  # (stream_id, bytes, fin) in send order

    def get_next_available_stream_id(self, is_unidirectional=False):
        if is_unidirectional:
            r = self._u
            self._u += 4
        else:
            r = self._b
            self._b += 4
        return r

    def send_stream_data(self, stream_id, data, end_stream=False):
        self.out.setdefault(stream_id, bytearray()).extend(data)
        if end_stream:
            self.fin.add(stream_id)
        self.log.append((stream_id, bytes(data), end_stream))

    def send_datagram_frame(self, data):
        self.datagrams.append(bytes(data))

    def close(self, error_code=0, frame_type=None, reason_phrase=""):
        self.close_calls += 1
        if self.closed is None:
            self.closed = (int(error_code), reason_phrase)

    def streams(self):
        return {sid: (bytes(d), sid in self.fin) for sid, d in self.out.items()}


# ---- literal QPACK field section (RFC 9204 4.5: prefix 00 00, literal field line with literal name, no huffman)


def _pint(value, prefix_bits, first):
    m = (1 << prefix_bits) - 1
    if value < m:
        return bytes([first | value])
    out = bytearray([first | m])
    value -= m
    while value >= 128:
        out.append((value & 0x7F) | 0x80)
        value >>= 7
    out.append(value)
    return bytes(out)


def qpack_literal(headers):
    out = bytearray(b"\x00\x00")
    for n, v in headers:
        out += _pint(len(n), 3, 0x20) + n + _pint(len(v), 7, 0x00) + v
    return bytes(out)


def qpack_dynamic(headers, capacity=4096):
    """Every field goes into the dynamic table and the field section consists of dynamic references only (RFC 9204 4.3.2, 4.5.1, 4.5.2).
    -> (encoder stream instructions, field section).  The section cannot be decoded before the instructions have arrived."""
    enc = bytearray(_pint(capacity, 5, 0x20))
    for n, v in headers:
        enc += _pint(len(n), 5, 0x40) + n + _pint(len(v), 7, 0x00) + v
    count = len(headers)
    max_entries = capacity // 32
    fs = bytearray(_pint(count % (2 * max_entries) + 1, 8, 0x00) + _pint(0, 7, 0x00))
    for i in range(count):
        fs += _pint(count - 1 - i, 6, 0x80)
    return bytes(enc), bytes(fs)


# ---- normal form of a list of H3 events


def normalise(events):
    from aioquic.h3 import events as E

    per = collections.defaultdict(lambda: {"items": [], "ended": False})
    dgrams = []
    for e in events:
        if isinstance(e, E.HeadersReceived):
            per[e.stream_id]["items"].append(("H", tuple((bytes(n), bytes(v)) for n, v in e.headers), e.push_id))
            per[e.stream_id]["ended"] |= bool(e.stream_ended)
        elif isinstance(e, E.DataReceived):
            it = per[e.stream_id]["items"]
            if e.data:
                if it and it[-1][0] == "D":
                    it[-1] = ("D", it[-1][1] + bytes(e.data), e.push_id)
                else:
                    it.append(("D", bytes(e.data), e.push_id))
            per[e.stream_id]["ended"] |= bool(e.stream_ended)
        elif isinstance(e, E.PushPromiseReceived):
            per[e.stream_id]["items"].append(("P", tuple((bytes(n), bytes(v)) for n, v in e.headers), e.push_id))
        elif isinstance(e, E.WebTransportStreamDataReceived):
            it = per[e.stream_id]["items"]
            if it and it[-1][0] == "W":
                it[-1] = ("W", it[-1][1] + bytes(e.data), e.session_id)
            else:
                it.append(("W", bytes(e.data), e.session_id))
            per[e.stream_id]["ended"] |= bool(e.stream_ended)
        elif isinstance(e, E.DatagramReceived):
            dgrams.append((e.stream_id, bytes(e.data)))
    out = {k: (tuple(v["items"]), v["ended"]) for k, v in per.items()}
    if dgrams:
        out["datagrams"] = tuple(sorted(dgrams))
    return out


def deliver(plan, is_client, enable_webtransport=True, logger=None, h3=None, quic=None):
    """plan: list of (stream_id, bytes, fin) | ("dgram", bytes).  Returns (events, stub, h3)."""
    from aioquic.h3.connection import H3Connection
    from aioquic.quic.events import DatagramFrameReceived, StreamDataReceived

    if h3 is None:
        quic = StubQuic(is_client, logger=logger)
        h3 = H3Connection(quic, enable_webtransport=enable_webtransport)
    evs = []
    for item in plan:
        if item[0] == "dgram":
            evs += h3.handle_event(DatagramFrameReceived(data=item[1]))
        else:
            sid, chunk, fin = item
            evs += h3.handle_event(StreamDataReceived(stream_id=sid, data=chunk, end_stream=fin))
    return evs, quic, h3


def all_splittings(data):
    """every way to cut data into consecutive non-empty chunks (2**(n-1))."""
    n = len(data)
    if n == 0:
        yield []
        return
    for mask in range(1 << (n - 1)):
        chunks = []
        start = 0
        for i in range(1, n):
            if mask >> (i - 1) & 1:
                chunks.append(data[start:i])
                start = i
        chunks.append(data[start:])
        yield chunks
