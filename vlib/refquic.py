"""refquic - an independent reference implementation of the QUIC wire format.

Scope: RFC 9000 (transport wire format), RFC 9001 (packet protection),
RFC 9369 (QUIC version 2), RFC 9221 (DATAGRAM), RFC 9368 (version_information
transport parameter), RFC 9287 (grease_quic_bit transport parameter).

The module is written from the RFC text.  It deliberately imports NOTHING from
aioquic, so that it can serve as a differential oracle against it.  Only the
`cryptography` primitives (AES-ECB, AES-GCM, ChaCha20, ChaCha20-Poly1305) and
the stdlib `hmac`/`hashlib` are used.

Conventions
-----------
* all functions are pure; there is no module-level mutable state
* every parser raises `ParseError` (never IndexError / struct.error) on
  truncated or malformed input;  `FrameEncodingError` (a ParseError subclass)
  marks input that is syntactically complete but violates a MUST of the frame
  / parameter definition (what the RFC maps to FRAME_ENCODING_ERROR etc.)
* packet protection failures raise `AuthError`
* encoder misuse (value out of range, ...) raises `ValueError`
"""

from __future__ import annotations

import hashlib
import hmac
import ipaddress
from dataclasses import dataclass, field
from typing import Iterable, Optional

from cryptography.exceptions import InvalidTag
from cryptography.hazmat.primitives.ciphers import Cipher, algorithms, modes
from cryptography.hazmat.primitives.ciphers.aead import AESGCM, ChaCha20Poly1305

__all__ = [
    "ParseError", "FrameEncodingError", "AuthError",
    "enc_varint", "enc_varint_n", "dec_varint", "varint_size", "VARINT_MAX",
    "V1", "V2", "AES128", "AES256", "CHACHA", "suite_hash",
    "hkdf_extract", "hkdf_expand", "hkdf_expand_label", "initial_secrets",
    "Keys", "derive_keys", "next_secret", "update_keys", "initial_keys",
    "protect", "unprotect", "hp_mask", "decode_pn", "decode_pn_bruteforce",
    "encode_pn_len", "truncate_pn",
    "PT_INITIAL", "PT_ZERO_RTT", "PT_HANDSHAKE", "PT_RETRY", "PT_ONE_RTT",
    "PT_VN", "PT_UNKNOWN", "long_type_bits", "long_type_from_bits",
    "build_long_header", "build_short_header", "PacketInfo", "PacketList",
    "split_datagram", "retry_integrity_tag", "build_retry",
    "verify_retry", "build_version_negotiation",
    "parse_frames", "encode_frame", "encode_frames", "is_ack_eliciting",
    "ack_frame_from_ranges", "FRAME_NAMES", "frame_allowed",
    "encode_transport_parameters", "decode_transport_parameters", "TP_NAMES",
    "TP_IDS", "tp_decode_typed", "tp_check",
    "parse_keylog",
]


class ParseError(Exception):
    """Malformed or truncated wire data."""


class FrameEncodingError(ParseError):
    """Complete but semantically invalid wire data (violates a MUST)."""


class AuthError(Exception):
    """AEAD tag check failed / header protection cannot be removed."""


# ---------------------------------------------------------------------------
# variable-length integers (RFC 9000 section 16)
# ---------------------------------------------------------------------------

VARINT_MAX = (1 << 62) - 1
_VARINT_LIMITS = {1: 1 << 6, 2: 1 << 14, 4: 1 << 30, 8: 1 << 62}
_VARINT_PREFIX = {1: 0, 2: 1, 4: 2, 8: 3}


def varint_size(v: int) -> int:
    """Number of bytes of the minimal encoding of `v`."""
    if v < 0 or v > VARINT_MAX:
        raise ValueError("varint out of range: %r" % (v,))
    if v < (1 << 6):
        return 1
    if v < (1 << 14):
        return 2
    if v < (1 << 30):
        return 4
    return 8


def enc_varint_n(v: int, nbytes: int) -> bytes:
    """Encode `v` on exactly `nbytes` (1, 2, 4 or 8) bytes, minimal or not."""
    if nbytes not in _VARINT_LIMITS:
        raise ValueError("varint length must be 1, 2, 4 or 8")
    if v < 0 or v >= _VARINT_LIMITS[nbytes]:
        raise ValueError("value %r does not fit a %d byte varint" % (v, nbytes))
    return (v | (_VARINT_PREFIX[nbytes] << (8 * nbytes - 2))).to_bytes(nbytes, "big")


def enc_varint(v: int) -> bytes:
    """Minimal encoding."""
    return enc_varint_n(v, varint_size(v))


def dec_varint(buf: bytes, pos: int = 0) -> tuple[int, int]:
    """Decode one varint at `pos`; returns (value, position after it)."""
    if pos < 0 or pos >= len(buf):
        raise ParseError("varint: no data at offset %d" % pos)
    first = buf[pos]
    n = 1 << (first >> 6)
    end = pos + n
    if end > len(buf):
        raise ParseError("varint: truncated (need %d bytes at offset %d)" % (n, pos))
    v = first & 0x3F
    for i in range(pos + 1, end):
        v = (v << 8) | buf[i]
    return v, end


def _take(buf: bytes, pos: int, n: int, what: str = "data") -> tuple[bytes, int]:
    if n < 0 or pos + n > len(buf):
        raise ParseError("%s: truncated (need %d bytes at offset %d, have %d)"
                         % (what, n, pos, max(0, len(buf) - pos)))
    return bytes(buf[pos:pos + n]), pos + n


def _u8(buf: bytes, pos: int, what: str = "byte") -> tuple[int, int]:
    if pos >= len(buf):
        raise ParseError("%s: truncated at offset %d" % (what, pos))
    return buf[pos], pos + 1


# ---------------------------------------------------------------------------
# versions, cipher suites
# ---------------------------------------------------------------------------

V1 = 0x00000001
V2 = 0x6B3343CF

AES128 = "aes128gcm"
AES256 = "aes256gcm"
CHACHA = "chacha20"

_SUITES = {
    # suite: (hash, key length)
    AES128: ("sha256", 16),
    AES256: ("sha384", 32),
    CHACHA: ("sha256", 32),
}
_IV_LEN = 12
TAG_LEN = 16
SAMPLE_LEN = 16

_INITIAL_SALT = {
    V1: bytes.fromhex("38762cf7f55934b34d179ae6a4c80cadccbb7f0a"),
    V2: bytes.fromhex("0dede3def700a6db819381be6e269dcbf9bd2ed9"),
}
# RFC 9001 5.8 / RFC 9369 3.3.3
_RETRY_KEY = {
    V1: bytes.fromhex("be0c690b9f66575a1d766b54e368c84e"),
    V2: bytes.fromhex("8fb4b01b56ac48e260fbcbcead7ccc92"),
}
_RETRY_NONCE = {
    V1: bytes.fromhex("461599d35d632bf2239825bb"),
    V2: bytes.fromhex("d86969bc2d7c6d9990efb04a"),
}


def _label_prefix(version: int) -> bytes:
    if version == V1:
        return b"quic "
    if version == V2:
        return b"quicv2 "
    raise ValueError("unsupported QUIC version 0x%08x" % version)


def suite_hash(suite: str) -> str:
    try:
        return _SUITES[suite][0]
    except KeyError:
        raise ValueError("unknown cipher suite %r" % (suite,)) from None


def suite_key_len(suite: str) -> int:
    try:
        return _SUITES[suite][1]
    except KeyError:
        raise ValueError("unknown cipher suite %r" % (suite,)) from None


# ---------------------------------------------------------------------------
# key schedule (RFC 5869, RFC 8446 7.1, RFC 9001 5.1/5.2/6.1)
# ---------------------------------------------------------------------------

def hkdf_extract(hashname: str, salt: bytes, ikm: bytes) -> bytes:
    if not salt:
        salt = bytes(hashlib.new(hashname).digest_size)
    return hmac.new(salt, ikm, hashname).digest()


def hkdf_expand(hashname: str, prk: bytes, info: bytes, length: int) -> bytes:
    hlen = hashlib.new(hashname).digest_size
    if length < 0 or length > 255 * hlen:
        raise ValueError("hkdf_expand: bad length")
    out = b""
    block = b""
    counter = 1
    while len(out) < length:
        block = hmac.new(prk, block + info + bytes([counter]), hashname).digest()
        out += block
        counter += 1
    return out[:length]


def hkdf_expand_label(hashname: str, secret: bytes, label: bytes, context: bytes,
                      length: int) -> bytes:
    """TLS 1.3 HKDF-Expand-Label (the "tls13 " prefix is added here)."""
    full = b"tls13 " + label
    if len(full) > 255 or len(context) > 255 or not 0 <= length <= 0xFFFF:
        raise ValueError("hkdf_expand_label: field too long")
    info = length.to_bytes(2, "big") + bytes([len(full)]) + full + bytes([len(context)]) + context
    return hkdf_expand(hashname, secret, info, length)


def initial_secrets(version: int, dcid: bytes) -> tuple[bytes, bytes]:
    """(client_initial_secret, server_initial_secret) for the client's first DCID."""
    try:
        salt = _INITIAL_SALT[version]
    except KeyError:
        raise ValueError("unsupported QUIC version 0x%08x" % version) from None
    initial = hkdf_extract("sha256", salt, dcid)
    return (
        hkdf_expand_label("sha256", initial, b"client in", b"", 32),
        hkdf_expand_label("sha256", initial, b"server in", b"", 32),
    )


@dataclass
class Keys:
    """One direction of packet protection keys for one key phase."""
    suite: str
    version: int
    secret: bytes
    key: bytes
    iv: bytes
    hp: bytes
    # lazily built AEAD object (a pure function of suite and key)
    _aead: object = field(default=None, repr=False, compare=False)

    def aead(self):
        if self._aead is None:
            if self.suite == CHACHA:
                self._aead = ChaCha20Poly1305(self.key)
            elif self.suite in (AES128, AES256):
                self._aead = AESGCM(self.key)
            else:
                raise ValueError("unknown cipher suite %r" % (self.suite,))
        return self._aead


def derive_keys(suite: str, version: int, secret: bytes) -> Keys:
    h = suite_hash(suite)
    klen = suite_key_len(suite)
    p = _label_prefix(version)
    return Keys(
        suite=suite,
        version=version,
        secret=bytes(secret),
        key=hkdf_expand_label(h, secret, p + b"key", b"", klen),
        iv=hkdf_expand_label(h, secret, p + b"iv", b"", _IV_LEN),
        hp=hkdf_expand_label(h, secret, p + b"hp", b"", klen),
    )


def initial_keys(version: int, dcid: bytes) -> tuple[Keys, Keys]:
    """(client_keys, server_keys) for Initial packets."""
    c, s = initial_secrets(version, dcid)
    return derive_keys(AES128, version, c), derive_keys(AES128, version, s)


def next_secret(suite: str, version: int, secret: bytes) -> bytes:
    """secret_<n+1> = HKDF-Expand-Label(secret_<n>, "quic ku", "", Hash.length)"""
    h = suite_hash(suite)
    return hkdf_expand_label(h, secret, _label_prefix(version) + b"ku", b"",
                             hashlib.new(h).digest_size)


def update_keys(keys: Keys) -> Keys:
    """Next key phase: new secret, key and iv; the header protection key is kept."""
    h = suite_hash(keys.suite)
    p = _label_prefix(keys.version)
    secret = next_secret(keys.suite, keys.version, keys.secret)
    return Keys(
        suite=keys.suite,
        version=keys.version,
        secret=secret,
        key=hkdf_expand_label(h, secret, p + b"key", b"", suite_key_len(keys.suite)),
        iv=hkdf_expand_label(h, secret, p + b"iv", b"", _IV_LEN),
        hp=keys.hp,
    )


# ---------------------------------------------------------------------------
# packet numbers (RFC 9000 17.1, appendix A.2 / A.3)
# ---------------------------------------------------------------------------

def decode_pn(truncated: int, nbits: int, expected: int) -> int:
    """RFC 9000 A.3.  `expected` is largest_pn + 1."""
    pn_win = 1 << nbits
    pn_hwin = pn_win >> 1
    pn_mask = pn_win - 1
    candidate = (expected & ~pn_mask) | truncated
    if candidate <= expected - pn_hwin and candidate < (1 << 62) - pn_win:
        return candidate + pn_win
    if candidate > expected + pn_hwin and candidate >= pn_win:
        return candidate - pn_win
    return candidate


def decode_pn_bruteforce(truncated: int, nbits: int, expected: int) -> int:
    """Independent oracle for decode_pn.

    Among all c with 0 <= c < 2**62 and c mod 2**nbits == truncated, the one
    closest to `expected`; on an exact tie (distance 2**(nbits-1) on both
    sides) the HIGHER candidate wins, which is what the A.3 pseudo-code does
    (first test is `<=`, second is strict `>`).

    Agreement with decode_pn holds for every 0 <= expected <= 2**62 - 1.  At
    expected == 2**62 (i.e. the largest received packet number was already the
    maximum 2**62 - 1) the A.3 pseudo-code computes a candidate in the window
    starting AT 2**62 and can return a value >= 2**62, which is not a valid
    packet number; this function never does.
    """
    win = 1 << nbits
    if not 0 <= truncated < win:
        raise ValueError("truncated packet number does not fit %d bits" % nbits)
    base = (expected - truncated) // win
    best = None
    for k in range(base - 2, base + 4):
        c = k * win + truncated
        if c < 0 or c >= (1 << 62):
            continue
        rank = (abs(c - expected), -c)
        if best is None or rank < best[0]:
            best = (rank, c)
    if best is None:  # pragma: no cover - cannot happen for sane `expected`
        raise ValueError("no candidate")
    return best[1]


def encode_pn_len(pn: int, largest_acked: Optional[int], strict: bool = False) -> int:
    """RFC 9000 A.2: number of bytes needed to send `pn`.

    A.2:  num_unacked = pn + 1 (nothing acked yet) or pn - largest_acked;
          min_bits = log2(num_unacked) + 1;  num_bytes = ceil(min_bits / 8)
    i.e. the smallest n with 2**(8n) >= 2 * num_unacked.

    Section 17.1 words the same requirement as "MORE than twice as large a
    range"; pass strict=True for that reading (2**(8n) > 2 * num_unacked); the
    two differ only when num_unacked is exactly 2**7, 2**15, 2**23, 2**31.

    The result is not capped: a value > 4 means the packet number cannot be
    sent at all with that largest_acked.
    """
    num_unacked = pn + 1 if largest_acked is None else pn - largest_acked
    if num_unacked <= 0:
        raise ValueError("packet number not above largest acked")
    need = 2 * num_unacked
    n = 1
    while ((1 << (8 * n)) <= need) if strict else ((1 << (8 * n)) < need):
        n += 1
    return n


def truncate_pn(pn: int, pn_len: int) -> bytes:
    if pn_len not in (1, 2, 3, 4):
        raise ValueError("pn_len must be 1..4")
    if pn < 0 or pn > VARINT_MAX:
        raise ValueError("packet number out of range")
    return (pn & ((1 << (8 * pn_len)) - 1)).to_bytes(pn_len, "big")


# ---------------------------------------------------------------------------
# packet protection (RFC 9001 5.3, 5.4)
# ---------------------------------------------------------------------------

def hp_mask(keys: Keys, sample: bytes) -> bytes:
    """5 mask bytes from a 16 byte ciphertext sample (RFC 9001 5.4.3 / 5.4.4)."""
    if len(sample) != SAMPLE_LEN:
        raise ValueError("sample must be 16 bytes")
    if keys.suite == CHACHA:
        # counter = first 4 bytes (little endian), nonce = last 12 bytes;
        # `cryptography` takes exactly that 16 byte layout as its "nonce".
        enc = Cipher(algorithms.ChaCha20(keys.hp, bytes(sample)), mode=None).encryptor()
        return enc.update(bytes(5))
    if keys.suite in (AES128, AES256):
        enc = Cipher(algorithms.AES(keys.hp), modes.ECB()).encryptor()
        return enc.update(bytes(sample))[:5]
    raise ValueError("unknown cipher suite %r" % (keys.suite,))


def _nonce(iv: bytes, pn: int) -> bytes:
    return (int.from_bytes(iv, "big") ^ pn).to_bytes(len(iv), "big")


def protect(keys: Keys, header: bytes, pn: int, payload: bytes, strict: bool = True) -> bytes:
    """Seal and header-protect one packet.

    `header` is the complete unprotected header including the truncated packet
    number as its last 1..4 bytes (length from the low two bits of header[0]).
    `pn` is the FULL packet number (used for the nonce).  With strict=True a
    ValueError is raised when the trailing header bytes are not the truncation
    of `pn`.  ValueError as well when the packet would be too short to sample
    (RFC 9001 5.4.2: pad the payload so that pn_len + len(payload) >= 4).
    """
    header = bytes(header)
    if not header:
        raise ValueError("empty header")
    if pn < 0 or pn > VARINT_MAX:
        raise ValueError("packet number out of range")
    pn_len = (header[0] & 0x03) + 1
    pn_offset = len(header) - pn_len
    if pn_offset < 1:
        raise ValueError("header shorter than its packet number field")
    if strict and header[pn_offset:] != truncate_pn(pn, pn_len):
        raise ValueError("header packet number bytes do not match pn")
    sealed = keys.aead().encrypt(_nonce(keys.iv, pn), bytes(payload), header)
    sample_at = 4 - pn_len
    sample = sealed[sample_at:sample_at + SAMPLE_LEN]
    if len(sample) < SAMPLE_LEN:
        raise ValueError("payload too short to take a header protection sample")
    mask = hp_mask(keys, sample)
    out = bytearray(header)
    out[0] ^= mask[0] & (0x0F if header[0] & 0x80 else 0x1F)
    for i in range(pn_len):
        out[pn_offset + i] ^= mask[1 + i]
    return bytes(out) + sealed


def unprotect(keys: Keys, packet: bytes, pn_offset: int, expected_pn: int
              ) -> tuple[bytes, int, bytes]:
    """Remove header protection, recover the packet number, open the AEAD.

    `packet` is exactly one packet (for long headers: up to the end given by
    its Length field), `pn_offset` the offset of the packet number field inside
    `packet`, `expected_pn` = largest packet number received so far + 1.
    Returns (plain header including pn bytes, full packet number, payload).
    """
    packet = bytes(packet)
    if pn_offset < 1 or pn_offset + 4 + SAMPLE_LEN > len(packet):
        raise AuthError("packet too short to sample")
    sample = packet[pn_offset + 4:pn_offset + 4 + SAMPLE_LEN]
    mask = hp_mask(keys, sample)
    first = packet[0] ^ (mask[0] & (0x0F if packet[0] & 0x80 else 0x1F))
    pn_len = (first & 0x03) + 1
    pn_bytes = bytes(packet[pn_offset + i] ^ mask[1 + i] for i in range(pn_len))
    header = bytes([first]) + packet[1:pn_offset] + pn_bytes
    pn = decode_pn(int.from_bytes(pn_bytes, "big"), 8 * pn_len, expected_pn)
    if pn < 0 or pn > VARINT_MAX:
        raise AuthError("decoded packet number out of range")
    ciphertext = packet[pn_offset + pn_len:]
    if len(ciphertext) < TAG_LEN:
        raise AuthError("no room for an AEAD tag")
    try:
        payload = keys.aead().decrypt(_nonce(keys.iv, pn), ciphertext, header)
    except InvalidTag:
        raise AuthError("AEAD authentication failed") from None
    return header, pn, payload


# ---------------------------------------------------------------------------
# packet headers (RFC 9000 17, RFC 8999, RFC 9369 3.2)
# ---------------------------------------------------------------------------

PT_INITIAL = "initial"
PT_ZERO_RTT = "0rtt"
PT_HANDSHAKE = "handshake"
PT_RETRY = "retry"
PT_ONE_RTT = "1rtt"
PT_VN = "vn"
PT_UNKNOWN = "unknown"   # long header of a version this module does not know

_LONG_TYPES = {
    V1: {PT_INITIAL: 0, PT_ZERO_RTT: 1, PT_HANDSHAKE: 2, PT_RETRY: 3},
    V2: {PT_INITIAL: 1, PT_ZERO_RTT: 2, PT_HANDSHAKE: 3, PT_RETRY: 0},
}
MAX_CID_LEN = 20


def long_type_bits(version: int, ptype: str) -> int:
    try:
        return _LONG_TYPES[version][ptype]
    except KeyError:
        raise ValueError("no long packet type %r in version 0x%08x" % (ptype, version)) from None


def long_type_from_bits(version: int, bits: int) -> str:
    try:
        table = _LONG_TYPES[version]
    except KeyError:
        raise ValueError("unsupported QUIC version 0x%08x" % version) from None
    for name, b in table.items():
        if b == (bits & 3):
            return name
    raise AssertionError("unreachable")


def _check_cid(cid: bytes, what: str, limit: int = MAX_CID_LEN) -> bytes:
    cid = bytes(cid)
    if len(cid) > limit:
        raise ValueError("%s longer than %d bytes" % (what, limit))
    return cid


def build_long_header(version: int, ptype: str, dcid: bytes, scid: bytes, pn: int,
                      pn_len: int, payload_len: int, token: bytes = b"",
                      reserved: int = 0, length_size: Optional[int] = None,
                      tag_len: int = TAG_LEN, fixed_bit: int = 1) -> bytes:
    """Complete unprotected Initial / 0-RTT / Handshake header including pn.

    `payload_len` is the length of the PLAINTEXT payload (frames); the Length
    field is written as pn_len + payload_len + tag_len (tag_len defaults to the
    16 byte AEAD tag).  To pass an already-sealed length use tag_len=0.
    `length_size`: None = minimal varint, or 1/2/4/8 to force the size
    (aioquic always writes 2 bytes).  `token` is only legal for Initial.
    """
    if ptype not in (PT_INITIAL, PT_ZERO_RTT, PT_HANDSHAKE):
        raise ValueError("build_long_header handles initial/0rtt/handshake only")
    if token and ptype != PT_INITIAL:
        raise ValueError("only Initial packets carry a token")
    if not 0 <= reserved <= 3:
        raise ValueError("reserved bits are a 2 bit value")
    dcid = _check_cid(dcid, "dcid")
    scid = _check_cid(scid, "scid")
    first = 0x80 | ((fixed_bit & 1) << 6) | (long_type_bits(version, ptype) << 4) \
        | (reserved << 2) | (pn_len - 1 if 1 <= pn_len <= 4 else _bad_pn_len())
    out = bytearray([first])
    out += version.to_bytes(4, "big")
    out.append(len(dcid)); out += dcid
    out.append(len(scid)); out += scid
    if ptype == PT_INITIAL:
        out += enc_varint(len(token)); out += token
    length = pn_len + payload_len + tag_len
    out += enc_varint(length) if length_size is None else enc_varint_n(length, length_size)
    out += truncate_pn(pn, pn_len)
    return bytes(out)


def _bad_pn_len():
    raise ValueError("pn_len must be 1..4")


def build_short_header(dcid: bytes, pn: int, pn_len: int, key_phase: int = 0,
                       spin: int = 0, reserved: int = 0, fixed_bit: int = 1) -> bytes:
    """Complete unprotected 1-RTT header: 0|1|S|RR|K|PP, DCID, truncated pn."""
    if not 1 <= pn_len <= 4:
        _bad_pn_len()
    if not 0 <= reserved <= 3:
        raise ValueError("reserved bits are a 2 bit value")
    first = ((fixed_bit & 1) << 6) | ((spin & 1) << 5) | (reserved << 3) \
        | ((key_phase & 1) << 2) | (pn_len - 1)
    return bytes([first]) + bytes(dcid) + truncate_pn(pn, pn_len)


@dataclass
class PacketInfo:
    """Unprotected-part description of one packet inside a datagram.

    start / end / pn_offset are ABSOLUTE offsets into the datagram; use
    `pn_offset_rel` (= pn_offset - start) together with datagram[start:end]
    when calling `unprotect`.
    """
    ptype: str
    version: Optional[int]
    dcid: bytes
    scid: Optional[bytes]
    token: Optional[bytes]            # Initial token (b"" if empty), else None
    length: Optional[int]             # value of the Length field, or None
    pn_offset: Optional[int]          # None for retry / vn / unknown
    start: int
    end: int
    first_byte: int
    supported_versions: Optional[list] = None   # VN only
    retry_token: Optional[bytes] = None         # Retry only
    retry_tag: Optional[bytes] = None           # Retry only

    @property
    def pn_offset_rel(self) -> Optional[int]:
        return None if self.pn_offset is None else self.pn_offset - self.start

    @property
    def is_long(self) -> bool:
        return bool(self.first_byte & 0x80)

    @property
    def fixed_bit(self) -> int:
        return (self.first_byte >> 6) & 1


class PacketList(list):
    """list[PacketInfo] plus `trailing_padding`: number of zero bytes that
    follow the last packet of the datagram (0 if none)."""
    trailing_padding: int = 0


def split_datagram(data: bytes, short_dcid_len: int,
                   require_fixed_bit: bool = True) -> PacketList:
    """Walk the coalesced packets of one UDP datagram without decrypting.

    * long header Initial / 0-RTT / Handshake packets end where their Length
      field says; short header, Retry, Version Negotiation and unknown-version
      long header packets extend to the end of the datagram
    * a run of zero bytes reaching the end of the datagram AFTER at least one
      packet is datagram padding: reported in `.trailing_padding`, not a packet
    * ParseError on truncated / malformed headers: CID length > 20 for v1/v2,
      Length pointing past the datagram, Retry shorter than its tag, VN list
      not a multiple of 4, and (unless require_fixed_bit=False, for peers that
      negotiated grease_quic_bit) a clear fixed bit in a v1/v2 packet
    """
    data = bytes(data)
    out = PacketList()
    n = len(data)
    if n == 0:
        raise ParseError("empty datagram")
    pos = 0
    while pos < n:
        start = pos
        first = data[pos]
        if out and first == 0 and not any(data[pos:]):
            out.trailing_padding = n - pos
            break
        if first & 0x80:
            ver_b, p = _take(data, pos + 1, 4, "version")
            version = int.from_bytes(ver_b, "big")
            known = version in _LONG_TYPES
            cid_limit = MAX_CID_LEN if known else 255
            dlen, p = _u8(data, p, "dcid length")
            if dlen > cid_limit:
                raise ParseError("destination connection id too long (%d)" % dlen)
            dcid, p = _take(data, p, dlen, "dcid")
            slen, p = _u8(data, p, "scid length")
            if slen > cid_limit:
                raise ParseError("source connection id too long (%d)" % slen)
            scid, p = _take(data, p, slen, "scid")
            if version == 0:
                rest = data[p:]
                if len(rest) % 4:
                    raise ParseError("version negotiation: list is not a multiple of 4 bytes")
                versions = [int.from_bytes(rest[i:i + 4], "big") for i in range(0, len(rest), 4)]
                out.append(PacketInfo(PT_VN, 0, dcid, scid, None, None, None, start, n,
                                      first, supported_versions=versions))
                pos = n
                continue
            if not known:
                out.append(PacketInfo(PT_UNKNOWN, version, dcid, scid, None, None, None,
                                      start, n, first))
                pos = n
                continue
            if require_fixed_bit and not first & 0x40:
                raise ParseError("fixed bit is zero in a long header packet")
            ptype = long_type_from_bits(version, (first >> 4) & 3)
            if ptype == PT_RETRY:
                rest = data[p:]
                if len(rest) < TAG_LEN:
                    raise ParseError("retry packet shorter than its integrity tag")
                out.append(PacketInfo(PT_RETRY, version, dcid, scid, None, None, None, start, n,
                                      first, retry_token=rest[:-TAG_LEN],
                                      retry_tag=rest[-TAG_LEN:]))
                pos = n
                continue
            token = None
            if ptype == PT_INITIAL:
                tlen, p = dec_varint(data, p)
                token, p = _take(data, p, tlen, "token")
            length, p = dec_varint(data, p)
            end = p + length
            if end > n:
                raise ParseError("Length field (%d) runs past the datagram" % length)
            out.append(PacketInfo(ptype, version, dcid, scid, token, length, p, start, end, first))
            pos = end
        else:
            if require_fixed_bit and not first & 0x40:
                raise ParseError("fixed bit is zero in a short header packet")
            dcid, p = _take(data, pos + 1, short_dcid_len, "short header dcid")
            out.append(PacketInfo(PT_ONE_RTT, None, dcid, None, None, None, p, start, n, first))
            pos = n
    return out


def retry_integrity_tag(version: int, odcid: bytes, retry_without_tag: bytes) -> bytes:
    """RFC 9001 5.8: AES-128-GCM tag over the Retry pseudo-packet."""
    try:
        key, nonce = _RETRY_KEY[version], _RETRY_NONCE[version]
    except KeyError:
        raise ValueError("unsupported QUIC version 0x%08x" % version) from None
    odcid = bytes(odcid)
    if len(odcid) > 255:
        raise ValueError("odcid too long")
    pseudo = bytes([len(odcid)]) + odcid + bytes(retry_without_tag)
    return AESGCM(key).encrypt(nonce, b"", pseudo)


def build_retry(version: int, dcid: bytes, scid: bytes, token: bytes, odcid: bytes,
                first_byte_unused_bits: int = 0) -> bytes:
    if not 0 <= first_byte_unused_bits <= 0x0F:
        raise ValueError("unused bits are a 4 bit value")
    dcid = _check_cid(dcid, "dcid")
    scid = _check_cid(scid, "scid")
    first = 0xC0 | (long_type_bits(version, PT_RETRY) << 4) | first_byte_unused_bits
    body = bytes([first]) + version.to_bytes(4, "big") + bytes([len(dcid)]) + dcid \
        + bytes([len(scid)]) + scid + bytes(token)
    return body + retry_integrity_tag(version, odcid, body)


def verify_retry(packet: bytes, odcid: bytes) -> bool:
    """True iff `packet` (a whole Retry packet) carries the right integrity tag."""
    packet = bytes(packet)
    if len(packet) < 7 + TAG_LEN:
        return False
    version = int.from_bytes(packet[1:5], "big")
    if version not in _RETRY_KEY:
        return False
    return hmac.compare_digest(
        retry_integrity_tag(version, odcid, packet[:-TAG_LEN]), packet[-TAG_LEN:])


def build_version_negotiation(dcid: bytes, scid: bytes, versions: list,
                              first_byte: int = 0x80) -> bytes:
    dcid = _check_cid(dcid, "dcid", 255)
    scid = _check_cid(scid, "scid", 255)
    out = bytearray([(first_byte | 0x80) & 0xFF, 0, 0, 0, 0, len(dcid)])
    out += dcid
    out.append(len(scid)); out += scid
    for v in versions:
        out += int(v).to_bytes(4, "big")
    return bytes(out)


# ---------------------------------------------------------------------------
# frames (RFC 9000 section 19, RFC 9221)
# ---------------------------------------------------------------------------

FRAME_NAMES = {
    0x00: "padding", 0x01: "ping", 0x02: "ack", 0x03: "ack",
    0x04: "reset_stream", 0x05: "stop_sending", 0x06: "crypto", 0x07: "new_token",
    0x08: "stream", 0x09: "stream", 0x0A: "stream", 0x0B: "stream",
    0x0C: "stream", 0x0D: "stream", 0x0E: "stream", 0x0F: "stream",
    0x10: "max_data", 0x11: "max_stream_data",
    0x12: "max_streams_bidi", 0x13: "max_streams_uni",
    0x14: "data_blocked", 0x15: "stream_data_blocked",
    0x16: "streams_blocked_bidi", 0x17: "streams_blocked_uni",
    0x18: "new_connection_id", 0x19: "retire_connection_id",
    0x1A: "path_challenge", 0x1B: "path_response",
    0x1C: "connection_close", 0x1D: "application_close",
    0x1E: "handshake_done",
    0x30: "datagram", 0x31: "datagram",
}
_BASE_TYPE = {}
for _t, _n in FRAME_NAMES.items():
    _BASE_TYPE.setdefault(_n, _t)
del _t, _n

_MAX_STREAMS = 1 << 60

# RFC 9000 Table 3 ("Pkts" column) + RFC 9221: I=Initial H=Handshake 0=0-RTT 1=1-RTT
_FRAME_PKTS = {
    "padding": "IH01", "ping": "IH01", "ack": "IH_1", "reset_stream": "__01",
    "stop_sending": "__01", "crypto": "IH_1", "new_token": "___1", "stream": "__01",
    "max_data": "__01", "max_stream_data": "__01", "max_streams_bidi": "__01",
    "max_streams_uni": "__01", "data_blocked": "__01", "stream_data_blocked": "__01",
    "streams_blocked_bidi": "__01", "streams_blocked_uni": "__01",
    "new_connection_id": "__01", "retire_connection_id": "__01",
    "path_challenge": "__01", "path_response": "___1", "connection_close": "IH01",
    "application_close": "__01", "handshake_done": "___1", "datagram": "__01",
}
_PKT_LETTER = {PT_INITIAL: "I", PT_HANDSHAKE: "H", PT_ZERO_RTT: "0", PT_ONE_RTT: "1"}


def frame_allowed(frame_name: str, ptype: str) -> bool:
    """RFC 9000 Table 3: may this frame appear in this packet type?"""
    return _PKT_LETTER[ptype] in _FRAME_PKTS[frame_name]


def is_ack_eliciting(frame_name: str) -> bool:
    if frame_name not in _FRAME_PKTS:
        raise ValueError("unknown frame name %r" % (frame_name,))
    return frame_name not in ("ack", "padding", "connection_close", "application_close")


def _acked_from_fields(largest: int, first_range: int, ranges: Iterable[tuple[int, int]]
                       ) -> Optional[list]:
    """Inclusive (lo, hi) ranges, descending; None if a number would go negative."""
    if first_range > largest:
        return None
    lo = largest - first_range
    acked = [(lo, largest)]
    for gap, length in ranges:
        hi = lo - gap - 2
        if hi < 0 or length > hi:
            return None
        lo = hi - length
        acked.append((lo, hi))
    return acked


def parse_frames(payload: bytes, strict: bool = True) -> list:
    """Parse a whole packet payload into a list of frame dicts.

    ParseError on truncation or an unknown frame type.  With strict=True
    (default) FrameEncodingError on complete-but-invalid frames: ACK ranges
    reaching below zero, NEW_CONNECTION_ID with cid length 0 or > 20 or
    retire_prior_to > seq, stream offset + length > 2**62 - 1, MAX_STREAMS /
    STREAMS_BLOCKED above 2**60.  With strict=False such frames are returned
    as parsed (an ACK then has "acked": None).

    Every dict has "type" (wire type) and "name".  A frame whose type was
    written with a longer-than-minimal varint additionally has
    "type_nonminimal": True (RFC 9000 12.4 allows treating that as an error).

    Fields by name:
      padding               length (consecutive 0x00 bytes collapsed into one dict)
      ping, handshake_done  -
      ack                   largest, delay, first_range, ranges [(gap, len)], ecn
                            (ect0, ect1, ce) | None, acked [(lo, hi)] inclusive, descending
      reset_stream          stream_id, error_code, final_size
      stop_sending          stream_id, error_code
      crypto                offset, data
      new_token             token
      stream                stream_id, offset, data, fin, has_len, has_off
      max_data, data_blocked, max_streams_bidi/_uni, streams_blocked_bidi/_uni
                            maximum
      max_stream_data, stream_data_blocked
                            stream_id, maximum
      new_connection_id     seq, retire_prior_to, cid, reset_token
      retire_connection_id  seq
      path_challenge, path_response
                            data (8 bytes)
      connection_close      error_code, frame_type, reason (bytes)
      application_close     error_code, reason (bytes)
      datagram              data, has_len
    """
    buf = bytes(payload)
    n = len(buf)
    pos = 0
    frames = []
    while pos < n:
        if buf[pos] == 0:
            start = pos
            while pos < n and buf[pos] == 0:
                pos += 1
            frames.append({"type": 0, "name": "padding", "length": pos - start})
            continue
        type_pos = pos
        ftype, pos = dec_varint(buf, pos)
        name = FRAME_NAMES.get(ftype)
        if name is None:
            raise ParseError("unknown frame type 0x%x" % ftype)
        f = {"type": ftype, "name": name}
        if pos - type_pos != varint_size(ftype):
            f["type_nonminimal"] = True
        if name == "padding":          # only reachable through a non-minimal type
            f["length"] = pos - type_pos
        elif name in ("ping", "handshake_done"):
            pass
        elif name == "ack":
            largest, pos = dec_varint(buf, pos)
            delay, pos = dec_varint(buf, pos)
            count, pos = dec_varint(buf, pos)
            first_range, pos = dec_varint(buf, pos)
            if count > (n - pos) // 2:
                raise ParseError("ack: range count %d exceeds remaining data" % count)
            ranges = []
            for _ in range(count):
                gap, pos = dec_varint(buf, pos)
                length, pos = dec_varint(buf, pos)
                ranges.append((gap, length))
            ecn = None
            if ftype == 0x03:
                e0, pos = dec_varint(buf, pos)
                e1, pos = dec_varint(buf, pos)
                ce, pos = dec_varint(buf, pos)
                ecn = (e0, e1, ce)
            acked = _acked_from_fields(largest, first_range, ranges)
            if acked is None and strict:
                raise FrameEncodingError("ack: ranges reach below packet number 0")
            f.update(largest=largest, delay=delay, first_range=first_range,
                     ranges=ranges, ecn=ecn, acked=acked)
        elif name == "reset_stream":
            sid, pos = dec_varint(buf, pos)
            err, pos = dec_varint(buf, pos)
            fin, pos = dec_varint(buf, pos)
            f.update(stream_id=sid, error_code=err, final_size=fin)
        elif name == "stop_sending":
            sid, pos = dec_varint(buf, pos)
            err, pos = dec_varint(buf, pos)
            f.update(stream_id=sid, error_code=err)
        elif name == "crypto":
            off, pos = dec_varint(buf, pos)
            ln, pos = dec_varint(buf, pos)
            data, pos = _take(buf, pos, ln, "crypto data")
            if strict and off + ln > VARINT_MAX:
                raise FrameEncodingError("crypto: offset + length exceeds 2**62 - 1")
            f.update(offset=off, data=data)
        elif name == "new_token":
            ln, pos = dec_varint(buf, pos)
            tok, pos = _take(buf, pos, ln, "token")
            if strict and ln == 0:
                raise FrameEncodingError("new_token: empty token")
            f.update(token=tok)
        elif name == "stream":
            has_off = bool(ftype & 0x04)
            has_len = bool(ftype & 0x02)
            fin = bool(ftype & 0x01)
            sid, pos = dec_varint(buf, pos)
            off = 0
            if has_off:
                off, pos = dec_varint(buf, pos)
            if has_len:
                ln, pos = dec_varint(buf, pos)
                data, pos = _take(buf, pos, ln, "stream data")
            else:
                data, pos = buf[pos:], n
            if strict and off + len(data) > VARINT_MAX:
                raise FrameEncodingError("stream: offset + length exceeds 2**62 - 1")
            f.update(stream_id=sid, offset=off, data=data, fin=fin,
                     has_len=has_len, has_off=has_off)
        elif name in ("max_data", "data_blocked"):
            v, pos = dec_varint(buf, pos)
            f.update(maximum=v)
        elif name in ("max_stream_data", "stream_data_blocked"):
            sid, pos = dec_varint(buf, pos)
            v, pos = dec_varint(buf, pos)
            f.update(stream_id=sid, maximum=v)
        elif name in ("max_streams_bidi", "max_streams_uni",
                      "streams_blocked_bidi", "streams_blocked_uni"):
            v, pos = dec_varint(buf, pos)
            if strict and v > _MAX_STREAMS:
                raise FrameEncodingError("%s: %d exceeds 2**60" % (name, v))
            f.update(maximum=v)
        elif name == "new_connection_id":
            seq, pos = dec_varint(buf, pos)
            rpt, pos = dec_varint(buf, pos)
            ln, pos = _u8(buf, pos, "cid length")
            if strict and not 1 <= ln <= MAX_CID_LEN:
                raise FrameEncodingError("new_connection_id: cid length %d" % ln)
            cid, pos = _take(buf, pos, ln, "cid")
            tok, pos = _take(buf, pos, 16, "stateless reset token")
            if strict and rpt > seq:
                raise FrameEncodingError("new_connection_id: retire_prior_to > sequence number")
            f.update(seq=seq, retire_prior_to=rpt, cid=cid, reset_token=tok)
        elif name == "retire_connection_id":
            seq, pos = dec_varint(buf, pos)
            f.update(seq=seq)
        elif name in ("path_challenge", "path_response"):
            data, pos = _take(buf, pos, 8, name)
            f.update(data=data)
        elif name == "connection_close":
            err, pos = dec_varint(buf, pos)
            ft, pos = dec_varint(buf, pos)
            ln, pos = dec_varint(buf, pos)
            reason, pos = _take(buf, pos, ln, "reason phrase")
            f.update(error_code=err, frame_type=ft, reason=reason)
        elif name == "application_close":
            err, pos = dec_varint(buf, pos)
            ln, pos = dec_varint(buf, pos)
            reason, pos = _take(buf, pos, ln, "reason phrase")
            f.update(error_code=err, reason=reason)
        elif name == "datagram":
            has_len = bool(ftype & 0x01)
            if has_len:
                ln, pos = dec_varint(buf, pos)
                data, pos = _take(buf, pos, ln, "datagram data")
            else:
                data, pos = buf[pos:], n
            f.update(data=data, has_len=has_len)
        else:  # pragma: no cover
            raise AssertionError(name)
        frames.append(f)
    return frames


def ack_frame_from_ranges(ranges_desc: list, delay: int, ecn=None) -> dict:
    """Build an ack frame dict from inclusive (lo, hi) ranges in DESCENDING
    order.  Ranges must be disjoint and non-adjacent (a gap of at least one
    unacknowledged number between them), as the wire format cannot express
    anything else."""
    if not ranges_desc:
        raise ValueError("an ACK frame needs at least one range")
    norm = [(int(lo), int(hi)) for lo, hi in ranges_desc]
    for lo, hi in norm:
        if lo < 0 or hi < lo or hi > VARINT_MAX:
            raise ValueError("bad ack range (%d, %d)" % (lo, hi))
    lo0, hi0 = norm[0]
    ranges = []
    prev_lo = lo0
    for lo, hi in norm[1:]:
        gap = prev_lo - hi - 2
        if gap < 0:
            raise ValueError("ack ranges must be descending and non-adjacent")
        ranges.append((gap, hi - lo))
        prev_lo = lo
    ecn_t = None if ecn is None else tuple(int(x) for x in ecn)
    if ecn_t is not None and len(ecn_t) != 3:
        raise ValueError("ecn must be (ect0, ect1, ce)")
    return {
        "type": 0x03 if ecn_t is not None else 0x02, "name": "ack",
        "largest": hi0, "delay": int(delay), "first_range": hi0 - lo0,
        "ranges": ranges, "ecn": ecn_t, "acked": norm,
    }


def _frame_name(f: dict) -> str:
    name = f.get("name")
    if name is None:
        try:
            name = FRAME_NAMES[f["type"]]
        except KeyError:
            raise ValueError("frame needs a known 'name' or 'type'") from None
    if name not in _FRAME_PKTS:
        raise ValueError("unknown frame name %r" % (name,))
    return name


def encode_frame(f: dict) -> bytes:
    """Inverse of parse_frames for one frame dict.

    The wire type is derived from "name" plus the flag fields (ecn for ack;
    fin / has_len / has_off for stream, the latter two default to True;
    has_len for datagram, default True).  If only "type" is given the name is
    looked up from it, and the flag fields default from the type's bits.
    An ack is encoded from "acked" when present and not None, otherwise from
    largest / first_range / ranges.  A frame with "type_nonminimal" is
    re-encoded with a 2 byte type.
    """
    name = _frame_name(f)
    ftype = f.get("type")
    ev = enc_varint

    def typ(t: int) -> bytes:
        return enc_varint_n(t, 2) if f.get("type_nonminimal") else enc_varint(t)

    if name == "padding":
        if f.get("type_nonminimal"):
            return typ(0)
        return bytes(f.get("length", 1))
    if name == "ping":
        return typ(0x01)
    if name == "handshake_done":
        return typ(0x1E)
    if name == "ack":
        if f.get("acked") is not None:
            g = ack_frame_from_ranges(f["acked"], f.get("delay", 0), f.get("ecn"))
        else:
            g = f
        ecn = g.get("ecn")
        ranges = list(g.get("ranges", ()))
        out = typ(0x03 if ecn is not None else 0x02) + ev(g["largest"]) + ev(g.get("delay", 0)) \
            + ev(len(ranges)) + ev(g["first_range"])
        for gap, length in ranges:
            out += ev(gap) + ev(length)
        if ecn is not None:
            out += ev(ecn[0]) + ev(ecn[1]) + ev(ecn[2])
        return out
    if name == "reset_stream":
        return typ(0x04) + ev(f["stream_id"]) + ev(f["error_code"]) + ev(f["final_size"])
    if name == "stop_sending":
        return typ(0x05) + ev(f["stream_id"]) + ev(f["error_code"])
    if name == "crypto":
        data = bytes(f["data"])
        return typ(0x06) + ev(f.get("offset", 0)) + ev(len(data)) + data
    if name == "new_token":
        tok = bytes(f["token"])
        return typ(0x07) + ev(len(tok)) + tok
    if name == "stream":
        tbits = ftype if isinstance(ftype, int) and 0x08 <= ftype <= 0x0F else 0x0E
        has_off = bool(f.get("has_off", tbits & 0x04))
        has_len = bool(f.get("has_len", tbits & 0x02))
        fin = bool(f["fin"]) if "fin" in f else bool(tbits & 0x01 and tbits == ftype)
        off = f.get("offset", 0)
        if off and not has_off:
            raise ValueError("stream: non-zero offset needs has_off")
        data = bytes(f.get("data", b""))
        out = typ(0x08 | (0x04 if has_off else 0) | (0x02 if has_len else 0) | (0x01 if fin else 0))
        out += ev(f["stream_id"])
        if has_off:
            out += ev(off)
        if has_len:
            out += ev(len(data))
        return out + data
    if name in ("max_data", "data_blocked", "max_streams_bidi", "max_streams_uni",
                "streams_blocked_bidi", "streams_blocked_uni"):
        return typ(_BASE_TYPE[name]) + ev(f["maximum"])
    if name in ("max_stream_data", "stream_data_blocked"):
        return typ(_BASE_TYPE[name]) + ev(f["stream_id"]) + ev(f["maximum"])
    if name == "new_connection_id":
        cid = bytes(f["cid"])
        tok = bytes(f["reset_token"])
        if len(cid) > 255 or len(tok) != 16:
            raise ValueError("new_connection_id: bad cid / reset token length")
        return typ(0x18) + ev(f["seq"]) + ev(f["retire_prior_to"]) + bytes([len(cid)]) + cid + tok
    if name == "retire_connection_id":
        return typ(0x19) + ev(f["seq"])
    if name in ("path_challenge", "path_response"):
        data = bytes(f["data"])
        if len(data) != 8:
            raise ValueError("%s data must be 8 bytes" % name)
        return typ(_BASE_TYPE[name]) + data
    if name == "connection_close":
        reason = bytes(f.get("reason", b""))
        return typ(0x1C) + ev(f["error_code"]) + ev(f.get("frame_type", 0)) + ev(len(reason)) + reason
    if name == "application_close":
        reason = bytes(f.get("reason", b""))
        return typ(0x1D) + ev(f["error_code"]) + ev(len(reason)) + reason
    if name == "datagram":
        tbits = ftype if ftype in (0x30, 0x31) else 0x31
        has_len = bool(f.get("has_len", tbits & 0x01))
        data = bytes(f.get("data", b""))
        return typ(0x31 if has_len else 0x30) + (ev(len(data)) if has_len else b"") + data
    raise AssertionError(name)  # pragma: no cover


def encode_frames(frames: Iterable[dict]) -> bytes:
    """Concatenate; ValueError if a length-less stream/datagram frame is not last."""
    frames = list(frames)
    out = bytearray()
    for i, f in enumerate(frames):
        enc = encode_frame(f)
        if i != len(frames) - 1 and _frame_name(f) in ("stream", "datagram"):
            first, _ = dec_varint(enc, 0)
            if (first in FRAME_NAMES and FRAME_NAMES[first] == "stream" and not first & 0x02) \
                    or first == 0x30:
                raise ValueError("a frame without length must be the last frame")
        out += enc
    return bytes(out)


# ---------------------------------------------------------------------------
# transport parameters (RFC 9000 18, RFC 9221, RFC 9368, RFC 9287)
# ---------------------------------------------------------------------------

TP_NAMES = {
    0x00: "original_destination_connection_id",
    0x01: "max_idle_timeout",
    0x02: "stateless_reset_token",
    0x03: "max_udp_payload_size",
    0x04: "initial_max_data",
    0x05: "initial_max_stream_data_bidi_local",
    0x06: "initial_max_stream_data_bidi_remote",
    0x07: "initial_max_stream_data_uni",
    0x08: "initial_max_streams_bidi",
    0x09: "initial_max_streams_uni",
    0x0A: "ack_delay_exponent",
    0x0B: "max_ack_delay",
    0x0C: "disable_active_migration",
    0x0D: "preferred_address",
    0x0E: "active_connection_id_limit",
    0x0F: "initial_source_connection_id",
    0x10: "retry_source_connection_id",
    0x11: "version_information",
    0x20: "max_datagram_frame_size",
    0x2AB2: "grease_quic_bit",
}
TP_IDS = {v: k for k, v in TP_NAMES.items()}

_TP_INT = {0x01, 0x03, 0x04, 0x05, 0x06, 0x07, 0x08, 0x09, 0x0A, 0x0B, 0x0E, 0x20}
_TP_FLAG = {0x0C, 0x2AB2}
_TP_CID = {0x00, 0x0F, 0x10}
_TP_SERVER_ONLY = {0x00, 0x02, 0x0D, 0x10}


def _tp_id(key) -> int:
    if isinstance(key, str):
        try:
            return TP_IDS[key]
        except KeyError:
            raise ValueError("unknown transport parameter name %r" % key) from None
    return int(key)


def _encode_preferred_address(d: dict) -> bytes:
    v4 = d.get("ipv4")
    v6 = d.get("ipv6")
    out = ipaddress.IPv4Address(v4 if v4 is not None else "0.0.0.0").packed
    out += int(d.get("ipv4_port", 0)).to_bytes(2, "big")
    out += ipaddress.IPv6Address(v6 if v6 is not None else "::").packed
    out += int(d.get("ipv6_port", 0)).to_bytes(2, "big")
    cid = bytes(d["cid"])
    tok = bytes(d["reset_token"])
    if len(cid) > 255 or len(tok) != 16:
        raise ValueError("preferred_address: bad cid / reset token length")
    return out + bytes([len(cid)]) + cid + tok


def _encode_version_information(d: dict) -> bytes:
    out = int(d["chosen"]).to_bytes(4, "big")
    for v in d.get("available", ()):
        out += int(v).to_bytes(4, "big")
    return out


def encode_transport_parameters(params, length_size: Optional[int] = None) -> bytes:
    """Encode an ORDERED list of (id_or_name, value) pairs, exactly in that order.

    value may be
      * bytes           - written as is
      * bool / None     - True or None: zero-length value (flag parameters);
                          False: the parameter is skipped
      * int             - written as a minimal varint
      * dict            - {"ipv4","ipv4_port","ipv6","ipv6_port","cid","reset_token"}
                          for preferred_address (0x0d), {"chosen","available"} for
                          version_information (0x11)
    A dict {name: value} is accepted too (insertion order).  Duplicates are
    emitted as given (useful for negative tests).  `length_size` forces the
    size of every parameter-length varint (None = minimal).
    """
    items = params.items() if isinstance(params, dict) else params
    out = bytearray()
    for key, value in items:
        pid = _tp_id(key)
        if value is False:
            continue
        if value is True or value is None:
            raw = b""
        elif isinstance(value, (bytes, bytearray, memoryview)):
            raw = bytes(value)
        elif isinstance(value, int):
            raw = enc_varint(value)
        elif isinstance(value, dict):
            if pid == 0x0D:
                raw = _encode_preferred_address(value)
            elif pid == 0x11:
                raw = _encode_version_information(value)
            else:
                raise ValueError("dict value only for preferred_address / version_information")
        else:
            raise ValueError("unsupported transport parameter value %r" % (value,))
        out += enc_varint(pid)
        out += enc_varint(len(raw)) if length_size is None else enc_varint_n(len(raw), length_size)
        out += raw
    return bytes(out)


def decode_transport_parameters(data: bytes) -> list:
    """Raw (id, value bytes) pairs in wire order; ParseError if truncated."""
    data = bytes(data)
    pos = 0
    out = []
    while pos < len(data):
        pid, pos = dec_varint(data, pos)
        ln, pos = dec_varint(data, pos)
        raw, pos = _take(data, pos, ln, "transport parameter 0x%x" % pid)
        out.append((pid, raw))
    return out


def _decode_preferred_address(raw: bytes) -> dict:
    v4, p = _take(raw, 0, 4, "preferred_address ipv4")
    p4, p = _take(raw, p, 2, "preferred_address ipv4 port")
    v6, p = _take(raw, p, 16, "preferred_address ipv6")
    p6, p = _take(raw, p, 2, "preferred_address ipv6 port")
    ln, p = _u8(raw, p, "preferred_address cid length")
    cid, p = _take(raw, p, ln, "preferred_address cid")
    tok, p = _take(raw, p, 16, "preferred_address reset token")
    if p != len(raw):
        raise ParseError("preferred_address: %d trailing bytes" % (len(raw) - p))
    return {
        "ipv4": str(ipaddress.IPv4Address(v4)), "ipv4_port": int.from_bytes(p4, "big"),
        "ipv6": str(ipaddress.IPv6Address(v6)), "ipv6_port": int.from_bytes(p6, "big"),
        "cid": cid, "reset_token": tok,
    }


def _decode_version_information(raw: bytes) -> dict:
    if len(raw) < 4 or len(raw) % 4:
        raise ParseError("version_information: length %d is not 4 + 4k" % len(raw))
    vs = [int.from_bytes(raw[i:i + 4], "big") for i in range(0, len(raw), 4)]
    return {"chosen": vs[0], "available": vs[1:]}


def tp_decode_typed(params: list, allow_duplicates: bool = False) -> dict:
    """Typed view of decode_transport_parameters() output.

    Keys are the names in TP_NAMES (unknown ids stay as int keys with raw bytes).
    Integer parameters -> int (ParseError unless the value is exactly one
    varint); flag parameters -> True (ParseError unless empty); connection ids
    and stateless_reset_token -> bytes; preferred_address / version_information
    -> dict.  A repeated id is a ParseError unless allow_duplicates (last wins).
    Value RANGE checks are not done here, see tp_check().
    """
    out = {}
    seen = set()
    for pid, raw in params:
        if pid in seen and not allow_duplicates:
            raise ParseError("transport parameter 0x%x repeated" % pid)
        seen.add(pid)
        key = TP_NAMES.get(pid, pid)
        if pid in _TP_INT:
            v, p = dec_varint(raw, 0)
            if p != len(raw):
                raise ParseError("%s: length does not match its varint" % key)
            out[key] = v
        elif pid in _TP_FLAG:
            if raw:
                raise ParseError("%s: must be empty" % key)
            out[key] = True
        elif pid == 0x0D:
            out[key] = _decode_preferred_address(raw)
        elif pid == 0x11:
            out[key] = _decode_version_information(raw)
        else:
            out[key] = bytes(raw)
    return out


def tp_check(typed: dict, from_server: bool) -> list:
    """List of human-readable violations of RFC 9000 18.2 / 7.4 value rules
    (each would be a TRANSPORT_PARAMETER_ERROR); empty list = fine."""
    bad = []
    g = typed.get
    if not from_server:
        for pid in sorted(_TP_SERVER_ONLY):
            if TP_NAMES[pid] in typed:
                bad.append("%s sent by a client" % TP_NAMES[pid])
    for pid in _TP_CID:
        v = g(TP_NAMES[pid])
        if v is not None and len(v) > MAX_CID_LEN:
            bad.append("%s longer than 20 bytes" % TP_NAMES[pid])
    if g("stateless_reset_token") is not None and len(typed["stateless_reset_token"]) != 16:
        bad.append("stateless_reset_token is not 16 bytes")
    if g("max_udp_payload_size") is not None and typed["max_udp_payload_size"] < 1200:
        bad.append("max_udp_payload_size below 1200")
    if g("ack_delay_exponent") is not None and typed["ack_delay_exponent"] > 20:
        bad.append("ack_delay_exponent above 20")
    if g("max_ack_delay") is not None and typed["max_ack_delay"] >= 1 << 14:
        bad.append("max_ack_delay of 2**14 or more")
    if g("active_connection_id_limit") is not None and typed["active_connection_id_limit"] < 2:
        bad.append("active_connection_id_limit below 2")
    for k in ("initial_max_streams_bidi", "initial_max_streams_uni"):
        if g(k) is not None and typed[k] > _MAX_STREAMS:
            bad.append("%s above 2**60" % k)
    pa = g("preferred_address")
    if pa is not None and not 1 <= len(pa["cid"]) <= MAX_CID_LEN:
        bad.append("preferred_address connection id length %d" % len(pa["cid"]))
    vi = g("version_information")
    if vi is not None:
        if vi["chosen"] == 0 or 0 in vi["available"]:
            bad.append("version_information contains version 0")
    return bad


# ---------------------------------------------------------------------------
# NSS key log
# ---------------------------------------------------------------------------

def parse_keylog(text: str) -> dict:
    """SSLKEYLOGFILE text -> {(label, client_random): secret}.

    Blank lines and '#' comments are skipped; a line that is not
    "<label> <hex> <hex>" raises ParseError."""
    out = {}
    for lineno, line in enumerate(text.splitlines(), 1):
        line = line.strip()
        if not line or line.startswith("#"):
            continue
        parts = line.split()
        if len(parts) != 3:
            raise ParseError("keylog line %d: expected 3 fields" % lineno)
        try:
            out[(parts[0], bytes.fromhex(parts[1]))] = bytes.fromhex(parts[2])
        except ValueError:
            raise ParseError("keylog line %d: bad hex" % lineno) from None
    return out
