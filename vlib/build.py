"""Fresh build of aioquic's C helpers from the working tree of the repository.

The ``*.so`` files under /repo/src/aioquic are untracked build products, so a
change to the ``.c`` sources would be invisible to anything importing them.
Every check therefore compiles both sources (cached by content hash) into a
shadow package directory whose ``.py`` files / sub-packages are symlinks into
the repository, and puts that directory first on ``sys.path``.
"""
import hashlib
import os
import subprocess
import sys
import sysconfig

VERIF = os.path.dirname(os.path.dirname(os.path.abspath(__file__)))
REPO = os.environ.get("VERIF_REPO", "/repo")
BUILD_ROOT = os.path.join(VERIF, ".build")

ASAN_RT = "/usr/lib/llvm-14/lib/clang/14.0.6/lib/linux/libclang_rt.asan-x86_64.so"


class BuildError(Exception):
    pass


def _flags(flavour):
    if flavour == "plain":
        return ["gcc", "-O2"], []
    if flavour == "asan":
        return (
            [
                "clang",
                "-O1",
                "-g",
                "-fno-omit-frame-pointer",
                "-fsanitize=address,undefined",
                "-fno-sanitize=pointer-overflow",
                "-fno-sanitize-recover=undefined",
            ],
            [],
        )
    raise ValueError(flavour)


def shadow(flavour="plain", repo=None):
    """Return a directory to put on sys.path; builds when needed."""
    repo = repo or REPO
    src = os.path.join(repo, "src", "aioquic")
    h = hashlib.sha256()
    h.update(flavour.encode())
    h.update(os.path.realpath(repo).encode())
    h.update(sys.version.encode())
    for m in ("_buffer.c", "_crypto.c"):
        with open(os.path.join(src, m), "rb") as f:
            h.update(f.read())
    root = os.path.join(BUILD_ROOT, h.hexdigest()[:16] + "-" + flavour)
    pkg = os.path.join(root, "aioquic")
    os.makedirs(pkg, exist_ok=True)
    inc = sysconfig.get_paths()["include"]
    cc, extra = _flags(flavour)
    for m in ("_buffer", "_crypto"):
        out = os.path.join(pkg, m + ".abi3.so")
        if os.path.exists(out):
            continue
        tmp = out + ".%d.tmp" % os.getpid()
        cmd = cc + [
            "-shared",
            "-fPIC",
            "-std=c99",
            "-DPy_LIMITED_API=0x030A0000",
            "-I" + inc,
            os.path.join(src, m + ".c"),
            "-o",
            tmp,
        ]
        if m == "_crypto":
            cmd.append("-lcrypto")
        p = subprocess.run(cmd + extra, capture_output=True, text=True)
        if p.returncode != 0:
            raise BuildError("compile of %s failed:\n%s" % (m, p.stderr[-4000:]))
        os.replace(tmp, out)
    # symlinks for everything that is not a C source or a build product
    for name in os.listdir(src):
        if name.endswith((".so", ".c")) or name == "__pycache__":
            continue
        dst = os.path.join(pkg, name)
        if not os.path.lexists(dst):
            try:
                os.symlink(os.path.join(src, name), dst)
            except FileExistsError:
                pass
    for name in os.listdir(pkg):
        p = os.path.join(pkg, name)
        if os.path.islink(p) and not os.path.exists(p):
            try:
                os.unlink(p)
            except OSError:
                pass
    return root


def activate(flavour="plain"):
    """Build and make ``import aioquic`` resolve to the shadow package."""
    root = shadow(flavour)
    if "aioquic" in sys.modules:
        f = getattr(sys.modules["aioquic"], "__file__", "") or ""
        if not f.startswith(root):
            raise BuildError("aioquic imported before build.activate(): %s" % f)
    if root in sys.path:
        sys.path.remove(root)
    sys.path.insert(0, root)
    import aioquic  # noqa

    if not aioquic.__file__.startswith(root):
        raise BuildError("shadow package not first on sys.path")
    return root


def asan_env():
    env = dict(os.environ)
    env["LD_PRELOAD"] = ASAN_RT
    env["ASAN_OPTIONS"] = (
        "detect_leaks=0:allocator_may_return_null=1:abort_on_error=0:"
        "exitcode=99:handle_segv=1:print_summary=1:allocator_release_to_os_interval_ms=-1:quarantine_size_mb=32:malloc_context_size=8"
    )
    env["UBSAN_OPTIONS"] = "print_stacktrace=1:halt_on_error=1:exitcode=99"
    env["PYTHONMALLOC"] = "malloc"
    return env
