"""C02 (b) - live tamper.

A scripted, deterministic exchange between two real endpoints (handshake, with
or without Retry, stream data both ways, key update, pings, close) is driven
datagram by datagram.  At a chosen datagram an altered copy is delivered first,
then the genuine one, and the script continues.  Oracles:

  * the altered datagram raises nothing and terminates nothing;
  * if the datagram holds a single packet, or the alteration lies in the first
    packet's unprotected header, the altered datagram produces no event, no
    outgoing datagram and leaves the endpoint's state digest unchanged;
  * the events of (altered, genuine) taken together equal, as a multiset, the
    events of the genuine datagram alone in the untampered run;
  * the rest of the script ends with the same application-level outcome as the
    untampered run (handshake completed once, same stream bytes, pings
    acknowledged, same termination).
"""
import collections

from . import endpoints as E
from . import refquic as R

CONFIGS = [
    {"name": "v1-aes128", "version": R.V1, "suites": [0x1301], "retry": False, "leaf": "ed25519"},
    {"name": "v1-aes256", "version": R.V1, "suites": [0x1302], "retry": False, "leaf": "ed25519"},  # Ed25519 signatures are deterministic: runs are byte-for-byte comparable
    {"name": "v1-chacha", "version": R.V1, "suites": [0x1303], "retry": False, "leaf": "ed25519"},  # (ECDSA signatures vary in length from run to run)
    {"name": "v2-aes128", "version": R.V2, "suites": [0x1301], "retry": False, "leaf": "ed25519"},
    {"name": "v2-chacha", "version": R.V2, "suites": [0x1303], "retry": False, "leaf": "ed25519"},
    {"name": "v1-retry", "version": R.V1, "suites": [0x1301], "retry": True, "leaf": "ed25519"},
    {"name": "v2-retry", "version": R.V2, "suites": [0x1302], "retry": True, "leaf": "ed25519"},
]


class Run:
    """one execution of the script; `tamper` = (datagram index, function bytes -> bytes) or None"""

    def __init__(self, cfg, tamper=None):
        self.cfg = cfg
        self.tamper = tamper
        self.index = 0
        self.log = []  # (index, direction, bytes)
        self.events = {"c": [], "s": []}
        self.per_datagram_events = {}  # index -> list of event reprs (genuine delivery)
        self.tamper_obs = None
        self.raised = None
        self.early = []
        self.script_errors = []
        self.now = 0.0

    # -- plumbing
    def drain(self, x):
        conn = self.client if x == "c" else self.server
        out = []
        while conn is not None:
            e = conn.next_event()
            if e is None:
                break
            out.append(e)
        self.events[x].extend(out)
        return out

    def digest(self, conn):
        """what accepting a packet would change: handshake progress, receive state of every packet space and stream, what the peer
        granted or announced, keys, the idle deadline.  Send-side state is left out: an undecryptable Handshake-looking packet may
        legitimately make a client retransmit its Initial."""

        def g(o, n, d=None):
            return getattr(o, n, d)

        spaces = tuple((ep.name, sp.discarded, sp.expected_packet_number, sp.largest_received_packet, tuple((r.start, r.stop) for r in sp.ack_queue), sp.largest_acked_packet) for ep, sp in sorted(g(conn, "_spaces", {}).items(), key=lambda kv: kv[0].value))
        streams = tuple((sid, st.receiver.highest_offset, st.receiver.is_finished, st.receiver._buffer_start, len(st.receiver._buffer), tuple((r.start, r.stop) for r in st.sender._acked), st.sender.reset_pending, st.receiver.stop_pending) for sid, st in sorted(g(conn, "_streams", {}).items()))
        keys = tuple((ep.name, g(c.recv, "key_phase"), c.recv.is_valid(), c.send.is_valid()) for ep, c in sorted(g(conn, "_cryptos", {}).items(), key=lambda kv: kv[0].value))
        tls_state = conn.tls.state.name if g(conn, "tls") is not None else None
        return (
            (
                conn._state.name, repr(g(conn, "_close_event")), g(conn, "_handshake_complete"), g(conn, "_handshake_confirmed"), g(conn, "_close_at"), g(conn, "_version"), spaces, streams, keys,
                g(conn, "_remote_max_data"), g(conn, "_remote_max_streams_bidi"), g(conn, "_remote_max_streams_uni"), g(g(conn, "_peer_cid"), "cid"), g(g(conn, "_peer_cid"), "sequence_number"),
                tuple(x.sequence_number for x in g(conn, "_peer_cid_available", [])), tuple(x.sequence_number for x in g(conn, "_host_cids", [])), g(conn, "_retry_count"), g(conn, "_peer_token"),
                g(g(conn, "_local_max_data"), "used"), tuple(sorted(g(conn, "_streams_finished", ()))),
            ),
            tls_state,
        )

    def deliver(self, direction, data):
        """deliver one datagram from the script; applies the tamper at its index"""
        i = self.index
        self.index += 1
        self.log.append((i, direction, data))
        rx = "s" if direction == "c2s" else "c"
        conn = self.server if rx == "s" else self.client
        if self.cfg["retry"] and direction == "c2s":
            infos = packets_of(data)
            if infos and infos[0].ptype == R.PT_INITIAL and not infos[0].token:
                return  # the server's front door answers an Initial without token with (another) Retry; it never reaches the connection
        if conn is None:
            self.early.append(data)  # the server connection does not exist yet (Retry exchange)
            return
        src = E.CLIENT_ADDR if direction == "c2s" else E.SERVER_ADDR
        self.now += 0.001
        if self.tamper is not None and self.tamper[0] == i:
            altered = self.tamper[1](data)
            before = self.digest(conn)
            obs = {"raised": None}
            try:
                if altered is not None:  # None = control: the same calls without any datagram
                    conn.receive_datagram(altered, src, now=self.now)
                ev = self.drain(rx)
                out = conn.datagrams_to_send(now=self.now)
                conn.get_timer()
            except Exception as e:  # noqa
                from .harness import exc_signature

                obs["raised"] = (exc_signature(e), repr(e))
                ev, out = [], []
            obs.update(events=[repr(e) for e in ev], out=[bytes(d) for d, _ in out], digest=self.digest(conn) if obs["raised"] is None else None, altered=altered, genuine=data, direction=direction)
            self.tamper_obs = obs
            self.now += 0.001
            # what the endpoint sent at this point is not lost
            for d in obs["out"]:
                self.deliver("s2c" if direction == "c2s" else "c2s", d)
            self.now += 0.001
        conn.receive_datagram(data, src, now=self.now)
        ev = self.drain(rx)
        self.per_datagram_events[i] = [repr(e) for e in ev]

    def exchange(self, rounds=4):
        for _ in range(rounds):
            self.now += 0.002
            a = self.client.datagrams_to_send(now=self.now)
            for d, _ in a:
                self.deliver("c2s", bytes(d))
            self.now += 0.002
            b = self.server.datagrams_to_send(now=self.now)
            for d, _ in b:
                self.deliver("s2c", bytes(d))
            if not a and not b:
                break

    # -- the script
    def run(self):
        from aioquic import tls as T
        from aioquic.buffer import Buffer
        from aioquic.quic.connection import QuicConnection
        from aioquic.quic.packet import encode_quic_retry, pull_quic_header
        from aioquic.quic.retry import QuicRetryTokenHandler

        cfg = self.cfg
        with E.pinned(("tamper", cfg["name"])):
            suites = [T.CipherSuite(x) for x in cfg["suites"]]
            ccfg = E.client_config(original_version=cfg["version"], supported_versions=[cfg["version"]], cipher_suites=suites)
            scfg = E.server_config(cfg["leaf"], supported_versions=[cfg["version"]], cipher_suites=suites)
            self.client = QuicConnection(configuration=ccfg)
            self.server = None
            self.client.connect(E.SERVER_ADDR, now=self.now)
            odcid = self.client.original_destination_connection_id
            rscid = None
            first = self.client.datagrams_to_send(now=self.now)
            if cfg["retry"]:
                handler = QuicRetryTokenHandler()
                h = pull_quic_header(Buffer(data=first[0][0]), host_cid_length=8)
                rscid = E.os.urandom(8)
                # the token is RSA-OAEP encrypted (fresh OpenSSL randomness): build the Retry packet once per process
                if cfg["name"] not in _RETRY:
                    _RETRY[cfg["name"]] = encode_quic_retry(version=h.version, source_cid=rscid, destination_cid=h.source_cid, original_destination_cid=h.destination_cid, retry_token=handler.create_token(E.CLIENT_ADDR, h.destination_cid, rscid))
                retry = _RETRY[cfg["name"]]
                self.log.append((self.index, "c2s", bytes(first[0][0])))
                self.index += 1
                self.deliver("s2c", retry)
                self.now += 0.001
                first = self.client.datagrams_to_send(now=self.now)
            self.server = QuicConnection(configuration=scfg, original_destination_connection_id=odcid, retry_source_connection_id=rscid)
            early, self.early = self.early, []
            for d in early + [bytes(d) for d, _ in first]:
                self.deliver("c2s", d)
            self.exchange(6)

            def step(name, fn):
                # a broken exchange makes later API calls fail: that is an outcome, not a harness error
                try:
                    fn()
                except Exception as e:  # noqa
                    self.script_errors.append((name, type(e).__name__))

            # application data both ways
            step("client-stream", lambda: self.client.send_stream_data(self.client.get_next_available_stream_id(), bytes(range(256)) * 12, end_stream=True))
            self.exchange(3)
            step("server-stream", lambda: self.server.send_stream_data(self.server.get_next_available_stream_id(is_unidirectional=True), b"reply" * 300, end_stream=True))
            step("server-ping", lambda: self.server.send_ping(11))
            self.exchange(3)
            # key update, more data
            step("key-update", lambda: self.client.request_key_update())
            step("client-ping", lambda: self.client.send_ping(12))
            step("client-stream-2", lambda: self.client.send_stream_data(self.client.get_next_available_stream_id(), b"after-key-update" * 20, end_stream=True))
            self.exchange(3)
            step("server-ping-2", lambda: self.server.send_ping(13))
            self.exchange(3)
            # close
            step("close", lambda: self.client.close(error_code=0x42, reason_phrase="done"))
            self.exchange(2)
            # let timers run out
            for conn, x in ((self.client, "c"), (self.server, "s")):
                for _ in range(12):
                    t = conn.get_timer()
                    if t is None:
                        break
                    self.now = max(self.now, t)
                    conn.handle_timer(now=self.now)
                    self.drain(x)
        return self

    def outcome(self):
        """application-level result"""
        res = {}
        for x in ("c", "s"):
            data = collections.defaultdict(bytes)
            fin = set()
            counts = collections.Counter()
            term = None
            pings = []
            for e in self.events[x]:
                n = type(e).__name__
                counts[n] += 1
                if n == "StreamDataReceived":
                    data[e.stream_id] += e.data
                    if e.end_stream:
                        fin.add(e.stream_id)
                elif n == "ConnectionTerminated":
                    term = (int(e.error_code), e.reason_phrase)
                elif n == "PingAcknowledged":
                    pings.append(e.uid)
            res[x] = (tuple(sorted(data.items())), tuple(sorted(fin)), counts["HandshakeCompleted"], tuple(sorted(pings)), term, tuple(self.script_errors))
        return res


_BASE = {}
_NULL = {}
_RETRY = {}


def control(cfg, k):
    """the run in which nothing is delivered at the tamper point (but the same API calls are made)"""
    key = (cfg["name"], k)
    if key not in _NULL:
        if len(_NULL) > 40:
            _NULL.clear()
        _NULL[key] = Run(cfg, tamper=(k, lambda data: None)).run()
    return _NULL[key]



def baseline(cfg):
    if cfg["name"] not in _BASE:
        r = Run(cfg).run()
        # determinism: a second run must reproduce the first
        r2 = Run(cfg).run()
        # (RSA-PSS signatures are salted by OpenSSL: the bytes may differ, the shape may not)
        if [(x, len(d)) for _, x, d in r.log] != [(x, len(d)) for _, x, d in r2.log]:
            raise RuntimeError("harness: the scripted exchange is not deterministic (%s)" % cfg["name"])
        oc = r.outcome()
        if oc["c"][2] != 1 or oc["s"][2] != 1 or oc["s"][4] is None:
            raise RuntimeError("harness: the untampered scripted exchange does not complete (%s): %r" % (cfg["name"], oc))
        _BASE[cfg["name"]] = r
    return _BASE[cfg["name"]]


def packets_of(data, cid_len=8):
    try:
        return list(R.split_datagram(data, cid_len, require_fixed_bit=False))
    except Exception:  # noqa
        return []


def positions_quick(data, rnd):
    """byte positions worth altering: all header fields of every packet, packet number, start/end of payload, tag"""
    pos = set()
    for info in packets_of(data):
        s, e = info.start, info.end
        hdr_end = s + (info.pn_offset_rel if info.pn_offset_rel is not None else e - s)  # Retry: no protected part, all header
        hdr = list(range(s, min(hdr_end + 5, e)))
        pos.update(hdr if len(hdr) <= 40 else hdr[:24] + rnd.sample(hdr[24:], 10) + hdr[-6:])
        pos.update(rnd.sample(range(max(s, e - 16), e), min(3, e - max(s, e - 16))))
        for _ in range(4):
            pos.add(rnd.randrange(s, e))
    pos.add(rnd.randrange(len(data)))
    return sorted(p for p in pos if p < len(data))


def alter_fn(pos, mask):
    """mask: an int (one byte) or a hex string (several consecutive bytes)"""

    def f(data):
        b = bytearray(data)
        if isinstance(mask, str):
            for i, m in enumerate(bytes.fromhex(mask)):
                b[pos + i] ^= m
        else:
            b[pos] ^= mask
        return bytes(b)

    return f


def _to_zero(data, pos, mask):
    return bytes(a ^ b for a, b in zip(data[pos : pos + 4], bytes.fromhex(mask))) == bytes(4)


def forges_version_negotiation(data):
    """the (altered) datagram starts with a long-header packet whose Version field is 0"""
    return len(data) >= 5 and data[0] & 0x80 and data[1:5] == bytes(4)


def version_alterations(data):
    """for every long-header packet: the Version field turned into 0 (what a Version Negotiation packet carries), into the other QUIC version and into
    an unknown one -> [(position, hex mask)]"""
    out = []
    for info in packets_of(data):
        if not info.is_long or info.version in (None, 0):
            continue
        v = info.version.to_bytes(4, "big")
        for target in (0, R.V2 if info.version == R.V1 else R.V1, 0x1A2A3A4A):
            out.append((info.start + 1, bytes(a ^ b for a, b in zip(v, target.to_bytes(4, "big"))).hex()))
    return out


def judge(ctx, cfg, base, run, k, pos, mask, case):
    base = control(cfg, k)
    null = base.tamper_obs
    obs = run.tamper_obs
    if obs is None:
        raise RuntimeError("harness: datagram %d was not reached in the tampered run" % k)
    data = obs["genuine"]
    infos = packets_of(data)
    rx = "server" if obs["direction"] == "c2s" else "client"
    where = "datagram %d (%s, %d bytes, %d packets %s), byte %d xor 0x%s" % (k, obs["direction"], len(data), len(infos), [i.ptype for i in infos], pos, mask if isinstance(mask, str) else "%02x" % mask)
    if obs["raised"] is not None:
        ctx.violation("altered-packet-raised-" + obs["raised"][0], "%s: receive_datagram / next_event / datagrams_to_send raised %s on the %s" % (where, obs["raised"][1], rx), case)
        return
    if any("ConnectionTerminated" in e for e in obs["events"]):
        ctx.violation("altered-packet-closed-the-connection", "%s: the %s reported %s" % (where, rx, [e[:120] for e in obs["events"] if "ConnectionTerminated" in e]), case)
        return
    inside = [i for i in infos if i.start <= pos < i.end]
    single = len(infos) == 1 and bool(inside)
    in_first = bool(infos) and infos[0].start <= pos < infos[0].end
    if single or (in_first and pos < infos[0].start + (infos[0].pn_offset_rel or 0) and infos[0].ptype != R.PT_ONE_RTT):
        # the whole datagram must be without effect (an altered unprotected header of the first packet makes the rest unreachable or unauthentic as well:
        # aioquic stops processing a datagram at a packet it cannot parse or route)
        if single:
            # compared with the control run, which makes the same calls at this point without delivering anything
            if obs["digest"] is not None and null["digest"][0][4] is None:
                # a server arms its idle timer on the very first datagram, whatever it contains
                obs["digest"] = (obs["digest"][0][:4] + (None,) + obs["digest"][0][5:], obs["digest"][1])
            if obs["out"] != null["out"]:
                ctx.cls("tamper:altered-packet-followed-by-different-output")  # e.g. a client retransmitting its Initial: not forbidden
            if obs["events"] != null["events"]:
                ctx.violation("altered-packet-emitted-events", "%s: the %s emitted %r (control: %r)" % (where, rx, [e[:100] for e in obs["events"]], [e[:100] for e in null["events"]]), case)
            elif obs["digest"] != null["digest"] and not (
                # a server builds its TLS context, packet spaces and Initial keys when the first Initial-looking packet arrives: not progress,
                # as long as nothing has been received in any space and the connection state has not moved
                null["digest"][1] is None and obs["digest"][1] == "SERVER_EXPECT_CLIENT_HELLO" and obs["digest"][0][:5] == null["digest"][0][:5]
                and all(sp[2] == 0 and sp[3] == -1 and not sp[4] for sp in obs["digest"][0][6]) and not obs["digest"][0][7]
            ):
                # (a server builds its TLS context and Initial keys when the first Initial-looking packet arrives: that is not progress)
                d = [i for i, (a, b) in enumerate(zip(obs["digest"][0], null["digest"][0])) if a != b]
                ctx.violation("altered-packet-changed-endpoint-state", "%s: the %s's state digest differs from the control run in fields %r (e.g. %r vs %r); TLS state %s vs %s" % (where, rx, d, str(obs["digest"][0][d[0]])[:200] if d else None, str(null["digest"][0][d[0]])[:200] if d else None, obs["digest"][1], null["digest"][1]), case)
    # the genuine datagram is still accepted: the rest of the scripted exchange ends as in the control run
    if run.outcome() != base.outcome():
        a, b = run.outcome(), base.outcome()
        diff = [(x, i) for x in ("c", "s") for i in range(6) if a[x][i] != b[x][i]]
        ctx.violation("genuine-packet-not-accepted-after-altered-one", "%s: after the altered and then the genuine datagram the scripted exchange ends differently from the control run (fields %r: e.g. %r vs %r)" % (where, diff, str(a[diff[0][0]][diff[0][1]])[:150], str(b[diff[0][0]][diff[0][1]])[:150]), case)


def tamper_task(ctx, config, thorough, part, nparts):
    import random

    cfg = CONFIGS[config]
    base = baseline(cfg)
    rnd = random.Random(ctx.seed * 7919 + config)
    n = 0
    for k, direction, data in base.log:
        if cfg["retry"] and k == 0:
            continue  # the first Initial of a Retry exchange is answered by the front door, not by a connection
        positions = range(len(data)) if thorough else positions_quick(data, rnd)
        todo = []
        for pos in positions:
            masks = (0x01, 0x02, 0x04, 0x08, 0x10, 0x20, 0x40, 0x80, 0xFF) if thorough else ((0x01, 0x02, 0x04, 0x08, 0x10, 0x20, 0x40, 0x80) if pos in [i.start for i in packets_of(data)] else (0xFF if rnd.random() < 0.25 else 1 << rnd.randrange(8),))
            todo.extend((pos, m) for m in sorted(set(masks)))
        # (a long-header packet whose Version field is 0 IS a Version Negotiation packet: unauthenticated by design, and a client that has not yet
        #  processed any packet of the server acts on it - RFC 9000 6.2.  That alteration is therefore applied only to later datagrams.)
        first_s2c = min(kk for kk, dd, _ in base.log if dd == "s2c")
        todo.extend((p_, m_) for p_, m_ in version_alterations(data) if not (direction == "s2c" and k == first_s2c and _to_zero(data, p_, m_)))
        for pos, mask in todo:
            if direction == "s2c" and k == first_s2c and forges_version_negotiation(alter_fn(pos, mask)(data)):
                continue  # (see above: applies to single-bit alterations of the Version field too)
            for mask in [mask]:
                n += 1
                if n % nparts != part:
                    continue
                case = {"kind": "tamper", "config": cfg["name"], "datagram": k, "position": pos, "mask": mask}
                run = Run(cfg, tamper=(k, alter_fn(pos, mask))).run()
                infos = packets_of(data)
                hdr = any(i.start <= pos < i.start + (i.pn_offset_rel if i.pn_offset_rel is not None else i.end - i.start) for i in infos)
                ctx.case(("tamper", cfg["name"], k, pos, mask), nontrivial=True, classes=["tamper:" + cfg["name"], "tamper:" + direction, "tamper:header-field" if hdr else "tamper:protected-part", "tamper:packets-%d" % len(infos)] + ["tamper:ptype-" + str(i.ptype) for i in infos if i.start <= pos < i.end])
                judge(ctx, cfg, base, run, k, pos, mask, case)
                if ctx.want_sample():
                    ctx.sample(case)
    ctx.extra["datagrams"] = [(k, d, len(x)) for k, d, x in base.log]
    ctx.extra["exhaustive"] = bool(thorough)


def replay(ctx, case):
    cfg = [c for c in CONFIGS if c["name"] == case["config"]][0]
    base = baseline(cfg)
    run = Run(cfg, tamper=(case["datagram"], alter_fn(case["position"], case["mask"]))).run()
    ctx.case(None, True)
    judge(ctx, cfg, base, run, case["datagram"], case["position"], case["mask"], case)


def plan(tier, seed):
    q = tier == "quick"
    t = []
    for i, c in enumerate(CONFIGS):
        parts = 1 if q else 16
        for p in range(parts):
            t.append(("tamper-%s-%d" % (c["name"], p), {"fn": "tamper", "config": i, "thorough": not q, "part": p, "nparts": parts}))
    return t


def run_task(ctx, name, fn, **kw):
    tamper_task(ctx, kw["config"], kw["thorough"], kw["part"], kw["nparts"])
