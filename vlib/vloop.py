"""A virtual-time asyncio event loop with an in-memory datagram network.

The loop is a real asyncio SelectorEventLoop whose selector never blocks:
"waiting" advances a virtual clock (plus a generated lateness, which models a
busy loop and lets several timers become due together).  Datagram endpoints
created through loop.create_datagram_endpoint() - what aioquic.asyncio.serve()
and connect() use - are attached to an in-memory network that delays, drops,
duplicates, reorders and re-addresses datagrams as a generated list of fates
dictates.
"""
import asyncio
import collections
import selectors
import socket


class Starved(Exception):
    """nothing is ready and nothing is scheduled: the loop would block for ever"""


class Spin(Exception):
    """the loop keeps running callbacks without (virtual) time advancing: a real loop would burn CPU for ever"""


SPIN_LIMIT = 20000
ITERATION_COST = 20e-6


class _Selector(selectors.BaseSelector):
    def __init__(self):
        self._keys = {}
        self.loop = None

    def register(self, fileobj, events, data=None):
        fd = fileobj if isinstance(fileobj, int) else fileobj.fileno()
        key = selectors.SelectorKey(fileobj, fd, events, data)
        self._keys[fd] = key
        return key

    def unregister(self, fileobj):
        fd = fileobj if isinstance(fileobj, int) else fileobj.fileno()
        return self._keys.pop(fd)

    def modify(self, fileobj, events, data=None):
        self.unregister(fileobj)
        return self.register(fileobj, events, data)

    def select(self, timeout=None):
        self.loop._advance(timeout)
        return []

    def get_map(self):
        return self._keys

    def close(self):
        self._keys.clear()


class FakeTransport(asyncio.DatagramTransport):
    def __init__(self, net, addr):
        super().__init__()
        self.net = net
        self.addr = addr
        self.closed = False
        self.sent = 0

    def sendto(self, data, addr=None):
        if self.closed:
            return
        self.sent += 1
        self.net.send(self.addr, addr, bytes(data))

    def close(self):
        if not self.closed:
            self.closed = True
            self.net.unbind(self.addr)

    def is_closing(self):
        return self.closed

    def abort(self):
        self.close()

    def get_extra_info(self, name, default=None):
        if name == "sockname":
            return self.addr
        return default


class Net:
    """fates: list of [kind, d1, d2]; kind in deliver/drop/dup/spoof; consumed one per datagram while now < adv_end"""

    def __init__(self, loop, fates, adv_end, base_delay=0.01):
        self.loop = loop
        self.fates = list(fates)
        self.i = 0
        self.adv_end = adv_end
        self.base_delay = base_delay
        self.bound = {}
        self.blackout = {}  # client addr -> time from which every datagram from/to it is lost
        self.log = collections.Counter()
        self.taps = []  # callables (src, dst, data)
        self.attacker = ("::ffff:203.0.113.66", 6666, 0, 0)

    def bind(self, addr, proto):
        self.bound[addr] = proto

    def unbind(self, addr):
        self.bound.pop(addr, None)

    def send(self, src, dst, data):
        now = self.loop.time()
        for t in self.taps:
            t(src, dst, data)
        for a in (src, dst):
            b = self.blackout.get(a)
            if b is not None and now >= b:
                self.log["blackout-drop"] += 1
                return
        if now >= self.adv_end or self.i >= len(self.fates):
            self.loop.call_later(self.base_delay, self.deliver, src, dst, data)
            return
        kind, d1, d2 = self.fates[self.i]
        self.i += 1
        self.log["fate:" + kind] += 1
        if kind == "drop":
            return
        self.loop.call_later(d1, self.deliver, src, dst, data)
        if kind == "dup":
            self.loop.call_later(d2, self.deliver, src, dst, data)
        elif kind == "spoof":
            # an on-path observer replays the datagram from its own address
            self.loop.call_later(d2, self.deliver, self.attacker, dst, data)
        elif kind == "spoof-port":
            # ... or from another port of the sender's host
            self.loop.call_later(d2, self.deliver, (src[0], src[1] ^ 0x100) + tuple(src[2:]), dst, data)

    def deliver(self, src, dst, data):
        p = self.bound.get(dst)
        if p is None:
            self.log["undeliverable"] += 1
            return
        self.log["delivered"] += 1
        p.datagram_received(data, src)


class _SockShim:
    """stands in for the UDP socket aioquic.asyncio.client.connect() creates"""

    AF_INET6 = socket.AF_INET6
    SOCK_DGRAM = socket.SOCK_DGRAM
    IPPROTO_IPV6 = socket.IPPROTO_IPV6
    IPV6_V6ONLY = socket.IPV6_V6ONLY

    class _S:
        def setsockopt(self, *a):
            pass

        def bind(self, addr):
            self.bound = addr

        def close(self):
            pass

    @classmethod
    def socket(cls, *a, **k):
        return cls._S()


class VirtualLoop(asyncio.SelectorEventLoop):
    SERVER_HOST = "::ffff:192.0.2.1"

    def __init__(self, fates=(), adv_end=0.0, lateness=(0.0,)):
        sel = _Selector()
        super().__init__(selector=sel)
        sel.loop = self
        self._vt = 0.0
        self._spins = 0
        self._iterations = 0
        self.busy_loops = 0
        self._late = list(lateness) or [0.0]
        self._late_i = 0
        self.net = Net(self, fates, adv_end)
        self._next_client = 0
        self.errors = []
        self.set_exception_handler(self._on_error)
        self.slow_callback_duration = 1e9

    def time(self):
        return self._vt

    def _advance(self, timeout):
        if timeout is None:
            raise Starved()
        self._iterations += 1
        self._vt += ITERATION_COST  # running callbacks takes time: a timer that is re-armed for "now" does not freeze the clock
        if timeout <= 0:
            self._spins += 1
            if self._spins > SPIN_LIMIT:
                # A timer that stays overdue (aioquic re-arms an ACK deadline it cannot serve, e.g. when the anti-amplification budget is
                # used up) makes a real loop spin at full speed until something else happens.  That burns CPU but breaks none of the listed
                # properties: it is counted, and the clock moves in bigger steps so that the scenario can go on.
                self.busy_loops += 1
                self._vt += 0.01
                if self._spins > 50 * SPIN_LIMIT:
                    raise Spin()
        if timeout > 0:
            self._spins = 0
            late = self._late[self._late_i % len(self._late)]
            self._late_i += 1
            self._vt += timeout + late

    def _on_error(self, loop, context):
        exc = context.get("exception")
        self.errors.append((context.get("message"), exc))

    async def getaddrinfo(self, host, port, **kw):
        return [(socket.AF_INET6, socket.SOCK_DGRAM, 17, "", (self.SERVER_HOST, port, 0, 0))]

    async def create_datagram_endpoint(self, protocol_factory, local_addr=None, remote_addr=None, *, sock=None, **kw):
        if sock is not None or local_addr is None:
            self._next_client += 1
            addr = ("::ffff:198.51.100.%d" % self._next_client, 40000 + self._next_client, 0, 0)
        else:
            addr = (self.SERVER_HOST, local_addr[1], 0, 0)
        proto = protocol_factory()
        tr = FakeTransport(self.net, addr)
        self.net.bind(addr, proto)
        proto.connection_made(tr)
        return tr, proto


def patch_client_socket():
    """make aioquic.asyncio.client.connect() use the shim instead of a real socket; returns an undo callable"""
    import aioquic.asyncio.client as C

    saved = C.socket
    C.socket = _SockShim
    return lambda: setattr(C, "socket", saved)


def run(main_factory, fates=(), adv_end=0.0, lateness=(0.0,)):
    """Run `await main_factory(loop)` on a fresh virtual loop. -> (result, loop); raises Starved when the loop would block for ever."""
    loop = VirtualLoop(fates, adv_end, lateness)
    undo = patch_client_socket()
    try:
        asyncio.set_event_loop(loop)
        try:
            res = loop.run_until_complete(main_factory(loop))
        finally:
            try:
                pending = [t for t in asyncio.all_tasks(loop) if not t.done()]
                for t in pending:
                    t.cancel()
                if pending:
                    try:
                        loop.run_until_complete(asyncio.gather(*pending, return_exceptions=True))
                    except (Starved, Spin):
                        pass
            finally:
                asyncio.set_event_loop(None)
        return res, loop
    finally:
        undo()
        loop.close()
