"""Self-test of vlib.reftls.

Anchors (no RFC 8448 trace is available offline, so interoperability with an
unmodified aioquic ``tls.Context`` is the anchor):

1. codec round trips, incl. the captured messages in /repo/tests/*.bin
2. RefServer <-> aioquic client   (3 suites x groups x RSA/EC/Ed25519 keys)
3. RefClient <-> aioquic server   (incl. client certificate)
4. PSK resumption in both directions
5. robustness: parsers raise ParseError only; determinism given ``rng``

aioquic is imported here and ONLY here.
"""

from __future__ import annotations

import datetime
import glob
import hashlib
import os
import random
import ssl
import sys
import traceback

sys.path.insert(0, os.path.dirname(os.path.dirname(os.path.abspath(__file__))))
sys.path.insert(0, "/repo/src")

from cryptography import x509  # noqa: E402
from cryptography.hazmat.primitives import hashes, serialization  # noqa: E402
from cryptography.hazmat.primitives.asymmetric import ec, ed25519, rsa  # noqa: E402

from vlib import reftls as T  # noqa: E402

TESTS = "/repo/tests"
CHECKS = 0
NOTES: list[str] = []


class Failure(Exception):
    pass


def check(cond, what: str) -> None:
    global CHECKS
    if not cond:
        raise Failure(what)
    CHECKS += 1


def note(text: str) -> None:
    if text not in NOTES:
        NOTES.append(text)


def expect_raises(exc_type, func, *args, what: str = "", **kwargs):
    try:
        func(*args, **kwargs)
    except exc_type as exc:
        check(True, what)
        return exc
    except Exception as exc:  # wrong exception type
        raise Failure(f"{what}: expected {exc_type.__name__}, got {type(exc).__name__}: {exc}")
    raise Failure(f"{what}: expected {exc_type.__name__}, nothing raised")


def det_rng(seed: int):
    state = {"n": 0}

    def rng(n: int) -> bytes:
        out = b""
        while len(out) < n:
            out += hashlib.sha256(f"{seed}:{state['n']}".encode()).digest()
            state["n"] += 1
        return out[:n]

    return rng


# --------------------------------------------------------------------------
# key material
# --------------------------------------------------------------------------


def self_signed(key, cn: str = "localhost"):
    name = x509.Name([x509.NameAttribute(x509.NameOID.COMMON_NAME, cn)])
    now = datetime.datetime.now(datetime.timezone.utc)
    builder = (
        x509.CertificateBuilder()
        .subject_name(name)
        .issuer_name(name)
        .public_key(key.public_key())
        .serial_number(x509.random_serial_number())
        .not_valid_before(now - datetime.timedelta(days=1))
        .not_valid_after(now + datetime.timedelta(days=10))
        .add_extension(x509.SubjectAlternativeName([x509.DNSName(cn)]), critical=False)
    )
    alg = None if isinstance(key, ed25519.Ed25519PrivateKey) else hashes.SHA256()
    return builder.sign(key, alg)


def der(cert) -> bytes:
    return cert.public_bytes(serialization.Encoding.DER)


def pem(cert) -> bytes:
    return cert.public_bytes(serialization.Encoding.PEM)


def load_material():
    with open(f"{TESTS}/ssl_cert.pem", "rb") as fp:
        rsa_cert = x509.load_pem_x509_certificate(fp.read())
    with open(f"{TESTS}/ssl_key.pem", "rb") as fp:
        rsa_key = serialization.load_pem_private_key(fp.read(), password=None)
    material = {"rsa": (rsa_cert, rsa_key, {"cafile": f"{TESTS}/pycacert.pem"})}
    for label, key in (
        ("ec256", ec.generate_private_key(ec.SECP256R1())),
        ("ec384", ec.generate_private_key(ec.SECP384R1())),
        ("ed25519", ed25519.Ed25519PrivateKey.generate()),
    ):
        cert = self_signed(key)
        material[label] = (cert, key, {"cadata": pem(cert)})
    return material


# --------------------------------------------------------------------------
# 1. codec
# --------------------------------------------------------------------------


def hand_built_messages() -> list[dict]:
    exts = [(T.EXT_SUPPORTED_VERSIONS, T.build_supported_versions([0x0304])), (0xABCD, b"\x01\x02")]
    return [
        {
            "type": T.HT_CLIENT_HELLO,
            "legacy_version": 0x0303,
            "random": bytes(range(32)),
            "legacy_session_id": b"\x07" * 32,
            "cipher_suites": [0x1301, 0x1302, 0x1303],
            "compression_methods": [0],
            "extensions": exts
            + [
                (T.EXT_SERVER_NAME, T.build_server_name("example.com")),
                (T.EXT_KEY_SHARE, T.build_key_share([(29, b"k" * 32), (23, b"\x04" + b"p" * 64)])),
                (T.EXT_PRE_SHARED_KEY, T.build_pre_shared_key([(b"id", 7)], [b"b" * 32])),
            ],
        },
        {
            "type": T.HT_CLIENT_HELLO,
            "legacy_version": 0x0303,
            "random": bytes(32),
            "legacy_session_id": b"",
            "cipher_suites": [0x1301],
            "compression_methods": [0],
            "extensions": None,
        },
        {
            "type": T.HT_SERVER_HELLO,
            "legacy_version": 0x0303,
            "random": bytes(range(32, 64)),
            "legacy_session_id_echo": b"",
            "cipher_suite": 0x1302,
            "compression_method": 0,
            "extensions": [
                (T.EXT_SUPPORTED_VERSIONS, T.build_supported_versions(0x0304, server=True)),
                (T.EXT_KEY_SHARE, T.build_key_share((29, b"s" * 32), server=True)),
                (T.EXT_PRE_SHARED_KEY, T.build_pre_shared_key(selected=0)),
            ],
        },
        {
            "type": T.HT_NEW_SESSION_TICKET,
            "ticket_lifetime": 86400,
            "ticket_age_add": 0xDEADBEEF,
            "ticket_nonce": b"\x00\x01",
            "ticket": b"ticket",
            "extensions": [(T.EXT_EARLY_DATA, T.build_early_data(0xFFFFFFFF))],
        },
        {"type": T.HT_END_OF_EARLY_DATA},
        {
            "type": T.HT_ENCRYPTED_EXTENSIONS,
            "extensions": [(T.EXT_ALPN, T.build_alpn([b"h3"])), (T.EXT_QUIC_TRANSPORT_PARAMETERS, b"tp"), (42, b"")],
        },
        {"type": T.HT_ENCRYPTED_EXTENSIONS, "extensions": []},
        {
            "type": T.HT_CERTIFICATE,
            "request_context": b"ctx",
            "certificates": [(b"der-one", []), (b"der-two", [(5, b"ocsp")])],
        },
        {"type": T.HT_CERTIFICATE, "request_context": b"", "certificates": []},
        {
            "type": T.HT_CERTIFICATE_REQUEST,
            "request_context": b"",
            "extensions": [(T.EXT_SIGNATURE_ALGORITHMS, T.build_signature_algorithms([0x0804, 0x0403]))],
        },
        {"type": T.HT_CERTIFICATE_VERIFY, "algorithm": 0x0807, "signature": b"s" * 64},
        {"type": T.HT_FINISHED, "verify_data": b"v" * 48},
        {"type": T.HT_KEY_UPDATE, "request_update": 1},
        {"type": 99, "body": b"opaque"},
    ]


def test_codec() -> None:
    for msg in hand_built_messages():
        wire = T.encode_message(msg)
        check(wire[0] == msg["type"] and int.from_bytes(wire[1:4], "big") == len(wire) - 4, "header")
        check(T.decode_message(wire) == msg, f"round trip {T.message_name(msg['type'])}")
        check(T.split_messages(wire + wire) == [wire, wire], "split")
        # truncation and trailing garbage must be ParseError, at every length
        for cut in range(len(wire)):
            expect_raises(T.ParseError, T.decode_message, wire[:cut], what=f"truncated at {cut}")
        expect_raises(T.ParseError, T.decode_message, wire + b"\x00", what="trailing byte")
        if len(wire) > 4:
            # body longer than declared inner structure
            grown = wire[:1] + (len(wire) - 3).to_bytes(3, "big") + wire[4:] + b"\x00"
            if msg["type"] not in (T.HT_FINISHED, 99):
                expect_raises(T.ParseError, T.decode_message, grown, what="inner trailing byte")
        expect_raises(T.ParseError, T.split_messages, wire[:-1], what="split incomplete")

    # extension body helpers
    pairs = [
        (T.build_server_name("a.example"), T.parse_server_name, "a.example"),
        (T.build_supported_versions([0x0304, 0x0303]), T.parse_supported_versions, [0x0304, 0x0303]),
        (T.build_supported_groups([29, 23]), T.parse_supported_groups, [29, 23]),
        (T.build_signature_algorithms([0x0804]), T.parse_signature_algorithms, [0x0804]),
        (T.build_key_share([(29, b"x" * 32)]), T.parse_key_share, [(29, b"x" * 32)]),
        (T.build_alpn([b"h3", b"hq-interop"]), T.parse_alpn, [b"h3", b"hq-interop"]),
        (T.build_psk_key_exchange_modes([1]), T.parse_psk_key_exchange_modes, [1]),
        (
            T.build_pre_shared_key([(b"i", 1), (b"j", 2)], [b"a" * 32, b"b" * 48]),
            T.parse_pre_shared_key,
            ([(b"i", 1), (b"j", 2)], [b"a" * 32, b"b" * 48]),
        ),
        (T.build_early_data(), T.parse_early_data, None),
        (T.build_quic_transport_parameters(b"\x01\x02"), T.parse_quic_transport_parameters, b"\x01\x02"),
    ]
    for body, parse, expected in pairs:
        check(parse(body) == expected, f"{parse.__name__} round trip")
        if parse not in (T.parse_quic_transport_parameters,):
            for cut in range(len(body)):
                expect_raises(T.ParseError, parse, body[:cut], what=f"{parse.__name__} truncated {cut}")
            expect_raises(T.ParseError, parse, body + b"\x00", what=f"{parse.__name__} trailing")
    check(T.parse_supported_versions(T.build_supported_versions(0x0304, server=True), server=True) == 0x0304, "sv srv")
    check(T.parse_key_share(T.build_key_share((23, b"q"), server=True), server=True) == (23, b"q"), "ks srv")
    check(T.parse_pre_shared_key(T.build_pre_shared_key(selected=3), server=True) == 3, "psk srv")
    check(T.parse_early_data(T.build_early_data(77), nst=True) == 77, "early_data nst")
    check(T.parse_key_share_hrr(T.build_key_share_hrr(24)) == 24, "ks hrr")
    expect_raises(T.ParseError, T.parse_server_name, T.build_server_name("x")[:-1] + b"\xff", what="non-ascii sni")
    check(T.binders_length([b"a" * 32]) == 35, "binders_length")

    # strict bounds
    long_sid = dict(hand_built_messages()[1], legacy_session_id=b"x" * 33)
    expect_raises(T.ParseError, T.decode_message, T.encode_message(long_sid), what="session id > 32")
    check(T.decode_message(T.encode_message(long_sid), strict=False) == long_sid, "lenient session id")
    odd = T.encode_message(dict(hand_built_messages()[1]))
    odd = odd[:39] + b"\x00\x03\x13\x01\x00" + odd[43:]
    odd = odd[:1] + (len(odd) - 4).to_bytes(3, "big") + odd[4:]
    expect_raises(T.ParseError, T.decode_message, odd, what="odd cipher_suites length")
    expect_raises(T.EncodeError, T.encode_message, {"type": T.HT_FINISHED}, what="missing field")
    expect_raises(T.EncodeError, T.encode_message, {"type": T.HT_KEY_UPDATE, "request_update": 256}, what="range")

    # captured messages
    files = sorted(glob.glob(f"{TESTS}/tls_*.bin"))
    check(len(files) >= 16, "captured message files present")
    seen_types = set()
    for path in files:
        with open(path, "rb") as fp:
            data = fp.read()
        try:
            msg = T.decode_message(data)
        except T.ParseError as exc:
            raise Failure(f"{os.path.basename(path)}: {exc}")
        seen_types.add(msg["type"])
        check(T.encode_message(msg) == data, f"re-encode {os.path.basename(path)}")
        for ext_type, body in msg.get("extensions") or []:
            parse_known_extension(msg["type"], ext_type, body, os.path.basename(path))
    check(
        seen_types
        >= {
            T.HT_CLIENT_HELLO,
            T.HT_SERVER_HELLO,
            T.HT_ENCRYPTED_EXTENSIONS,
            T.HT_CERTIFICATE,
            T.HT_CERTIFICATE_REQUEST,
            T.HT_CERTIFICATE_VERIFY,
            T.HT_FINISHED,
            T.HT_NEW_SESSION_TICKET,
        },
        "captured files cover all message types",
    )


def parse_known_extension(msg_type: int, ext_type: int, body: bytes, where: str) -> None:
    """Every known extension in a captured message must parse and re-build."""
    server = msg_type == T.HT_SERVER_HELLO
    try:
        if ext_type == T.EXT_SERVER_NAME and msg_type == T.HT_CLIENT_HELLO:
            check(T.build_server_name(T.parse_server_name(body)) == body, where)
        elif ext_type == T.EXT_SUPPORTED_VERSIONS:
            check(T.build_supported_versions(T.parse_supported_versions(body, server), server) == body, where)
        elif ext_type == T.EXT_SUPPORTED_GROUPS:
            check(T.build_supported_groups(T.parse_supported_groups(body)) == body, where)
        elif ext_type == T.EXT_SIGNATURE_ALGORITHMS:
            check(T.build_signature_algorithms(T.parse_signature_algorithms(body)) == body, where)
        elif ext_type == T.EXT_KEY_SHARE:
            check(T.build_key_share(T.parse_key_share(body, server), server) == body, where)
        elif ext_type == T.EXT_ALPN:
            check(T.build_alpn(T.parse_alpn(body)) == body, where)
        elif ext_type == T.EXT_PSK_KEY_EXCHANGE_MODES:
            check(T.build_psk_key_exchange_modes(T.parse_psk_key_exchange_modes(body)) == body, where)
        elif ext_type == T.EXT_PRE_SHARED_KEY:
            if server:
                check(T.build_pre_shared_key(selected=T.parse_pre_shared_key(body, True)) == body, where)
            else:
                check(T.build_pre_shared_key(*T.parse_pre_shared_key(body)) == body, where)
        elif ext_type == T.EXT_EARLY_DATA:
            nst = msg_type == T.HT_NEW_SESSION_TICKET
            check(T.build_early_data(T.parse_early_data(body, nst)) == body, where)
    except T.ParseError as exc:
        raise Failure(f"{where}: extension {ext_type}: {exc}")
