"""Self-test of vlib.reftls.

Anchors (no RFC 8448 trace is available offline, so interoperability with an
unmodified aioquic ``tls.Context`` is the anchor):

1. codec round trips, incl. the captured messages in /repo/tests/*.bin
2. RefServer <-> aioquic client   (3 suites x groups x RSA/EC/Ed25519 keys)
3. RefClient <-> aioquic server   (incl. client certificate)
4. PSK resumption in both directions
5. robustness: parsers raise ParseError only; determinism given ``rng``

aioquic is imported here and ONLY here.
"""

from __future__ import annotations

import datetime
import glob
import hashlib
import os
import random
import ssl
import sys
import traceback

sys.path.insert(0, os.path.dirname(os.path.dirname(os.path.abspath(__file__))))
sys.path.insert(0, "/repo/src")

from cryptography import x509  # noqa: E402
from cryptography.hazmat.primitives import hashes, serialization  # noqa: E402
from cryptography.hazmat.primitives.asymmetric import ec, ed25519, rsa  # noqa: E402

from vlib import reftls as T  # noqa: E402

TESTS = "/repo/tests"
CHECKS = 0
NOTES: list[str] = []


class Failure(Exception):
    pass


def check(cond, what: str) -> None:
    global CHECKS
    if not cond:
        raise Failure(what)
    CHECKS += 1


def note(text: str) -> None:
    if text not in NOTES:
        NOTES.append(text)


def expect_raises(exc_type, func, *args, what: str = "", **kwargs):
    try:
        func(*args, **kwargs)
    except exc_type as exc:
        check(True, what)
        return exc
    except Exception as exc:  # wrong exception type
        raise Failure(f"{what}: expected {exc_type.__name__}, got {type(exc).__name__}: {exc}")
    raise Failure(f"{what}: expected {exc_type.__name__}, nothing raised")


def det_rng(seed: int):
    state = {"n": 0}

    def rng(n: int) -> bytes:
        out = b""
        while len(out) < n:
            out += hashlib.sha256(f"{seed}:{state['n']}".encode()).digest()
            state["n"] += 1
        return out[:n]

    return rng


# --------------------------------------------------------------------------
# key material
# --------------------------------------------------------------------------


def self_signed(key, cn: str = "localhost"):
    name = x509.Name([x509.NameAttribute(x509.NameOID.COMMON_NAME, cn)])
    now = datetime.datetime.now(datetime.timezone.utc)
    builder = (
        x509.CertificateBuilder()
        .subject_name(name)
        .issuer_name(name)
        .public_key(key.public_key())
        .serial_number(x509.random_serial_number())
        .not_valid_before(now - datetime.timedelta(days=1))
        .not_valid_after(now + datetime.timedelta(days=10))
        .add_extension(x509.SubjectAlternativeName([x509.DNSName(cn)]), critical=False)
    )
    alg = None if isinstance(key, ed25519.Ed25519PrivateKey) else hashes.SHA256()
    return builder.sign(key, alg)


def der(cert) -> bytes:
    return cert.public_bytes(serialization.Encoding.DER)


def pem(cert) -> bytes:
    return cert.public_bytes(serialization.Encoding.PEM)


def load_material():
    with open(f"{TESTS}/ssl_cert.pem", "rb") as fp:
        rsa_cert = x509.load_pem_x509_certificate(fp.read())
    with open(f"{TESTS}/ssl_key.pem", "rb") as fp:
        rsa_key = serialization.load_pem_private_key(fp.read(), password=None)
    material = {"rsa": (rsa_cert, rsa_key, {"cafile": f"{TESTS}/pycacert.pem"})}
    for label, key in (
        ("ec256", ec.generate_private_key(ec.SECP256R1())),
        ("ec384", ec.generate_private_key(ec.SECP384R1())),
        ("ed25519", ed25519.Ed25519PrivateKey.generate()),
    ):
        cert = self_signed(key)
        material[label] = (cert, key, {"cadata": pem(cert)})
    return material


# --------------------------------------------------------------------------
# 1. codec
# --------------------------------------------------------------------------


def hand_built_messages() -> list[dict]:
    exts = [(T.EXT_SUPPORTED_VERSIONS, T.build_supported_versions([0x0304])), (0xABCD, b"\x01\x02")]
    return [
        {
            "type": T.HT_CLIENT_HELLO,
            "legacy_version": 0x0303,
            "random": bytes(range(32)),
            "legacy_session_id": b"\x07" * 32,
            "cipher_suites": [0x1301, 0x1302, 0x1303],
            "compression_methods": [0],
            "extensions": exts
            + [
                (T.EXT_SERVER_NAME, T.build_server_name("example.com")),
                (T.EXT_KEY_SHARE, T.build_key_share([(29, b"k" * 32), (23, b"\x04" + b"p" * 64)])),
                (T.EXT_PRE_SHARED_KEY, T.build_pre_shared_key([(b"id", 7)], [b"b" * 32])),
            ],
        },
        {
            "type": T.HT_CLIENT_HELLO,
            "legacy_version": 0x0303,
            "random": bytes(32),
            "legacy_session_id": b"",
            "cipher_suites": [0x1301],
            "compression_methods": [0],
            "extensions": None,
        },
        {
            "type": T.HT_SERVER_HELLO,
            "legacy_version": 0x0303,
            "random": bytes(range(32, 64)),
            "legacy_session_id_echo": b"",
            "cipher_suite": 0x1302,
            "compression_method": 0,
            "extensions": [
                (T.EXT_SUPPORTED_VERSIONS, T.build_supported_versions(0x0304, server=True)),
                (T.EXT_KEY_SHARE, T.build_key_share((29, b"s" * 32), server=True)),
                (T.EXT_PRE_SHARED_KEY, T.build_pre_shared_key(selected=0)),
            ],
        },
        {
            "type": T.HT_NEW_SESSION_TICKET,
            "ticket_lifetime": 86400,
            "ticket_age_add": 0xDEADBEEF,
            "ticket_nonce": b"\x00\x01",
            "ticket": b"ticket",
            "extensions": [(T.EXT_EARLY_DATA, T.build_early_data(0xFFFFFFFF))],
        },
        {"type": T.HT_END_OF_EARLY_DATA},
        {
            "type": T.HT_ENCRYPTED_EXTENSIONS,
            "extensions": [(T.EXT_ALPN, T.build_alpn([b"h3"])), (T.EXT_QUIC_TRANSPORT_PARAMETERS, b"tp"), (42, b"")],
        },
        {"type": T.HT_ENCRYPTED_EXTENSIONS, "extensions": []},
        {
            "type": T.HT_CERTIFICATE,
            "request_context": b"ctx",
            "certificates": [(b"der-one", []), (b"der-two", [(5, b"ocsp")])],
        },
        {"type": T.HT_CERTIFICATE, "request_context": b"", "certificates": []},
        {
            "type": T.HT_CERTIFICATE_REQUEST,
            "request_context": b"",
            "extensions": [(T.EXT_SIGNATURE_ALGORITHMS, T.build_signature_algorithms([0x0804, 0x0403]))],
        },
        {"type": T.HT_CERTIFICATE_VERIFY, "algorithm": 0x0807, "signature": b"s" * 64},
        {"type": T.HT_FINISHED, "verify_data": b"v" * 48},
        {"type": T.HT_KEY_UPDATE, "request_update": 1},
        {"type": 99, "body": b"opaque"},
    ]


def test_codec() -> None:
    for msg in hand_built_messages():
        wire = T.encode_message(msg)
        check(wire[0] == msg["type"] and int.from_bytes(wire[1:4], "big") == len(wire) - 4, "header")
        check(T.decode_message(wire) == msg, f"round trip {T.message_name(msg['type'])}")
        check(T.split_messages(wire + wire) == [wire, wire], "split")
        # truncation and trailing garbage must be ParseError, at every length
        for cut in range(len(wire)):
            expect_raises(T.ParseError, T.decode_message, wire[:cut], what=f"truncated at {cut}")
        expect_raises(T.ParseError, T.decode_message, wire + b"\x00", what="trailing byte")
        if len(wire) > 4:
            # body longer than declared inner structure
            grown = wire[:1] + (len(wire) - 3).to_bytes(3, "big") + wire[4:] + b"\x00"
            if msg["type"] not in (T.HT_FINISHED, 99):
                expect_raises(T.ParseError, T.decode_message, grown, what="inner trailing byte")
        expect_raises(T.ParseError, T.split_messages, wire[:-1], what="split incomplete")

    # extension body helpers
    pairs = [
        (T.build_server_name("a.example"), T.parse_server_name, "a.example"),
        (T.build_supported_versions([0x0304, 0x0303]), T.parse_supported_versions, [0x0304, 0x0303]),
        (T.build_supported_groups([29, 23]), T.parse_supported_groups, [29, 23]),
        (T.build_signature_algorithms([0x0804]), T.parse_signature_algorithms, [0x0804]),
        (T.build_key_share([(29, b"x" * 32)]), T.parse_key_share, [(29, b"x" * 32)]),
        (T.build_alpn([b"h3", b"hq-interop"]), T.parse_alpn, [b"h3", b"hq-interop"]),
        (T.build_psk_key_exchange_modes([1]), T.parse_psk_key_exchange_modes, [1]),
        (
            T.build_pre_shared_key([(b"i", 1), (b"j", 2)], [b"a" * 32, b"b" * 48]),
            T.parse_pre_shared_key,
            ([(b"i", 1), (b"j", 2)], [b"a" * 32, b"b" * 48]),
        ),
        (T.build_early_data(), T.parse_early_data, None),
        (T.build_quic_transport_parameters(b"\x01\x02"), T.parse_quic_transport_parameters, b"\x01\x02"),
    ]
    for body, parse, expected in pairs:
        check(parse(body) == expected, f"{parse.__name__} round trip")
        if parse not in (T.parse_quic_transport_parameters,):
            for cut in range(len(body)):
                expect_raises(T.ParseError, parse, body[:cut], what=f"{parse.__name__} truncated {cut}")
            expect_raises(T.ParseError, parse, body + b"\x00", what=f"{parse.__name__} trailing")
    check(T.parse_supported_versions(T.build_supported_versions(0x0304, server=True), server=True) == 0x0304, "sv srv")
    check(T.parse_key_share(T.build_key_share((23, b"q"), server=True), server=True) == (23, b"q"), "ks srv")
    check(T.parse_pre_shared_key(T.build_pre_shared_key(selected=3), server=True) == 3, "psk srv")
    check(T.parse_early_data(T.build_early_data(77), nst=True) == 77, "early_data nst")
    check(T.parse_key_share_hrr(T.build_key_share_hrr(24)) == 24, "ks hrr")
    expect_raises(T.ParseError, T.parse_server_name, T.build_server_name("x")[:-1] + b"\xff", what="non-ascii sni")
    check(T.binders_length([b"a" * 32]) == 35, "binders_length")

    # strict bounds
    long_sid = dict(hand_built_messages()[1], legacy_session_id=b"x" * 33)
    expect_raises(T.ParseError, T.decode_message, T.encode_message(long_sid), what="session id > 32")
    check(T.decode_message(T.encode_message(long_sid), strict=False) == long_sid, "lenient session id")
    odd = T.encode_message(dict(hand_built_messages()[1]))
    odd = odd[:39] + b"\x00\x03\x13\x01\x00" + odd[43:]
    odd = odd[:1] + (len(odd) - 4).to_bytes(3, "big") + odd[4:]
    expect_raises(T.ParseError, T.decode_message, odd, what="odd cipher_suites length")
    expect_raises(T.EncodeError, T.encode_message, {"type": T.HT_FINISHED}, what="missing field")
    expect_raises(T.EncodeError, T.encode_message, {"type": T.HT_KEY_UPDATE, "request_update": 256}, what="range")

    # captured messages
    files = sorted(glob.glob(f"{TESTS}/tls_*.bin"))
    check(len(files) >= 16, "captured message files present")
    seen_types = set()
    for path in files:
        with open(path, "rb") as fp:
            data = fp.read()
        try:
            msg = T.decode_message(data)
        except T.ParseError as exc:
            raise Failure(f"{os.path.basename(path)}: {exc}")
        seen_types.add(msg["type"])
        check(T.encode_message(msg) == data, f"re-encode {os.path.basename(path)}")
        for ext_type, body in msg.get("extensions") or []:
            parse_known_extension(msg["type"], ext_type, body, os.path.basename(path))
    check(
        seen_types
        >= {
            T.HT_CLIENT_HELLO,
            T.HT_SERVER_HELLO,
            T.HT_ENCRYPTED_EXTENSIONS,
            T.HT_CERTIFICATE,
            T.HT_CERTIFICATE_REQUEST,
            T.HT_CERTIFICATE_VERIFY,
            T.HT_FINISHED,
            T.HT_NEW_SESSION_TICKET,
        },
        "captured files cover all message types",
    )


def parse_known_extension(msg_type: int, ext_type: int, body: bytes, where: str) -> None:
    """Every known extension in a captured message must parse and re-build."""
    server = msg_type == T.HT_SERVER_HELLO
    try:
        if ext_type == T.EXT_SERVER_NAME and msg_type == T.HT_CLIENT_HELLO:
            check(T.build_server_name(T.parse_server_name(body)) == body, where)
        elif ext_type == T.EXT_SUPPORTED_VERSIONS:
            check(T.build_supported_versions(T.parse_supported_versions(body, server), server) == body, where)
        elif ext_type == T.EXT_SUPPORTED_GROUPS:
            check(T.build_supported_groups(T.parse_supported_groups(body)) == body, where)
        elif ext_type == T.EXT_SIGNATURE_ALGORITHMS:
            check(T.build_signature_algorithms(T.parse_signature_algorithms(body)) == body, where)
        elif ext_type == T.EXT_KEY_SHARE:
            check(T.build_key_share(T.parse_key_share(body, server), server) == body, where)
        elif ext_type == T.EXT_ALPN:
            check(T.build_alpn(T.parse_alpn(body)) == body, where)
        elif ext_type == T.EXT_PSK_KEY_EXCHANGE_MODES:
            check(T.build_psk_key_exchange_modes(T.parse_psk_key_exchange_modes(body)) == body, where)
        elif ext_type == T.EXT_PRE_SHARED_KEY:
            if server:
                check(T.build_pre_shared_key(selected=T.parse_pre_shared_key(body, True)) == body, where)
            else:
                check(T.build_pre_shared_key(*T.parse_pre_shared_key(body)) == body, where)
        elif ext_type == T.EXT_EARLY_DATA:
            nst = msg_type == T.HT_NEW_SESSION_TICKET
            check(T.build_early_data(T.parse_early_data(body, nst)) == body, where)
    except T.ParseError as exc:
        raise Failure(f"{where}: extension {ext_type}: {exc}")


# --------------------------------------------------------------------------
# aioquic driver
# --------------------------------------------------------------------------


def aq():
    from aioquic import tls
    from aioquic.buffer import Buffer

    return tls, Buffer


class Driven:
    """An unmodified aioquic tls.Context plus the traffic secrets it reports."""

    def __init__(self, ctx):
        tls, _ = aq()
        self.ctx = ctx
        self.keys: dict[tuple[str, str], bytes] = {}
        self.suites: set[int] = set()
        ctx.update_traffic_key_cb = self._on_key

    def _on_key(self, direction, epoch, cipher_suite, secret) -> None:
        self.keys[(direction.name, epoch.name)] = bytes(secret)
        self.suites.add(int(cipher_suite))

    def feed(self, data: bytes) -> dict[str, bytes]:
        """handle_message; returns the output per epoch name."""
        tls, Buffer = aq()
        bufs = {e: Buffer(capacity=8192) for e in (tls.Epoch.INITIAL, tls.Epoch.HANDSHAKE, tls.Epoch.ONE_RTT)}
        self.ctx.handle_message(data, bufs)
        return {e.name: bytes(b.data) for e, b in bufs.items()}


TP_CLIENT = bytes.fromhex("0504801000000604801000000704801000000801024064")
TP_SERVER = bytes.fromhex("000884a5f5f6a1b2c3d40504800800000604800800000801034064")


def aioquic_client(
    *, alpn=None, server_name="localhost", cipher_suites=None, groups=None, verify=None, session_ticket=None, **kwargs
):
    tls, _ = aq()
    ctx = tls.Context(
        is_client=True,
        alpn_protocols=alpn,
        server_name=server_name,
        cipher_suites=[tls.CipherSuite(c) for c in cipher_suites] if cipher_suites else None,
        **(verify or {"verify_mode": ssl.CERT_NONE}),
        **kwargs,
    )
    ctx.handshake_extensions = [(tls.ExtensionType.QUIC_TRANSPORT_PARAMETERS, TP_CLIENT)]
    ctx.session_ticket = session_ticket
    if groups is not None:
        ctx._supported_groups = [tls.Group(g) for g in groups]
    return Driven(ctx)


def aioquic_server(cert, key, *, alpn=None, cipher_suites=None, **kwargs):
    tls, _ = aq()
    ctx = tls.Context(
        is_client=False,
        alpn_protocols=alpn,
        cipher_suites=[tls.CipherSuite(c) for c in cipher_suites] if cipher_suites else None,
        **kwargs,
    )
    ctx.certificate = cert
    ctx.certificate_private_key = key
    ctx.handshake_extensions = [(tls.ExtensionType.QUIC_TRANSPORT_PARAMETERS, TP_SERVER)]
    return Driven(ctx)


def same_secrets(peer: T._Peer, driven: Driven, aioquic_is_client: bool, what: str) -> None:
    """The four traffic secrets reported by aioquic equal reftls's."""
    enc, dec = ("client", "server") if aioquic_is_client else ("server", "client")
    expected = {
        ("ENCRYPT", "HANDSHAKE"): getattr(peer, f"{enc}_hs_secret"),
        ("DECRYPT", "HANDSHAKE"): getattr(peer, f"{dec}_hs_secret"),
        ("ENCRYPT", "ONE_RTT"): getattr(peer, f"{enc}_app_secret"),
        ("DECRYPT", "ONE_RTT"): getattr(peer, f"{dec}_app_secret"),
    }
    for slot, secret in expected.items():
        check(secret is not None and driven.keys.get(slot) == secret, f"{what}: secret {slot}")
    check(driven.suites == {peer.cipher_suite}, f"{what}: cipher suite reported")


# --------------------------------------------------------------------------
# 2. RefServer <-> aioquic client
# --------------------------------------------------------------------------


def refserver_handshake(material, label, suite, group, *, alpn=b"hq-interop", rng=os.urandom, client_kwargs=None, **skw):
    tls, _ = aq()
    cert, key, verify = material[label]
    client = aioquic_client(
        alpn=[alpn.decode()] if alpn else None,
        cipher_suites=[suite],
        groups=[group],
        verify=verify,
        **(client_kwargs or {}),
    )
    ch = client.feed(b"")["INITIAL"]
    server = T.RefServer([der(cert)], key, alpn=alpn, transport_parameters=TP_SERVER, rng=rng, **skw)
    server.receive_client_hello(ch)
    return client, server, ch


def test_refserver(material) -> None:
    tls, _ = aq()
    for label in material:
        for suite in (T.TLS_AES_128_GCM_SHA256, T.TLS_AES_256_GCM_SHA384, T.TLS_CHACHA20_POLY1305_SHA256):
            for group in (T.GROUP_X25519, T.GROUP_SECP256R1, T.GROUP_SECP384R1, T.GROUP_X448):
                what = f"RefServer {label} {suite:#06x} group {group}"
                client, server, ch = refserver_handshake(material, label, suite, group)
                check(server.cipher_suite == suite and server.group == group, f"{what}: negotiation")
                check(server.client_transport_parameters == TP_CLIENT, f"{what}: client TP seen")
                check(server.client_server_name == "localhost", f"{what}: SNI")
                sh, flight = server.default_flight()
                out = client.feed(sh)
                check(client.ctx.state == tls.State.CLIENT_EXPECT_ENCRYPTED_EXTENSIONS, f"{what}: SH accepted")
                # feed the handshake flight message by message, byte-split the first one
                chunks = T.split_messages(flight)
                check([c[0] for c in chunks] == [8, 11, 15, 20], f"{what}: flight shape")
                out = client.feed(chunks[0][:5])
                out = client.feed(chunks[0][5:] + chunks[1])
                out = client.feed(chunks[2] + chunks[3])
                check(client.ctx.state == tls.State.CLIENT_POST_HANDSHAKE, f"{what}: client done")
                check(client.ctx.alpn_negotiated == "hq-interop", f"{what}: ALPN")
                check(
                    client.ctx.received_extensions == [(T.EXT_QUIC_TRANSPORT_PARAMETERS, TP_SERVER)],
                    f"{what}: server TP delivered",
                )
                check(server.check_client_finished(out["HANDSHAKE"]), f"{what}: client Finished verifies")
                same_secrets(server, client, True, what)

    # negative controls: the client must reject what a key-less attacker could produce,
    # and what RefServer signs over a *different* transcript
    client, server, _ = refserver_handshake(material, "rsa", 0x1301, 29)
    sh = server.server_hello()
    client.feed(sh)
    bad = server.encrypted_extensions() + server.certificate()
    other_rsa = rsa.generate_private_key(public_exponent=65537, key_size=2048)
    cv = server.certificate_verify(private_key=other_rsa)  # wrong key, same type
    expect_raises(tls.AlertDecryptError, client.feed, bad + cv, what="aioquic rejects CertificateVerify by another key")

    # observation (not a reftls check): scheme / certificate key type mismatch
    client, server, _ = refserver_handshake(material, "rsa", 0x1301, 29)
    client.feed(server.server_hello())
    bad = server.encrypted_extensions() + server.certificate()
    cv = server.certificate_verify(private_key=material["ec256"][1])  # ecdsa scheme, RSA certificate
    try:
        client.feed(bad + cv)
        raise Failure("aioquic accepted an ECDSA CertificateVerify for an RSA certificate")
    except tls.Alert:
        check(True, "mismatch rejected with an alert")
    except Failure:
        raise
    except Exception as exc:
        check(True, "mismatch rejected")
        note(
            "aioquic client: CertificateVerify whose scheme does not fit the certificate key type "
            f"(ecdsa_secp256r1_sha256 with an RSA leaf) escapes as {type(exc).__name__}: {exc}"
        )

    client, server, _ = refserver_handshake(material, "rsa", 0x1301, 29)
    client.feed(server.server_hello())
    flight = server.encrypted_extensions() + server.certificate() + server.certificate_verify()
    fin = server.finished(verify_data=bytes(32))
    expect_raises(tls.AlertDecryptError, client.feed, flight + fin, what="aioquic rejects bad Finished")

    # scripted: an extra unknown-but-ignorable EE extension still yields matching secrets
    client, server, _ = refserver_handshake(material, "ed25519", 0x1303, 29)
    client.feed(server.server_hello())
    flight = server.encrypted_extensions(extra_extensions=[(0xFAFA, b"grease")])
    flight += server.certificate() + server.certificate_verify() + server.finished()
    out = client.feed(flight)
    check(client.ctx.state == tls.State.CLIENT_POST_HANDSHAKE, "scripted EE: client done")
    check(server.check_client_finished(out["HANDSHAKE"]), "scripted EE: client Finished")
    same_secrets(server, client, True, "scripted EE")
    tampered = bytearray(out["HANDSHAKE"])
    tampered[-1] ^= 1
    check(not server.check_client_finished(bytes(tampered)), "tampered client Finished rejected")

    # client certificate requested by RefServer
    cert, key, _ = material["ec256"]
    client, server, _ = refserver_handshake(material, "rsa", 0x1302, 23)
    client.ctx.certificate, client.ctx.certificate_private_key = cert, key
    sh, flight = server.default_flight(request_client_certificate=True)
    client.feed(sh)
    out = client.feed(flight)
    msgs = server.receive_client_flight(out["HANDSHAKE"])
    check([m["type"] for m in msgs] == [11, 15, 20], "client auth: flight shape")
    check(server.client_cert_verify_ok and server.client_finished_ok, "client auth: verified")
    check(server.client_certificates[0][0] == der(cert), "client auth: certificate")
    same_secrets(server, client, True, "client auth")
    # ... and with a client that has no certificate
    client, server, _ = refserver_handshake(material, "rsa", 0x1301, 29)
    sh, flight = server.default_flight(request_client_certificate=True)
    client.feed(sh)
    msgs = server.receive_client_flight(client.feed(flight)["HANDSHAKE"])
    check([m["type"] for m in msgs] == [11, 20] and msgs[0]["certificates"] == [], "client auth: empty certificate")

    # determinism given rng (Ed25519 signatures are deterministic)
    flights = []
    for _ in range(2):
        client, server, ch = refserver_handshake(material, "ed25519", 0x1301, 29, rng=det_rng(7))
        flights.append(server.default_flight())
        # same server output for a *different* ClientHello is not expected; compare structure only
    a = [T.decode_message(m) for m in T.split_messages(flights[0][0])][0]
    b = [T.decode_message(m) for m in T.split_messages(flights[1][0])][0]
    check(a == b, "deterministic ServerHello given rng")


# --------------------------------------------------------------------------
# 3. RefClient <-> aioquic server
# --------------------------------------------------------------------------


def refclient_handshake(material, label, suite, group, *, request_cert=False, client_cert=None, rng=os.urandom, **ckw):
    tls, _ = aq()
    cert, key, _ = material[label]
    server = aioquic_server(cert, key, alpn=["h3", "hq-interop"], **ckw.pop("server_kwargs", {}))
    server.ctx._request_client_certificate = request_cert
    kwargs = {}
    if client_cert is not None:
        kwargs = {"client_cert_chain_der": [der(client_cert[0])], "client_private_key": client_cert[1]}
    client = T.RefClient(
        server_name="localhost",
        alpn=[b"hq-interop"],
        transport_parameters=TP_CLIENT,
        cipher_suites=(suite,),
        groups=(group,),
        rng=rng,
        **kwargs,
        **ckw,
    )
    out = server.feed(client.client_hello())
    return client, server, out


def test_refclient(material) -> None:
    tls, _ = aq()
    for label in material:
        for suite in (T.TLS_AES_128_GCM_SHA256, T.TLS_AES_256_GCM_SHA384, T.TLS_CHACHA20_POLY1305_SHA256):
            for group in (T.GROUP_X25519, T.GROUP_SECP256R1, T.GROUP_SECP384R1, T.GROUP_X448):
                what = f"RefClient {label} {suite:#06x} group {group}"
                client, server, out = refclient_handshake(material, label, suite, group)
                msgs = client.receive_server_flight(out["INITIAL"])
                check([m["type"] for m in msgs] == [2], f"{what}: ServerHello")
                # deliver the handshake flight in two arbitrary pieces
                hs = out["HANDSHAKE"]
                msgs = client.receive_server_flight(hs[:100]) + client.receive_server_flight(hs[100:])
                check([m["type"] for m in msgs] == [8, 11, 15, 20], f"{what}: flight shape")
                check(client.state == T.RefClient.CONNECTED, f"{what}: connected")
                check(client.group == group and client.cipher_suite == suite, f"{what}: negotiation")
                check(client.alpn_negotiated == b"hq-interop", f"{what}: ALPN")
                check(client.server_transport_parameters == TP_SERVER, f"{what}: server TP")
                check(client.server_certificates[0][0] == der(material[label][0]), f"{what}: certificate")
                check(server.ctx.received_extensions == [(T.EXT_QUIC_TRANSPORT_PARAMETERS, TP_CLIENT)], f"{what}: TP")
                server.feed(client.client_flight())
                check(server.ctx.state == tls.State.SERVER_POST_HANDSHAKE, f"{what}: server done")
                same_secrets(client, server, False, what)

    # client certificate
    for ckey in ("rsa", "ec256", "ed25519"):
        what = f"RefClient client-auth {ckey}"
        client, server, out = refclient_handshake(
            material, "rsa", 0x1301, 29, request_cert=True, client_cert=material[ckey][:2]
        )
        msgs = client.receive_server_flight(out["INITIAL"] + out["HANDSHAKE"])
        check([m["type"] for m in msgs] == [2, 8, 13, 11, 15, 20], f"{what}: flight shape")
        flight = client.client_flight()
        check([c[0] for c in T.split_messages(flight)] == [11, 15, 20], f"{what}: client flight shape")
        server.feed(flight)
        check(server.ctx.state == tls.State.SERVER_POST_HANDSHAKE, f"{what}: server done")
        check(der(server.ctx._peer_certificate) == der(material[ckey][0]), f"{what}: peer certificate")
        same_secrets(client, server, False, what)

    # requested but no certificate available
    client, server, out = refclient_handshake(material, "rsa", 0x1301, 29, request_cert=True)
    client.receive_server_flight(out["INITIAL"] + out["HANDSHAKE"])
    flight = client.client_flight()
    check([c[0] for c in T.split_messages(flight)] == [11, 20], "no client cert: flight shape")
    server.feed(flight)
    check(server.ctx.state == tls.State.SERVER_POST_HANDSHAKE, "no client cert: server done")

    # negative controls on the scripted client flight
    client, server, out = refclient_handshake(
        material, "rsa", 0x1301, 29, request_cert=True, client_cert=material["ec256"][:2]
    )
    client.receive_server_flight(out["INITIAL"] + out["HANDSHAKE"])
    flight = client.certificate() + client.certificate_verify(private_key=material["ec384"][1], algorithm=0x0403)
    expect_raises(tls.Alert, server.feed, flight, what="aioquic server rejects CertificateVerify by another key")

    client, server, out = refclient_handshake(material, "rsa", 0x1301, 29)
    client.receive_server_flight(out["INITIAL"] + out["HANDSHAKE"])
    expect_raises(
        tls.AlertDecryptError, server.feed, client.finished(verify_data=bytes(32)), what="aioquic server rejects bad Finished"
    )

    # RefClient itself rejects a tampered server flight
    client, server, out = refclient_handshake(material, "rsa", 0x1301, 29)
    client.receive_server_flight(out["INITIAL"])
    chunks = T.split_messages(out["HANDSHAKE"])
    cv = bytearray(chunks[2])
    cv[-1] ^= 1
    exc = expect_raises(
        T.HandshakeError, client.receive_server_flight, chunks[0] + chunks[1] + bytes(cv), what="RefClient bad CV"
    )
    check(exc.alert == "decrypt_error", "RefClient bad CV alert")
    client, server, out = refclient_handshake(material, "rsa", 0x1301, 29)
    client.receive_server_flight(out["INITIAL"])
    chunks = T.split_messages(out["HANDSHAKE"])
    bad_fin = bytearray(chunks[3])
    bad_fin[-1] ^= 1
    exc = expect_raises(
        T.HandshakeError, client.receive_server_flight, b"".join(chunks[:3]) + bytes(bad_fin), what="RefClient bad Fin"
    )
    check(exc.alert == "decrypt_error", "RefClient bad Finished alert")
    client, server, out = refclient_handshake(material, "rsa", 0x1301, 29)
    client.receive_server_flight(out["INITIAL"])
    chunks = T.split_messages(out["HANDSHAKE"])
    exc = expect_raises(T.HandshakeError, client.receive_server_flight, chunks[1], what="RefClient order")
    check(exc.alert == "unexpected_message", "RefClient out-of-order alert")

    # determinism
    a = T.RefClient(server_name="localhost", alpn=[b"h3"], rng=det_rng(3)).client_hello()
    b = T.RefClient(server_name="localhost", alpn=[b"h3"], rng=det_rng(3)).client_hello()
    c = T.RefClient(server_name="localhost", alpn=[b"h3"], rng=det_rng(4)).client_hello()
    check(a == b and a != c, "deterministic ClientHello given rng")


# --------------------------------------------------------------------------
# 4. PSK resumption
# --------------------------------------------------------------------------


def test_psk_refserver(material) -> None:
    tls, _ = aq()
    for suite in (T.TLS_AES_128_GCM_SHA256, T.TLS_AES_256_GCM_SHA384, T.TLS_CHACHA20_POLY1305_SHA256):
        for nonce, early in ((b"", None), (b"\x00\x01", 0xFFFFFFFF)):
            what = f"PSK RefServer {suite:#06x} nonce={nonce.hex()} early={early}"
            tickets = []
            # aioquic offers psk_key_exchange_modes only when the cb is set before the ClientHello
            cert, key, verify = material["rsa"]
            client = aioquic_client(alpn=["hq-interop"], cipher_suites=[suite], groups=[29], verify=verify)
            client.ctx.new_session_ticket_cb = tickets.append
            server = T.RefServer([der(cert)], key, alpn=b"hq-interop", transport_parameters=TP_SERVER)
            server.receive_client_hello(client.feed(b"")["INITIAL"])
            check(server.psk_modes == [T.PSK_DHE_KE], f"{what}: psk_dhe_ke offered")
            sh, flight = server.default_flight()
            client.feed(sh)
            out = client.feed(flight)
            # 0.5-RTT style ticket (before the client Finished is processed) and a regular one
            early_nst = server.new_session_ticket(ticket=b"T-early" + nonce, ticket_nonce=nonce, max_early_data_size=early)
            check(server.check_client_finished(out["HANDSHAKE"]), f"{what}: first handshake")
            late_nst = server.new_session_ticket(ticket=b"T-late" + nonce, ticket_nonce=nonce, max_early_data_size=early)
            check(
                server.issued_tickets[b"T-early" + nonce] == server.issued_tickets[b"T-late" + nonce],
                f"{what}: predicted resumption secret equals the real one",
            )
            client.feed(early_nst + late_nst)
            check(len(tickets) == 2, f"{what}: tickets delivered")
            ticket = tickets[1]
            check(ticket.resumption_secret == server.issued_tickets[ticket.ticket], f"{what}: resumption PSK equal")
            check(ticket.max_early_data_size == early, f"{what}: max_early_data_size")

            # resumption
            client2 = aioquic_client(
                alpn=["hq-interop"], cipher_suites=[suite], groups=[29], verify=verify, session_ticket=ticket
            )
            ch2 = client2.feed(b"")["INITIAL"]
            server2 = T.RefServer(
                [der(cert)],
                key,
                alpn=b"hq-interop",
                transport_parameters=TP_SERVER,
                cipher_suites=(suite,),
                psk_lookup=server.issued_tickets.get,
            )
            server2.receive_client_hello(ch2)
            check(server2.psk_offered is not None and server2.binder_ok is True, f"{what}: binder verifies")
            check(server2.psk_offered[0][0][0] == ticket.ticket, f"{what}: identity")
            check(server2.client_offers_early_data == (early is not None), f"{what}: early_data offered")
            sh = server2.server_hello(select_psk=True)
            flight = server2.encrypted_extensions(early_data=early is not None) + server2.finished()
            check([c[0] for c in T.split_messages(flight)] == [8, 20], f"{what}: EE, Finished only")
            client2.feed(sh)
            out = client2.feed(flight)
            check(client2.ctx.state == tls.State.CLIENT_POST_HANDSHAKE, f"{what}: resumed client done")
            check(client2.ctx.session_resumed, f"{what}: session_resumed")
            check(server2.check_client_finished(out["HANDSHAKE"]), f"{what}: resumed client Finished")
            same_secrets(server2, client2, True, what)
            if early is not None:
                check(client2.ctx.early_data_accepted, f"{what}: early data accepted")
                check(
                    client2.keys.get(("ENCRYPT", "ZERO_RTT")) == server2.client_early_secret,
                    f"{what}: client_early_traffic_secret",
                )

            # corrupted binder is detected
            bad = bytearray(ch2)
            bad[-1] ^= 1
            server3 = T.RefServer([der(cert)], key, cipher_suites=(suite,), psk_lookup=server.issued_tickets.get)
            server3.receive_client_hello(bytes(bad))
            check(server3.binder_ok is False, f"{what}: corrupted binder detected")
            expect_raises(T.HandshakeError, server3.server_hello, select_psk=True, what=f"{what}: refuses bad binder")

            # server may decline the PSK: full handshake with the same ClientHello
            client4 = aioquic_client(
                alpn=["hq-interop"], cipher_suites=[suite], groups=[29], verify=verify, session_ticket=ticket
            )
            server4 = T.RefServer([der(cert)], key, alpn=b"hq-interop", transport_parameters=TP_SERVER)
            server4.receive_client_hello(client4.feed(b"")["INITIAL"])
            sh, flight = server4.default_flight()
            client4.feed(sh)
            out = client4.feed(flight)
            check(server4.check_client_finished(out["HANDSHAKE"]), f"{what}: declined PSK, full handshake")
            check(not client4.ctx.session_resumed, f"{what}: not resumed")
            same_secrets(server4, client4, True, what + " declined")


def test_psk_refclient(material) -> None:
    tls, _ = aq()
    cert, key, _ = material["rsa"]
    for suite in (T.TLS_AES_128_GCM_SHA256, T.TLS_AES_256_GCM_SHA384, T.TLS_CHACHA20_POLY1305_SHA256):
        for early in (None, 0xFFFFFFFF):
            what = f"PSK RefClient {suite:#06x} early={early}"
            store = {}

            def make_server():
                server = aioquic_server(cert, key, alpn=["hq-interop"], max_early_data=early)
                server.ctx.new_session_ticket_cb = lambda t: store.__setitem__(t.ticket, t)
                server.ctx.get_session_ticket_cb = store.get
                return server

            server = make_server()
            client = T.RefClient(
                server_name="localhost", alpn=[b"hq-interop"], transport_parameters=TP_CLIENT, cipher_suites=(suite,)
            )
            out = server.feed(client.client_hello())
            client.receive_server_flight(out["INITIAL"] + out["HANDSHAKE"])
            check(len(store) == 1 and out["ONE_RTT"], f"{what}: server issued a ticket")
            server.feed(client.client_flight())
            msgs = client.receive_server_flight(out["ONE_RTT"])
            check([m["type"] for m in msgs] == [4], f"{what}: NewSessionTicket received")
            nst = client.new_session_tickets[0]
            psk = client.ticket_psk(nst)
            check(psk["key"] == store[nst["ticket"]].resumption_secret, f"{what}: resumption PSK equal")
            if early is not None:
                body = T.find_extension(nst["extensions"], T.EXT_EARLY_DATA)
                check(T.parse_early_data(body, nst=True) == early, f"{what}: max_early_data_size")

            server2 = make_server()
            client2 = T.RefClient(
                server_name="localhost",
                alpn=[b"hq-interop"],
                transport_parameters=TP_CLIENT,
                cipher_suites=(suite,),
                psk=psk,
                early_data=early is not None,
            )
            out = server2.feed(client2.client_hello())
            msgs = client2.receive_server_flight(out["INITIAL"] + out["HANDSHAKE"])
            check([m["type"] for m in msgs] == [2, 8, 20], f"{what}: resumed flight SH, EE, Finished")
            check(client2.psk_selected and server2.ctx.session_resumed, f"{what}: resumed")
            server2.feed(client2.client_flight())
            check(server2.ctx.state == tls.State.SERVER_POST_HANDSHAKE, f"{what}: server done")
            same_secrets(client2, server2, False, what)
            if early is not None:
                check(client2.early_data_accepted, f"{what}: early data accepted")
                check(
                    server2.keys.get(("DECRYPT", "ZERO_RTT")) == client2.client_early_secret,
                    f"{what}: client_early_traffic_secret",
                )

            # a wrong binder must be refused by the aioquic server
            server3 = make_server()
            client3 = T.RefClient(
                server_name="localhost", alpn=[b"hq-interop"], cipher_suites=(suite,), psk=dict(psk, key=bytes(len(psk["key"])))
            )
            expect_raises(tls.AlertHandshakeFailure, server3.feed, client3.client_hello(), what=f"{what}: bad binder")


# --------------------------------------------------------------------------
# 5. robustness
# --------------------------------------------------------------------------


def test_robustness() -> None:
    rnd = random.Random(20260922)
    seeds = [T.encode_message(m) for m in hand_built_messages()]
    for path in sorted(glob.glob(f"{TESTS}/tls_*.bin")):
        with open(path, "rb") as fp:
            seeds.append(fp.read())
    parsers = [
        T.parse_server_name,
        T.parse_supported_versions,
        T.parse_supported_groups,
        T.parse_signature_algorithms,
        T.parse_key_share,
        T.parse_alpn,
        T.parse_psk_key_exchange_modes,
        T.parse_pre_shared_key,
        T.parse_early_data,
        T.parse_key_share_hrr,
        T.parse_extensions,
    ]
    accepted = 0
    for i in range(6000):
        data = bytearray(rnd.choice(seeds))
        for _ in range(rnd.randint(1, 4)):
            op = rnd.randrange(4)
            if op == 0 and data:
                data[rnd.randrange(len(data))] = rnd.randrange(256)
            elif op == 1 and data:
                del data[rnd.randrange(len(data))]
            elif op == 2:
                data.insert(rnd.randrange(len(data) + 1), rnd.randrange(256))
            elif data:
                pos = rnd.randrange(len(data))
                data[pos] = rnd.choice((0, 1, 0x7F, 0x80, 0xFF))
        data = bytes(data)
        for strict in (True, False):
            try:
                msg = T.decode_message(data, strict=strict)
            except T.ParseError:
                continue
            except Exception as exc:
                raise Failure(f"decode_message raised {type(exc).__name__}: {exc} on {data.hex()}")
            # whatever is accepted must re-encode to the same bytes
            if T.encode_message(msg) != data:
                raise Failure(f"accepted message does not re-encode identically: {data.hex()}")
            accepted += 1
            for ext_type, body in msg.get("extensions") or []:
                for parse in parsers:
                    for kw in ({}, {"server": True}, {"nst": True}):
                        try:
                            parse(body, **kw)
                        except (T.ParseError, TypeError):
                            pass
                        except Exception as exc:
                            raise Failure(f"{parse.__name__} raised {type(exc).__name__}: {exc} on {body.hex()}")
        try:
            T.split_messages(data)
        except T.ParseError:
            pass
    check(accepted > 100, "fuzz: a fair share of mutants still parse")
    check(True, "fuzz: only ParseError escaped")

    # RefServer on garbage: HandshakeError only
    key = ed25519.Ed25519PrivateKey.generate()
    chain = [der(self_signed(key))]
    good = T.RefClient(server_name="localhost", alpn=[b"h3"], rng=det_rng(1)).client_hello()
    for i in range(1500):
        data = bytearray(good)
        for _ in range(rnd.randint(1, 3)):
            data[rnd.randrange(len(data))] = rnd.randrange(256)
        server = T.RefServer(chain, key, rng=det_rng(i))
        try:
            server.receive_client_hello(bytes(data))
            server.default_flight()
        except T.HandshakeError:
            pass
        except Exception as exc:
            raise Failure(f"RefServer raised {type(exc).__name__}: {exc} on {bytes(data).hex()}")
    check(True, "RefServer: only HandshakeError on mutated ClientHello")

    # key schedule sanity: RFC 5869 test case 1 (HKDF-SHA256)
    prk = T.hkdf_extract("sha256", bytes.fromhex("000102030405060708090a0b0c"), bytes([0x0B] * 22))
    check(prk.hex() == "077709362c2e32df0ddc3f0dc47bba6390b6c73bb50f9c3122ec844ad7c2b3e5", "RFC 5869 A.1 PRK")
    okm = T.hkdf_expand("sha256", prk, bytes.fromhex("f0f1f2f3f4f5f6f7f8f9"), 42)
    check(
        okm.hex() == "3cb25f25faacd57a90434f64d0362f2a2d2d0a90cf1a5a4c5db02d56ecc4c5bf34007208d5b887185865",
        "RFC 5869 A.1 OKM",
    )
    # RFC 8448 section 3 constants that are reproducible without a trace: the
    # early secret for a zero PSK and its "derived" secret
    ks = T.KeySchedule(T.TLS_AES_128_GCM_SHA256)
    check(
        ks.early_secret.hex() == "33ad0a1c607ec03b09e6cd9893680ce210adf300aa1f2660e1b22e10f170f92a",
        "RFC 8448 early secret",
    )
    derived = T.derive_secret("sha256", ks.early_secret, b"derived", hashlib.sha256(b"").digest())
    check(
        derived.hex() == "6f2615a108c702c5678f54fc9dbab69716c076189c48250cebeac3576c3611ba",
        "RFC 8448 derived secret",
    )
    check(
        T.KeySchedule.certificate_verify_input(b"H" * 32, True)
        == b" " * 64 + b"TLS 1.3, server CertificateVerify\x00" + b"H" * 32,
        "certificate_verify_input",
    )


# --------------------------------------------------------------------------
# observations (--observe): how the unmodified aioquic reacts to a key-holding
# peer that deviates from RFC 8446.  Nothing here can fail the selftest.
# --------------------------------------------------------------------------


def observe_aioquic(mat) -> None:
    tls, _ = aq()

    def run(name, f):
        try:
            r=f(); print(f"[{name}] ACCEPTED -> {r}")
        except tls.Alert as e: print(f"[{name}] alert {type(e).__name__}: {e}")
        except T.HandshakeError as e: print(f"[{name}] reftls HandshakeError {e}")
        except Exception as e: print(f"[{name}] ESCAPED {type(e).__name__}: {e}")

    def base(label="rsa", **kw):
        c,s,ch=refserver_handshake(mat,label,0x1301,29, **kw); return c,s
    def finish(c,s,flight):
        out=c.feed(flight); ok=s.check_client_finished(out["HANDSHAKE"]); return f"state={c.ctx.state.name} clientfin_ok={ok}"

    def p1():
        c,s=base(); c.feed(s.server_hello())
        fl=s.encrypted_extensions()+s.certificate()+s.certificate_verify(algorithm=0x0401)+s.finished(); return finish(c,s,fl)
    run("CV rsa_pkcs1_sha256", p1)
    def p1b():
        c,s=base(); c.feed(s.server_hello())
        fl=s.encrypted_extensions()+s.certificate()+s.certificate_verify(algorithm=0x0201)+s.finished(); return finish(c,s,fl)
    run("CV rsa_pkcs1_sha1", p1b)
    def p2():
        c,s=base(); c.feed(s.server_hello(legacy_session_id_echo=b"evil"*4))
        fl=s.encrypted_extensions()+s.certificate()+s.certificate_verify()+s.finished(); return finish(c,s,fl)
    run("SH wrong session id echo", p2)
    def p3():
        c,s=base(); c.feed(s.server_hello(random=T.HRR_RANDOM))
        fl=s.encrypted_extensions()+s.certificate()+s.certificate_verify()+s.finished(); return finish(c,s,fl)
    run("SH with HRR random treated as SH", p3)
    def p4():
        c,s=base(alpn=None); c.feed(s.server_hello())
        fl=s.encrypted_extensions(alpn=b"not-offered")+s.certificate()+s.certificate_verify()+s.finished(); return finish(c,s,fl)+f" alpn={c.ctx.alpn_negotiated}"
    run("EE ALPN not offered (client offered none)", p4)
    def p4b():
        c,s=base(); c.feed(s.server_hello())
        fl=s.encrypted_extensions(alpn=b"other")+s.certificate()+s.certificate_verify()+s.finished(); return finish(c,s,fl)+f" alpn={c.ctx.alpn_negotiated}"
    run("EE ALPN other than offered", p4b)
    def p5():
        c,s=base(); c.feed(s.server_hello())
        fl=s.encrypted_extensions()+s.certificate(request_context=b"ctx")+s.certificate_verify()+s.finished(); return finish(c,s,fl)
    run("server Certificate with request_context", p5)
    def p6():
        c,s=base(); c.feed(s.server_hello())
        return c.feed(s.encrypted_extensions()+s.certificate(chain=[]))
    run("empty certificate list", p6)
    def p7():
        c,s=base(); c.feed(s.server_hello(extra_extensions=[(43,b"\x03\x04")]))
        fl=s.encrypted_extensions()+s.certificate()+s.certificate_verify()+s.finished(); return finish(c,s,fl)
    run("duplicate supported_versions in SH", p7)
    def p7b():
        c,s=base(); c.feed(s.server_hello(extra_extensions=[(0x39,b"zz"),(16,b"")]))
        fl=s.encrypted_extensions()+s.certificate()+s.certificate_verify()+s.finished(); return finish(c,s,fl)
    run("forbidden extensions in SH (QUIC TP, ALPN)", p7b)
    def p8():
        c,s=base(); c.feed(s.server_hello())
        fl=s.encrypted_extensions(extra_extensions=[(0x39,b"dup")])+s.certificate()+s.certificate_verify()+s.finished(); return finish(c,s,fl)+f" ext={c.ctx.received_extensions}"
    run("duplicate QUIC TP in EE", p8)
    def p9():
        c,s=base(); c.feed(s.server_hello())
        fl=s.encrypted_extensions(early_data=True)+s.certificate()+s.certificate_verify()+s.finished(); return finish(c,s,fl)+f" early_accepted={c.ctx.early_data_accepted}"
    run("EE early_data without PSK", p9)
    def p10():
        c,s=base(); c.feed(s.server_hello())
        fl=s.encrypted_extensions()+s.certificate()+s.certificate_verify()+s.finished()
        r=finish(c,s,fl); c.feed(T.encode_message({"type":24,"request_update":0})); return r
    run("KeyUpdate post handshake", p10)
    def p11():
        c,s=base(); c.feed(s.server_hello())
        fl=s.encrypted_extensions()+s.certificate_request(signature_algorithms=[0x0804], request_context=b"ctx")+s.certificate()+s.certificate_verify()+s.finished()
        out=c.feed(fl); msgs=s.receive_client_flight(out["HANDSHAKE"]); return [ (T.message_name(x["type"]), x.get("request_context")) for x in msgs]
    run("CertificateRequest with context in handshake", p11)
    def p12():
        c,s=base(); c.feed(s.server_hello(version=0x0303))
    run("SH selected version 1.2", p12)
    def p13():
        c,s=base(); c.feed(s.server_hello(cipher_suite=0x1302))
    run("SH suite not offered", p13)
    def p14():
        # client only supports x25519 but server answers with P-256 share
        c=aioquic_client(cipher_suites=[0x1301],groups=[29]); ch=c.feed(b"")["INITIAL"]
        s=T.RefServer([der(mat["rsa"][0])],mat["rsa"][1])
        s.receive_client_hello(ch)
        priv,pub=T.generate_key_share(23); s.key_share=(23,pub)
        c.feed(s.server_hello())
    run("SH key_share group not offered", p14)
    def p15():
        c,s=base(); sh=s.server_hello()
        c.feed(sh); c.feed(s.encrypted_extensions()+s.certificate()+s.certificate_verify()+s.finished()+s.finished())
    run("two Finished", p15)
    def p16():
        c,s=base(); c.feed(s.server_hello())
        fl=s.encrypted_extensions()+s.certificate()+s.certificate_verify()+s.finished()
        r=finish(c,s,fl)
        c.feed(T.encode_message({"type":4,"ticket_lifetime":10**9,"ticket_age_add":0,"ticket_nonce":b"","ticket":b"","extensions":[]}))
        return r+" (NST with empty ticket and lifetime 1e9 accepted)"
    run("NST empty ticket", p16)

    # aioquic server side
    def q1():
        cl,sv,out=refclient_handshake(mat,"rsa",0x1301,29, signature_algorithms=(0x0401,))
        return [T.message_name(x["type"]) for x in cl.receive_server_flight(out["INITIAL"]+out["HANDSHAKE"])]
    run("aioquic server, client offers only rsa_pkcs1_sha256", q1)
    def q2():
        cl,sv,out=refclient_handshake(mat,"rsa",0x1301,29, request_cert=True, client_cert=mat["rsa"][:2])
        cl.receive_server_flight(out["INITIAL"]+out["HANDSHAKE"])
        sv.feed(cl.certificate()+cl.certificate_verify(algorithm=0x0401)+cl.finished()); return sv.ctx.state.name
    run("aioquic server accepts client CV rsa_pkcs1_sha256", q2)
    def q3():
        cl,sv,out=refclient_handshake(mat,"rsa",0x1301,29, request_cert=True, client_cert=mat["rsa"][:2])
        cl.receive_server_flight(out["INITIAL"]+out["HANDSHAKE"])
        sv.feed(cl.certificate(request_context=b"x")+cl.certificate_verify()+cl.finished()); return sv.ctx.state.name
    run("aioquic server accepts client Certificate with wrong context", q3)
    def q4():
        sv=aioquic_server(*mat["rsa"][:2])
        cl=T.RefClient(server_name="localhost",cipher_suites=(0x1301,))
        cl.client_hello(); msg=dict(cl.client_hello_msg, compression_methods=[1,0])
        out=sv.feed(T.encode_message(msg)); return "SH sent" if out["INITIAL"] else "nothing"
    run("aioquic server CH compression [1,0]", q4)
    def q5():
        sv=aioquic_server(*mat["rsa"][:2])
        cl=T.RefClient(server_name="localhost",cipher_suites=(0x1301,))
        cl.client_hello(); msg=dict(cl.client_hello_msg); msg["extensions"]=msg["extensions"]+[(43,b"\x02\x03\x04")]
        out=sv.feed(T.encode_message(msg)); return "SH sent" if out["INITIAL"] else "nothing"
    run("aioquic server CH duplicate supported_versions", q5)
    def q6():
        sv=aioquic_server(*mat["rsa"][:2])
        cl=T.RefClient(server_name="localhost",cipher_suites=(0x1301,), legacy_session_id=b"s"*33)
        out=sv.feed(cl.client_hello()); return "SH sent" if out["INITIAL"] else "nothing"
    run("aioquic server CH session id 33 bytes", q6)
    def q7():
        sv=aioquic_server(*mat["rsa"][:2])
        cl=T.RefClient(server_name="localhost",cipher_suites=(0x1301,), groups=(29,), key_share_groups=(23,))
        out=sv.feed(cl.client_hello()); return "SH sent" if out["INITIAL"] else "nothing"
    run("aioquic server CH key_share group not in supported_groups", q7)
    def q8():
        sv=aioquic_server(*mat["rsa"][:2])
        cl=T.RefClient(server_name="localhost",cipher_suites=(0x1301,), groups=(29,), key_share_groups=())
        out=sv.feed(cl.client_hello()); return "SH sent" if out["INITIAL"] else "nothing"
    run("aioquic server CH empty key_share (should HRR)", q8)
    def q9():
        sv=aioquic_server(*mat["rsa"][:2])
        cl=T.RefClient(server_name="localhost",cipher_suites=(0x1301,), groups=(29,))
        cl.client_hello(); msg=dict(cl.client_hello_msg)
        msg["extensions"]=[(t,(T.build_key_share([(29,b"\x00"*32)]) if t==51 else b)) for t,b in msg["extensions"]]
        out=sv.feed(T.encode_message(msg)); return "SH sent" if out["INITIAL"] else "nothing"
    run("aioquic server x25519 all-zero public key", q9)


def main() -> int:
    material = load_material()
    sections = [
        ("codec", test_codec),
        ("robustness", test_robustness),
        ("RefServer vs aioquic client", lambda: test_refserver(material)),
        ("RefClient vs aioquic server", lambda: test_refclient(material)),
        ("PSK RefServer", lambda: test_psk_refserver(material)),
        ("PSK RefClient", lambda: test_psk_refclient(material)),
    ]
    for name, func in sections:
        try:
            func()
        except Failure as exc:
            print(f"reftls selftest FAILED in [{name}]: {exc}")
            return 1
        except Exception:
            print(f"reftls selftest ERROR in [{name}]:")
            traceback.print_exc()
            return 1
    if "--observe" in sys.argv[1:]:
        for text in NOTES:
            print("note:", text)
        observe_aioquic(material)
    print(f"reftls selftest ok ({CHECKS} checks)")
    return 0


if __name__ == "__main__":
    sys.exit(main())
