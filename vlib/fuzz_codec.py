#!/venv/bin/python
"""Coverage-guided fuzz target (atheris / libFuzzer) for C17: bytes -> one decoder of aioquic (TLS handshake messages, transport parameters, ACK frames,
packet headers) under the decode / re-encode / decode oracle of props/C17.py (`decode_twice`): a decoder either raises its documented parse error or
returns a value that does not depend on bytes beyond what it consumed, stays within the declared message length, and survives encode -> decode.

Run by props/C17.py:  python vlib/fuzz_codec.py <shadow root> <corpus dir> -runs=N -seed=N ...
A violation (or an undocumented exception) leaves crash-<sha1> in the working directory; `decode()` names the codec and the bytes for the replay.
"""
import os
import sys

VERIF = os.path.dirname(os.path.dirname(os.path.abspath(__file__)))
TLS = [("client_hello", 1), ("server_hello", 2), ("new_session_ticket", 4), ("encrypted_extensions", 8), ("certificate", 11), ("certificate_request", 13), ("certificate_verify", 15), ("finished", 20)]
NCODEC = 2 * len(TLS) + 3


class FuzzViolation(Exception):
    pass


def decode(data):
    """bytes -> (codec name, message bytes, extra) or None"""
    if len(data) < 2:
        return None
    sel = data[0] % NCODEC
    body = bytes(data[1:])
    if sel < len(TLS):
        # the declared length is made to fit: the fuzzer explores the message grammar
        name, t = TLS[sel]
        return "tls-" + name, bytes([t]) + len(body).to_bytes(3, "big") + body, None
    if sel < 2 * len(TLS):
        # the declared length is the fuzzer's: inconsistencies between inner and outer lengths
        name, t = TLS[sel - len(TLS)]
        return "tls-" + name, bytes([t]) + body, None
    if sel == 2 * len(TLS):
        return "tp", body, None
    if sel == 2 * len(TLS) + 1:
        return "ack", body, None
    return "header", body[1:], body[0] % 21


class MiniCtx:
    def case(self, *a, **k):
        pass

    def cls(self, *a, **k):
        pass

    def violation(self, sig, text, case=None, **k):
        raise FuzzViolation("%s: %s" % (sig, text))


def run_one(codec, data, extra):
    from aioquic.buffer import Buffer
    from aioquic.quic.packet import pull_ack_frame, pull_quic_header, pull_quic_transport_parameters, push_ack_frame, push_quic_transport_parameters
    from props import C17

    ctx = MiniCtx()
    if codec.startswith("tls-"):
        if len(data) < 4:
            return
        push, pull = C17.tls_codec(codec[4:])
        C17.decode_twice(ctx, codec, data, pull, push, C17.tls_errors(), 16384)
    elif codec == "tp":
        C17.decode_twice(ctx, "tp", data, pull_quic_transport_parameters, push_quic_transport_parameters, (ValueError,), 4096)
    elif codec == "ack":
        C17.decode_twice(ctx, "ack", data, lambda buf: pull_ack_frame(buf), lambda buf, val: push_ack_frame(buf, val[0], val[1]), (ValueError, AssertionError), 4096, suffix_ok=True)
    else:
        try:
            h = pull_quic_header(Buffer(data=data), host_cid_length=extra)
        except ValueError:
            return
        if h.packet_length > len(data):
            raise FuzzViolation("header-length-beyond-input: packet_length %d > %d bytes given" % (h.packet_length, len(data)))


def main():
    root = sys.argv[1]
    sys.path.insert(0, root)
    sys.path.insert(1, VERIF)
    sys.path.insert(2, os.path.join(VERIF, ".deps"))
    import logging

    logging.disable(logging.CRITICAL)
    import atheris

    with atheris.instrument_imports(include=["aioquic.tls", "aioquic.quic.packet", "aioquic.buffer"]):
        import aioquic.quic.packet  # noqa
        import aioquic.tls  # noqa
    from props import C17  # noqa (not instrumented: the oracle)

    def test_one(data):
        d = decode(bytes(data))
        if d is None:
            return
        run_one(*d)

    atheris.Setup([sys.argv[0]] + sys.argv[2:], test_one)
    atheris.Fuzz()


if __name__ == "__main__":
    main()
