"""Real aioquic endpoints for the harness: cached fixtures, configurations,
determinism pins (DRBG for os.urandom, deterministic key generation, pinned
utcnow, pinned QuicStream.__hash__)."""
import contextlib
import datetime
import hashlib
import io
import os
import types

FIX = os.path.join(os.path.dirname(os.path.abspath(__file__)), "fixtures")

_cache = {}


def fixture_path(name):
    return os.path.join(FIX, name)


def load_cert(name):
    """-> list of x509 certificates from a PEM fixture (cached)"""
    k = ("cert", name)
    if k not in _cache:
        from aioquic.tls import load_pem_x509_certificates

        with open(fixture_path(name), "rb") as f:
            _cache[k] = load_pem_x509_certificates(f.read())
    return _cache[k]


def load_key(name):
    k = ("key", name)
    if k not in _cache:
        from aioquic.tls import load_pem_private_key

        with open(fixture_path(name), "rb") as f:
            _cache[k] = load_pem_private_key(f.read(), None)
    return _cache[k]


def ca_data(name="ca.pem"):
    k = ("ca", name)
    if k not in _cache:
        with open(fixture_path(name), "rb") as f:
            _cache[k] = f.read()
    return _cache[k]


LEAVES = {
    "ed25519": ("leaf_ed25519.pem", "leaf_ed25519.key", []),
    "rsa": ("leaf_rsa.pem", "leaf_rsa.key", []),
    "p256": ("leaf_p256.pem", "leaf_p256.key", []),
    "p384": ("leaf_p384.pem", "leaf_p384.key", []),
    "ed448": ("leaf_ed448.pem", "leaf_ed448.key", []),
    "chain2": ("leaf_ica.pem", "leaf_ed25519.key", ["ica.pem"]),
    "chain3": ("leaf_chain.pem", "leaf_ed25519.key", ["ica2.pem", "ica.pem"]),
    "chain3-noica": ("leaf_chain.pem", "leaf_ed25519.key", ["ica.pem"]),
    # a server flight of more than 7 kB: the two intermediates followed by copies (unused certificates in the list are ignored by the verifier)
    "chain-long": ("leaf_chain.pem", "leaf_ed25519.key", ["ica2.pem", "ica.pem"] + ["ica.pem", "ica2.pem"] * 12),
    "wrongname": ("leaf_wrongname.pem", "leaf_ed25519.key", []),
    "expired": ("leaf_expired.pem", "leaf_ed25519.key", []),
    "notyet": ("leaf_notyet.pem", "leaf_ed25519.key", []),
    "foreign": ("leaf_foreign.pem", "leaf_ed25519.key", []),
    "selfsigned": ("leaf_selfsigned.pem", "leaf_ed25519.key", []),
}


# optional hook: callable role -> dict of extra QuicConfiguration arguments (explicit arguments win); used by C20 to switch logging on
EXTRA = None


def server_config(leaf="ed25519", **kw):
    from aioquic.quic.configuration import QuicConfiguration

    if EXTRA is not None:
        kw = {**EXTRA("server"), **kw}
    cfg = QuicConfiguration(is_client=False, **kw)
    cert, key, chain = LEAVES[leaf]
    cfg.certificate = load_cert(cert)[0]
    cfg.private_key = load_key(key)
    cfg.certificate_chain = [load_cert(c)[0] for c in chain]
    return cfg


def client_config(server_name="localhost", ca="ca.pem", **kw):
    from aioquic.quic.configuration import QuicConfiguration

    if EXTRA is not None:
        kw = {**EXTRA("client"), **kw}
    cfg = QuicConfiguration(is_client=True, **kw)
    cfg.cadata = ca_data(ca)
    cfg.server_name = server_name
    return cfg


# ------------------------------------------------------------------ determinism


class DRBG:
    def __init__(self, seed):
        if not isinstance(seed, bytes):
            seed = repr(seed).encode()
        self.key = hashlib.sha256(b"verif-drbg" + seed).digest()
        self.ctr = 0
        self.buf = b""

    def __call__(self, n):
        while len(self.buf) < n:
            self.buf += hashlib.sha256(self.key + self.ctr.to_bytes(8, "big")).digest()
            self.ctr += 1
        out, self.buf = self.buf[:n], self.buf[n:]
        return out


FIXED_NOW = datetime.datetime(2030, 6, 1, 12, 0, 0, tzinfo=datetime.timezone.utc)

_P256_ORDER = 0xFFFFFFFF00000000FFFFFFFFFFFFFFFFBCE6FAADA7179E84F3B9CAC2FC632551
_P384_ORDER = 0xFFFFFFFFFFFFFFFFFFFFFFFFFFFFFFFFFFFFFFFFFFFFFFFFC7634D81F4372DDF581A0DB248B0A77AECEC196ACCC52973


@contextlib.contextmanager
def pinned(seed):
    """Deterministic randomness, key generation and wall clock for aioquic while the context is active."""
    import aioquic.tls as tls
    from aioquic.quic.stream import QuicStream
    from cryptography.hazmat.primitives.asymmetric import ec, x448, x25519

    drbg = DRBG(seed)
    saved = {
        "urandom": os.urandom,
        "x25519": tls.x25519,
        "x448": tls.x448,
        "ec": tls.ec,
        "utcnow": tls.utcnow,
        "hash": QuicStream.__dict__.get("__hash__"),
    }

    class X25519Shim:
        @staticmethod
        def generate():
            return x25519.X25519PrivateKey.from_private_bytes(drbg(32))

    class X448Shim:
        @staticmethod
        def generate():
            return x448.X448PrivateKey.from_private_bytes(drbg(56))

    def gen_ec(curve, *a, **k):
        order = _P384_ORDER if isinstance(curve, ec.SECP384R1) else _P256_ORDER
        if not isinstance(curve, (ec.SECP256R1, ec.SECP384R1)):
            return ec.generate_private_key(curve, *a, **k)
        v = int.from_bytes(drbg(48), "big") % (order - 1) + 1
        return ec.derive_private_key(v, curve)

    def proxy(mod, **over):
        ns = types.SimpleNamespace(**{k: getattr(mod, k) for k in dir(mod) if not k.startswith("__")})
        for k, v in over.items():
            setattr(ns, k, v)
        return ns

    x25519_ns = proxy(x25519)
    x25519_ns.X25519PrivateKey = type("X25519PrivateKey", (), {"generate": X25519Shim.generate, "from_private_bytes": x25519.X25519PrivateKey.from_private_bytes})
    x448_ns = proxy(x448)
    x448_ns.X448PrivateKey = type("X448PrivateKey", (), {"generate": X448Shim.generate, "from_private_bytes": x448.X448PrivateKey.from_private_bytes})
    ec_ns = proxy(ec, generate_private_key=gen_ec)
    os.urandom = drbg
    tls.x25519 = x25519_ns
    tls.x448 = x448_ns
    tls.ec = ec_ns
    tls.utcnow = lambda: FIXED_NOW
    QuicStream.__hash__ = lambda self: hash(self.stream_id)
    try:
        yield drbg
    finally:
        os.urandom = saved["urandom"]
        tls.x25519 = saved["x25519"]
        tls.x448 = saved["x448"]
        tls.ec = saved["ec"]
        tls.utcnow = saved["utcnow"]
        if saved["hash"] is None:
            try:
                del QuicStream.__hash__
            except AttributeError:
                pass
        else:
            QuicStream.__hash__ = saved["hash"]


# ------------------------------------------------------------------ a lossless connected pair (no simulator)

CLIENT_ADDR = ("1.2.3.4", 1234)
SERVER_ADDR = ("2.3.4.5", 4433)


def transfer(sender, receiver, now, src):
    n = 0
    for data, addr in sender.datagrams_to_send(now=now):
        n += 1
        receiver.receive_datagram(data, src, now=now)
    return n


def drain(conn):
    evs = []
    while True:
        e = conn.next_event()
        if e is None:
            return evs
        evs.append(e)


def connected_pair(client_kw=None, server_kw=None, leaf="ed25519", now=0.0, rounds=6):
    """-> (client, server, now) after a lossless handshake."""
    from aioquic.quic.connection import QuicConnection

    ccfg = client_config(**(client_kw or {}))
    scfg = server_config(leaf, **(server_kw or {}))
    client = QuicConnection(configuration=ccfg)
    client.connect(SERVER_ADDR, now=now)
    server = QuicConnection(configuration=scfg, original_destination_connection_id=client.original_destination_connection_id)
    for _ in range(rounds):
        now += 0.001
        a = transfer(client, server, now, CLIENT_ADDR)
        now += 0.001
        b = transfer(server, client, now, SERVER_ADDR)
        if not a and not b:
            break
    return client, server, now
