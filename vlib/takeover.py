"""The key-holding peer: after a real handshake between two aioquic endpoints the
genuine peer P is frozen and the harness speaks in its place, building packets
with the independent implementation (vlib.refquic) from P's send secrets, and
decrypting everything the SUT answers.
"""
import io

from . import endpoints as E
from . import refquic as R
from .wire import WireObserver

V62 = (1 << 62) - 1


class Takeover:
    def __init__(self, sut_role="server", client_kw=None, server_kw=None, leaf="ed25519", script=None, now=0.0, session_ticket=None, server_conn_kw=None):
        """Runs a lossless handshake (plus an optional application warm-up `script(client, server, pump)`), then freezes the peer.
        Must be called inside endpoints.pinned()."""
        from aioquic.quic.connection import QuicConnection

        self.sut_role = sut_role
        self.keylog = io.StringIO()
        ckw = dict(client_kw or {})
        skw = dict(server_kw or {})
        # the key log belongs to the peer that will be impersonated (it records both directions)
        if sut_role == "server":
            ckw["secrets_log_file"] = self.keylog
        else:
            skw["secrets_log_file"] = self.keylog
        self.ccfg = E.client_config(**ckw)
        if session_ticket is not None:
            self.ccfg.session_ticket = session_ticket
        self.scfg = E.server_config(leaf, **skw)
        self.client = QuicConnection(configuration=self.ccfg)
        self.client.connect(E.SERVER_ADDR, now=now)
        self.server = QuicConnection(configuration=self.scfg, original_destination_connection_id=self.client.original_destination_connection_id, **(server_conn_kw or {}))
        self.wire = WireObserver(keylog=self.keylog)
        self.now = now
        self.sut = self.server if sut_role == "server" else self.client
        self.peer = self.client if sut_role == "server" else self.server
        self.X = "s" if sut_role == "server" else "c"  # observer name of the SUT
        self.P = "c" if sut_role == "server" else "s"  # observer name of the impersonated peer
        self.peer_addr = E.CLIENT_ADDR if sut_role == "server" else E.SERVER_ADDR
        self.events = []
        self.terminated = None
        self.sut_packets = []  # every PacketView the SUT emitted after the takeover
        self.raw_log = []
        self.pump(rounds=8)
        if script is not None:
            script(self.client, self.server, self.pump)
            self.pump(rounds=6)
        self.drain_events()
        # P is frozen from here on
        self.pn = max(self.wire.largest[(self.P, "app")], 0) + 1
        self.sut_cids = {}  # sequence number -> cid issued by the SUT (learned from the wire)
        self.sut_cids[0] = self.sut.host_cid if not self.sut_cids else self.sut_cids[0]
        for t, views, _ in self.wire.history[self.X]:
            for v in views:
                for f in v.frames or []:
                    if f["name"] == "new_connection_id":
                        self.sut_cids[f["seq"]] = bytes(f["cid"])
        # packets that could not be opened when they were emitted (keys not logged yet) are decoded again now
        self.handshake_views = {"c": [], "s": []}
        for name, data in self.raw_log:
            views = self.wire.decode(name, data, record=False)
            self.handshake_views[name].extend(views)
            if name == self.X:
                for v in views:
                    for f in v.frames or []:
                        if f["name"] == "new_connection_id":
                            self.sut_cids[f["seq"]] = bytes(f["cid"])
        self.dcid = self.sut.host_cid
        self.frozen_at = self.now
        self.key_gen = self.wire.rings[self.P].gen

    # ------------------------------------------------------------------ plumbing
    def pump(self, rounds=4):
        for _ in range(rounds):
            self.now += 0.001
            a = self._xfer(self.client, self.server, "c", E.CLIENT_ADDR)
            self.now += 0.001
            b = self._xfer(self.server, self.client, "s", E.SERVER_ADDR)
            if not a and not b:
                break

    def _xfer(self, sender, receiver, name, src):
        n = 0
        for data, addr in sender.datagrams_to_send(now=self.now):
            n += 1
            self.wire.observe(name, data, self.now)
            self.raw_log.append((name, data))
            receiver.receive_datagram(data, src, now=self.now)
        return n

    def drain_events(self):
        out = []
        while True:
            e = self.sut.next_event()
            if e is None:
                break
            out.append(e)
            if type(e).__name__ == "ConnectionTerminated":
                self.terminated = e
        self.events.extend(out)
        return out

    # ------------------------------------------------------------------ speaking as P
    def keys(self):
        ring = self.wire.rings[self.P]
        if not ring.app:
            # P never sent a 1-RTT packet: derive from the key log
            self.wire.refresh()
            label = "CLIENT_TRAFFIC_SECRET_0" if self.P == "c" else "SERVER_TRAFFIC_SECRET_0"
            secret = self.wire.secrets[label]
            suite = self.wire.suite or (R.AES256 if len(secret) == 48 else R.AES128)
            ring.app = [R.derive_keys(suite, self.wire.version or R.V1, secret)]
        while len(ring.app) <= self.key_gen:
            ring.app.append(R.update_keys(ring.app[-1]))
        return ring.app[self.key_gen]

    def build_packet(self, payload, pn=None, pn_len=2, dcid=None, key_phase=None):
        if pn is None:
            pn = self.pn
            self.pn += 1
        else:
            self.pn = max(self.pn, pn + 1)
        dcid = self.dcid if dcid is None else dcid
        if len(payload) + pn_len < 4:
            payload = payload + bytes(4 - pn_len - len(payload))
        kp = (self.key_gen & 1) if key_phase is None else key_phase
        hdr = R.build_short_header(dcid, pn, pn_len, key_phase=kp)
        return R.protect(self.keys(), hdr, pn, payload), pn

    def send_payload(self, payload, src=None, **kw):
        """Deliver one 1-RTT packet carrying `payload` (raw frame bytes) to the SUT.  Returns the packet number used."""
        pkt, pn = self.build_packet(payload, **kw)
        self.deliver(pkt, src)
        return pn

    def send_frames(self, frames, src=None, **kw):
        return self.send_payload(R.encode_frames(frames), src=src, **kw)

    def deliver(self, datagram, src=None):
        self.now += 0.0005
        self.sut.receive_datagram(datagram, src or self.peer_addr, now=self.now)

    # ------------------------------------------------------------------ listening to the SUT
    def collect(self):
        """Call datagrams_to_send on the SUT, decode, remember; returns the list of PacketViews."""
        out = []
        for data, addr in self.sut.datagrams_to_send(now=self.now):
            views = self.wire.observe(self.X, data, self.now)
            for v in views:
                v.dest = addr
                v.dgram_len = len(data)
            out.extend(views)
            for v in views:
                for f in v.frames or []:
                    if f["name"] == "new_connection_id":
                        self.sut_cids[f["seq"]] = bytes(f["cid"])
        self.sut_packets.extend(out)
        return out

    def ack(self, pns=None):
        """Acknowledge SUT packets (all received so far in the app space by default)."""
        if pns is None:
            pns = [v.pn for v in self.sut_packets if v.space == "app" and v.pn is not None]
        f = self.ack_frame(pns)
        return None if f is None else self.send_frames([f])

    def ack_frame(self, pns):
        if not pns:
            return None
        ranges = []
        for n in sorted(set(pns), reverse=True):
            if ranges and ranges[-1][0] == n + 1:
                ranges[-1] = (n, ranges[-1][1])
            else:
                ranges.append((n, n))
        return R.ack_frame_from_ranges(ranges, 0)

    def fire_timer(self, at_least=0.0, max_wait=None):
        t = self.sut.get_timer()
        if t is None:
            return False
        if max_wait is not None and t - self.now > max_wait:
            return False  # (the idle timer: not what the caller is waiting for)
        self.now = max(self.now + at_least, t)
        self.sut.handle_timer(now=self.now)
        return True

    def cycle(self):
        """events, datagrams, timer value - the Sans-IO cycle"""
        ev = self.drain_events()
        pk = self.collect()
        return ev, pk


def sut_transport_parameters(tk):
    return transport_parameters(tk, tk.X)


def transport_parameters(tk, who):
    """The transport parameters endpoint `who` ("c"/"s") advertised, recovered from the decrypted wire by the independent
    codecs (ClientHello for a client, EncryptedExtensions for a server).  -> dict name -> value"""
    from . import reftls as L

    space = "initial" if who == "c" else "handshake"
    want = L.HT_CLIENT_HELLO if who == "c" else L.HT_ENCRYPTED_EXTENSIONS
    chunks = {}
    for v in tk.handshake_views[who]:
        if v.space != space:
            continue
        for f in v.frames or []:
            if f["name"] == "crypto":
                chunks[f["offset"]] = bytes(f["data"])
    data = bytearray()
    for off in sorted(chunks):
        if off <= len(data):
            data[off : off + len(chunks[off])] = chunks[off]
    pos = 0
    while pos + 4 <= len(data):
        ln = int.from_bytes(data[pos + 1 : pos + 4], "big")
        msg = bytes(data[pos : pos + 4 + ln])
        if len(msg) < 4 + ln:
            break
        if msg[0] == want:
            d = L.decode_message(msg, strict=False)
            body = L.find_extension(d["extensions"], L.EXT_QUIC_TRANSPORT_PARAMETERS)
            if body is not None:
                return R.tp_decode_typed(R.decode_transport_parameters(L.parse_quic_transport_parameters(body)))
        pos += 4 + ln
    return None
