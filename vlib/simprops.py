"""Rule / assumption texts of the simulator-based property checks."""
COMMON = [
    "the caller follows the documented Sans-IO cycle (events, datagrams_to_send, get_timer after every call; timers fired at or after the deadline, never before)",
    "schedules are sampled: Hypothesis-generated scripts and per-datagram fates in a virtual-time simulator that owns clock and network",
    "determinism pins of vlib/endpoints.py; the wire is decrypted by vlib/refquic.py with keys from the server's NSS key log",
]
RULES = {
    "C09": (
        "one evaluation = one simulated connection (C01-style script and fates) extended with close(code, reason) by either side at arbitrary "
        "points (before / during / after the handshake, with data in flight), total blackout from a drawn instant, negotiated idle timeouts of "
        "2 s, 4 s and 60 s, timers fired with jitter in {0, 1 us, 0.5 ms, 3 ms}. After every call on a live endpoint get_timer() must be a finite "
        "number; termination is reported at most once and nothing after it; from the moment an endpoint enters closing/draining it must report "
        "termination within 3 x PTO (read at that moment) and send only CONNECTION_CLOSE packets; after a blackout it must terminate at the idle "
        "deadline and not before. Non-trivial = a close started with ack-eliciting data outstanding or during the handshake, or a termination by "
        "idle timeout; distinct by the case digest."
    ),
    "C12": (
        "one evaluation = one simulated connection with data in both directions and fates that drop / duplicate / reorder packets including ACKs "
        "and acks of acks (no key update, rebind or close; timers fired exactly when asked). Soundness: every packet number in every ACK frame an "
        "endpoint emits (decrypted wire) belongs to the packets of that space the network actually delivered to it. Timeliness: after handshake "
        "completion an ack-eliciting packet carrying the highest number so far in the application space is covered by an ACK sent no later than "
        "25 ms (+2 ms simulator slack) after its arrival; in the Initial/Handshake spaces by the next packet sent in that space. Non-trivial = an "
        "ACK frame with more than one range was emitted (a gap existed); distinct by the case digest."
    ),
    "C13": (
        "one evaluation = one simulated connection: certificate chains of 1..3 certificates with Ed25519/RSA leaves, max_datagram_size in "
        "{1200, 1280, 1350, 1452}, Retry on/off, loss / duplication / reordering of Initial and Handshake datagrams, client address changes "
        "mid-connection. Every emitted datagram <= the sender's max_datagram_size; every client datagram containing an Initial packet and every "
        "server datagram containing an ack-eliciting Initial packet (decrypted with Initial keys) is >= 1200 bytes; per remote address of the "
        "server, bytes sent <= 3 x bytes received until the address is validated in the harness's own model (a Handshake packet from it was "
        "delivered, the connection was created from a Retry token, or a PATH_RESPONSE echoing a challenge sent to it was delivered). Non-trivial = "
        "the server sent more than 3600 bytes to an unvalidated address or the client rebound; distinct by the case digest."
    ),
}
ASSUMPTIONS_FOR = {
    "C09": COMMON + ["'starting to close' is observed as the first cycle after which the connection state is CLOSING or DRAINING (attribute read)", "bounded horizon: 15 virtual seconds after the script"],
    "C12": COMMON + ["'received' is approximated from outside by 'delivered by the network' (a sound superset: forged packets are never delivered in this check)", "timeliness obligations are dropped for packets arriving after the endpoint started closing"],
    "C13": COMMON + ["the validation model is a superset of the legitimate validation events, so it can only make the check more permissive, never raise a false alarm"],
}
