"""Simulator-based checks shared by C01, C08(b), C09, C12, C13 (and reused by C20).

Each property module asks ``plan_for(prop, tier, seed)`` for its tasks and
dispatches them to ``run_task``; ``replay`` re-runs a saved case.
"""
import collections

from . import refquic as R
from . import simnet
from .simnet import Monitor, Sim

V1, V2 = R.V1, R.V2
TRANSPORT_ERRORS_FROM_NETWORK = True


# =============================================================================== case generation


def case_strategy(profile):
    """Hypothesis strategy for simulator cases.  profile: dict of switches."""
    from hypothesis import strategies as st

    adv = profile.get("adv_end", 3.0)
    sizes = st.sampled_from([0, 1, 2, 5, 100, 1199, 1200, 1201, 5000, 5000, 20000, 20000] + ([200000] if profile.get("big") else []))
    tm = st.floats(0.05, adv * 0.95, allow_nan=False, allow_infinity=False).map(lambda f: round(f, 4))
    who = st.sampled_from(["c", "s"])
    write = st.fixed_dictionaries({"t": tm, "who": who, "op": st.just("write"), "stream": st.one_of(st.sampled_from(["bidi", "bidi", "uni"]), st.sampled_from(["bidi", "uni"]), st.integers(0, 5)), "n": sizes, "fin": st.booleans()})
    fin_only = st.fixed_dictionaries({"t": tm, "who": who, "op": st.just("write"), "stream": st.integers(0, 5), "n": st.just(0), "fin": st.just(True)})
    ops = [write, write, write, write, fin_only]
    if profile.get("reset", True):
        ops.append(st.fixed_dictionaries({"t": tm, "who": who, "op": st.just("reset"), "stream": st.integers(0, 5)}))
        ops.append(st.fixed_dictionaries({"t": tm, "who": who, "op": st.just("stop"), "stream": st.integers(0, 5)}))
    ops.append(st.fixed_dictionaries({"t": tm, "who": who, "op": st.just("ping")}))
    if profile.get("dgram"):
        # DATAGRAM frames: fixed-size frames that either fit into what the window leaves or wait
        ops.append(st.fixed_dictionaries({"t": tm, "who": who, "op": st.just("dgram"), "n": st.sampled_from([1, 100, 600, 900, 1100])}))
        ops.append(st.fixed_dictionaries({"t": tm, "who": who, "op": st.just("dgram"), "n": st.sampled_from([600, 900])}))
    if profile.get("early"):
        # written by the client before the handshake completes: 0-RTT data on a resumed connection, queued otherwise
        ops.append(st.fixed_dictionaries({"t": st.sampled_from([0.0, 0.0, 0.001, 0.02]), "who": st.just("c"), "op": st.just("write"), "stream": st.sampled_from(["bidi", "uni", 0]), "n": sizes, "fin": st.booleans(), "early": st.just(True)}))
    if profile.get("key_update", True):
        ops.append(st.fixed_dictionaries({"t": tm, "who": who, "op": st.just("key_update")}))
    if profile.get("change_cid", True):
        ops.append(st.fixed_dictionaries({"t": tm, "who": who, "op": st.just("change_cid")}))
    if profile.get("rebind", False):
        ops.append(st.fixed_dictionaries({"t": tm, "who": st.just("c"), "op": st.just("rebind"), "to": st.sampled_from([None, None, 0, 1, 2])}))
    if profile.get("close", False):
        ops.append(st.fixed_dictionaries({"t": tm, "who": who, "op": st.just("close"), "code": st.sampled_from([0, 0x100, 7]), "reason": st.sampled_from(["", "bye", "x" * 300])}))
        ops.append(st.fixed_dictionaries({"t": tm, "who": st.just("c"), "op": st.just("blackout")}))
    # two writes on the same stream shortly after each other (the second often empty with the end marker): separate frames in
    # separate datagrams that the network can reorder
    pair = st.tuples(tm, who, st.integers(0, 3), st.sampled_from([1, 100, 1200, 5000]), st.sampled_from([0, 0, 0, 1, 100]), st.sampled_from([0.0002, 0.002, 0.02, 0.1]), st.booleans()).map(
        lambda t: [
            {"t": t[0], "who": t[1], "op": "write", "stream": t[2], "n": t[3], "fin": False},
            {"t": round(t[0] + t[5], 4), "who": t[1], "op": "write", "stream": t[2], "n": t[4], "fin": t[6] or t[4] == 0},
        ]
    )
    single = st.one_of(*ops).map(lambda o: [o])
    script = st.lists(st.one_of(single, single, single, pair), min_size=profile.get("min_ops", 3), max_size=profile.get("max_ops", 10)).map(lambda xs: sorted([o for g in xs for o in g], key=lambda o: o["t"]))
    delay = st.one_of(st.floats(0.0, 0.3), st.floats(0.0, 0.02), st.floats(0.3, 1.0)).map(lambda f: round(f, 4))
    kinds = ["deliver"] * 11 + ["drop"] * 4 + (["dup"] * 3 if profile.get("dup", True) else []) + ["deliver"] * 2
    if profile.get("lossless"):
        kinds = ["deliver"]
    fate = st.tuples(st.sampled_from(kinds), delay, delay).map(list)
    fates = st.lists(fate, min_size=profile.get("min_fates", 25), max_size=profile.get("max_fates", 120))
    if not profile.get("lossless"):
        # loss comes in bursts too: a run of consecutive datagrams (both directions) disappears
        burst = st.integers(2, 8).map(lambda k: [["drop", 0.0, 0.0]] * k)
        seg = st.one_of(fate.map(lambda f: [f]), fate.map(lambda f: [f]), fate.map(lambda f: [f]), fate.map(lambda f: [f]), fate.map(lambda f: [f]), fate.map(lambda f: [f]), fate.map(lambda f: [f]), burst)
        fates = st.lists(seg, min_size=profile.get("min_fates", 25), max_size=profile.get("max_fates", 120)).map(lambda xs: [f for g in xs for f in g])
    cfg = st.fixed_dictionaries(
        {
            "cc": st.sampled_from(["reno", "cubic"]),
            "client_version": st.sampled_from([V1, V2]),
            "server_versions": st.sampled_from([[V1, V2], [V2, V1]]),
            "max_data": st.sampled_from([4096, 20000, 1048576]),
            "max_stream_data": st.sampled_from([4096, 20000, 1048576]),
            "mds": st.sampled_from(profile.get("mds", [1200, 1280, 1350])),
        }
    )
    jitter = st.lists(st.sampled_from([0.0, 0.0, simnet.EPS, 0.0005, 0.003]), min_size=1, max_size=5)
    extra = profile.get("cfg_extra")
    if profile.get("cfg_extra_fn") == "c09":
        # the two endpoints may advertise different idle timeouts: the smaller one is in force once both are known
        extra = {"idle_timeout": st.sampled_from([60.0, 60.0, 4.0, 2.0]), "s_idle_timeout": st.sampled_from([None, None, 2.0, 5.0, 60.0]), "c_idle_timeout": st.sampled_from([None, None, None, 3.0, 60.0])}
    elif profile.get("cfg_extra_fn") == "c13":
        extra = {"leaf": st.sampled_from(["ed25519", "p256", "rsa", "chain2", "chain3", "chain3", "chain-long", "chain-long"]), "retry": st.sampled_from([False, False, True]), "mute_client_after": st.sampled_from([None, None, 1, 1, 2, 3]), "resume": st.sampled_from([False, False, True])}
    elif profile.get("cfg_extra_fn") == "c08":
        # the client may have to start over: Retry, or Version Negotiation with a server that does not speak the version it started with
        extra = {"retry": st.sampled_from([False, False, True]), "server_versions": st.sampled_from([[V1, V2], [V2, V1], [V1], [V2]]), "resume": st.sampled_from([False, False, True]), "datagrams": st.just(True)}
    if profile.get("resume") and not (extra and "resume" in extra):
        extra = dict(extra or {}, resume=st.sampled_from([False, False, True]))
    if profile.get("c_keylog"):
        extra = dict(extra or {}, c_keylog=st.just(True))
    if profile.get("jitter0"):
        jitter = st.just([0.0])
    if extra:
        cfg = st.tuples(cfg, st.fixed_dictionaries(extra)).map(lambda t: dict(t[0], **t[1]))
    return st.fixed_dictionaries({"cfg": cfg, "script": script, "fates": fates, "jitter": jitter, "adv_end": st.just(adv), "fair": st.just(profile.get("fair", 20.0))})


# =============================================================================== monitors


class C01Monitor(Monitor):
    """delivered == prefix of written; end marker once and only after everything; fair => all delivered; no protocol-error close."""

    def start(self, sim):
        self.written = collections.defaultdict(bytearray)  # (sender, sid) -> bytes
        self.fin = set()
        self.reset = set()  # (sender, sid) sender reset
        self.stopped = set()  # (receiver, sid) receiver asked to stop
        self.recv = collections.defaultdict(bytearray)  # (receiver, sid)
        self.eos = collections.Counter()
        self.reset_seen = set()
        self.pings = {"c": set(), "s": set()}
        self.acked_pings = {"c": set(), "s": set()}
        self.closed_by_script = False
        self.rebinds = 0
        self.fair_rx_from_new_path = 0

    def on_datagram_in(self, sim, x, data, addr, now):
        if x == "s" and self.rebinds and now >= sim.adv_end:
            srv = sim.ep["s"].conn
            if srv is not None and srv._network_paths and addr == srv._network_paths[0].addr:
                self.fair_rx_from_new_path += 1

    def on_api(self, sim, x, name, a):
        if name == "write":
            self.written[(x, a["stream"])] += a["data"]
            if a["fin"]:
                self.fin.add((x, a["stream"]))
        elif name == "reset":
            self.reset.add((x, a["stream"]))
        elif name == "stop":
            self.stopped.add((x, a["stream"]))
        elif name == "ping":
            self.pings[x].add(a["uid"])
        elif name in ("close",):
            self.closed_by_script = True
        elif name == "rebind":
            self.rebinds += 1

    def on_event(self, sim, x, e, now):
        name = type(e).__name__
        peer = sim.peer(x)
        if name == "StreamDataReceived":
            k = (x, e.stream_id)
            w = self.written[(peer, e.stream_id)]
            if self.eos[k]:
                if e.end_stream:
                    sim.violation("end-of-stream-signalled-twice", "%s: stream %d: second end_stream event (data %d bytes) at t=%.4f" % (x, e.stream_id, len(e.data), now))
                    raise simnet.SimStop()
                if e.data:
                    sim.violation("data-after-end-of-stream", "%s: stream %d: %d bytes delivered after end_stream" % (x, e.stream_id, len(e.data)))
                    raise simnet.SimStop()
            self.recv[k] += e.data
            got = self.recv[k]
            if bytes(got) != bytes(w[: len(got)]):
                sim.violation("delivered-bytes-not-a-prefix-of-written", "%s: stream %d: %d bytes delivered are not a prefix of the %d bytes written" % (x, e.stream_id, len(got), len(w)))
                raise simnet.SimStop()
            if e.end_stream:
                self.eos[k] += 1
                self.eos_len = len(got)
                self.pending_eos_check = getattr(self, "pending_eos_check", [])
                self.pending_eos_check.append((k, len(got), now))
                if (peer, e.stream_id) not in self.fin:
                    if (peer, e.stream_id) in self.reset or (x, e.stream_id) in self.stopped:
                        sim.stats["c01:end-marker-on-abandoned-stream"] += 1
                    else:
                        sim.violation("end-of-stream-without-fin", "%s: stream %d: end_stream although the sender never finished the stream" % (x, e.stream_id))
                        raise simnet.SimStop()
        elif name == "StreamReset":
            k = (x, e.stream_id)
            if (peer, e.stream_id) not in self.reset and (x, e.stream_id) not in self.stopped:
                sim.violation("stream-reset-out-of-nowhere", "%s: StreamReset on stream %d which nobody reset or stopped" % (x, e.stream_id))
                raise simnet.SimStop()
            self.reset_seen.add(k)
        elif name == "PingAcknowledged":
            self.acked_pings[x].add(e.uid)
        elif name == "ConnectionTerminated":
            if not self.closed_by_script and sim.blackout is None:
                sim.violation(
                    "connection-closed-by-lossy-network-0x%x" % e.error_code,
                    "%s reports ConnectionTerminated(error_code=0x%x, frame_type=%r, reason=%r) at t=%.3f although the network only dropped/delayed/duplicated/reordered datagrams" % (x, e.error_code, e.frame_type, e.reason_phrase, now),
                )
                raise simnet.SimStop()

    def finish(self, sim):
        # "only after all of them": at the end of the run every end marker must coincide with everything the sender wrote
        for k, n, t in getattr(self, "pending_eos_check", []):
            x, sid = k
            peer = sim.peer(x)
            if (peer, sid) in self.reset or (x, sid) in self.stopped:
                continue  # abandoned stream: the statement does not forbid an end marker after a reset
            if (peer, sid) in self.fin and n != len(self.written[(peer, sid)]):
                sim.violation("end-of-stream-before-all-bytes", "%s: stream %d: end_stream after %d of %d bytes" % (x, sid, n, len(self.written[(peer, sid)])))
                return
        if sim.inconclusive or self.closed_by_script or sim.blackout is not None:
            return
        if any(ep.terminated for ep in sim.ep.values()):
            return
        # liveness on a fair network
        if self.server_amplification_blocked(sim):
            # RFC 9000 8.1 / 9.3: towards an address it could not validate (yet) a server may send at most three times what it received from
            # it; a client that moved and then stays quiet gives it nothing to spend.  Nothing can be delivered and nothing is owed -
            # unless the client did keep sending during the fair phase: then the server had every opportunity to validate the path.
            if self.fair_rx_from_new_path >= 6:
                sim.violation(
                    "new-client-address-never-validated",
                    "the server received %d datagrams from the client's new address during %.0f s of fair network and still treats it as unvalidated (3x limit: received %d bytes, sent %d)"
                    % (self.fair_rx_from_new_path, sim.fair, sim.ep["s"].conn._network_paths[0].bytes_received, sim.ep["s"].conn._network_paths[0].bytes_sent),
                )
                return
            sim.stats["c01:liveness-waived-server-amplification-blocked"] += 1
            return
        for (x, sid), w in self.written.items():
            peer = sim.peer(x)
            if (x, sid) in self.reset or (peer, sid) in self.stopped:
                continue
            got = self.recv[(peer, sid)]
            if bytes(got) != bytes(w):
                sig = "written-bytes-never-delivered"
                cls = self.classify_stall(sim)
                sim.violation(sig + cls, "%s->%s stream %d: %d of %d bytes delivered after %.1fs of fair network (t=%.2f, steps=%d)%s" % (x, peer, sid, len(got), len(w), sim.fair, sim.now, sim.steps, cls))
                return
            if (x, sid) in self.fin and self.eos[(peer, sid)] != 1:
                cls = self.classify_stall(sim)
                sim.violation("end-of-stream-never-delivered" + cls, "%s->%s stream %d: all %d bytes delivered but no end_stream after %.1fs of fair network%s" % (x, peer, sid, len(w), sim.fair, cls))
                return
        for x in ("c", "s"):
            if self.pings[x] - self.acked_pings[x]:
                cls = self.classify_stall(sim)
                sim.violation("ping-never-acknowledged" + cls, "%s: pings %r never acknowledged on a fair network%s" % (x, sorted(self.pings[x] - self.acked_pings[x]), cls))
                return

    def server_amplification_blocked(self, sim):
        srv = sim.ep["s"].conn
        if self.rebinds and srv is not None:
            try:
                path = srv._network_paths[0]
                # (29 bytes is the smallest 1-RTT packet: below that not even a PATH_CHALLENGE or an ACK can be sent)
                return not path.is_validated and path.bytes_received * 3 - path.bytes_sent < 29 + 8
            except Exception:
                pass
        return False

    def classify_stall(self, sim):
        tags = []
        if sim.stats["op:key_update"]:
            tags.append("key-update")
        if self.rebinds:
            tags.append("rebind")
        if sim.stats["op:fin-only-write"]:
            tags.append("fin-only-write")
        return ("-with-" + "+".join(tags)) if tags else ""


class TimerMonitor(Monitor):
    """C09: a live connection always names a finite timer; termination exactly once; nothing after it."""

    def start(self, sim):
        self.term = collections.Counter()
        self.closing_started = {}
        self.close_emitted = collections.Counter()

    def after_cycle(self, sim, x, now, produced):
        import math

        ep = sim.ep[x]
        if ep.conn is None or not ep.started:
            return
        t = ep.conn.get_timer()
        if ep.terminated is None:
            if t is None or not isinstance(t, (int, float)) or not math.isfinite(t):
                sim.violation("live-connection-without-timer", "%s: get_timer() = %r at t=%.4f while the connection has not reported termination" % (x, t, now))
                raise simnet.SimStop()

    def on_event(self, sim, x, e, now):
        name = type(e).__name__
        if sim.ep[x].terminated is not None:
            sim.violation("event-after-termination", "%s: %s delivered after ConnectionTerminated" % (x, name))
            raise simnet.SimStop()
        if name == "ConnectionTerminated":
            self.term[x] += 1
            if self.term[x] > 1:
                sim.violation("termination-reported-twice", "%s: second ConnectionTerminated" % x)
                raise simnet.SimStop()



def ref_pto(conn):
    """RFC 9002 6.2.1 probe timeout from the endpoint's RTT estimator (read as data), without the loss-detection backoff"""
    loss = conn._loss
    if not loss._rtt_initialized:
        return 2 * loss._rtt_initial
    return loss._rtt_smoothed + max(4 * loss._rtt_variance, 0.001) + loss.max_ack_delay


class C09Monitor(Monitor):
    """closing always terminates: once, within 3 PTO of starting to close or at the idle deadline; only closing packets in between."""

    CLOSE_FRAMES = {"connection_close", "application_close", "padding"}

    def start(self, sim):
        self.closing = {}  # x -> (t0, pto, how)
        self.last_rx = {}
        self.idle = {}
        self.max_jitter = max(sim.jitter) if sim.jitter else 0.0
        self.closed_by = set()
        self.nontrivial = False
        self.first_activity = {}
        self.first_tx_after_rx = {}
        self.mark = {}
        self.good_rx = {}
        self.seen_rx = {}
        self.top_pn = {}

    def on_api(self, sim, x, name, a):
        if name == "close":
            self.closed_by.add(x)

    def before_send(self, sim, x, now):
        if sim.wire is not None:
            self.mark[x] = len(sim.wire.history[x])

    def _state(self, conn):
        st = getattr(conn, "_state", None)
        return getattr(st, "name", None)

    def on_datagram_in(self, sim, x, data, addr, now):
        self.last_rx[x] = now
        self.first_tx_after_rx.pop(x, None)
        self.first_activity.setdefault(x, now)
        # a lower bound for the idle deadline: a datagram this endpoint sees for the first time, after its handshake completed and before it
        # started closing, that contains a 1-RTT packet the wire observer can open with the sender's keys, is a packet "received and processed
        # successfully" (RFC 9000 section 10.1) whatever frames it carries - the idle period restarts there
        ep = sim.ep[x]
        if sim.wire is None or ep.terminated is not None:
            return
        seen = self.seen_rx.setdefault(x, set())
        if data in seen:
            return
        seen.add(data)
        try:
            views = sim.wire.decode(sim.peer(x), data, record=False)
        except Exception:  # noqa
            views = []
        # only a packet with a number above everything delivered so far counts: an older one may lawfully be discarded (below the floor of the
        # duplicate-detection window, or protected with keys of a generation the endpoint has dropped)
        top = self.top_pn.get(x, -1)
        app = [v for v in views if v.ptype in ("1rtt", "0rtt") and v.frames is not None and v.pn is not None]
        if app:
            self.top_pn[x] = max(top, max(v.pn for v in app))
        fresh = [v for v in app if v.ptype == "1rtt" and v.pn > top]
        if fresh and ep.handshake_complete and x not in self.closing and self._state(ep.conn) == "CONNECTED":
            self.good_rx[x] = now
            if any(all(n in ("path_challenge", "path_response", "new_connection_id", "padding") for n in v.names()) for v in fresh):
                sim.stats["c09:probing-only-packet-received"] += 1

    def after_cycle(self, sim, x, now, produced):
        ep = sim.ep[x]
        c = ep.conn
        self.first_activity.setdefault(x, now)
        if c is None or ep.terminated is not None:
            return
        if x not in self.closing and self._state(c) in ("CLOSING", "DRAINING"):
            pto = ref_pto(c)
            how = "local" if x in self.closed_by else ("peer" if self._state(c) == "DRAINING" else "error")
            self.closing[x] = (now, pto, how)
            sim.stats["c09:closing-" + how] += 1
            # the flight that starts the closing period: only closing packets (an ACK may ride along)
            if sim.wire is not None:
                for t, views, _ in sim.wire.history[x][self.mark.get(x, 0) :]:
                    for v in views:
                        extra = [n for n in v.names() if n not in self.CLOSE_FRAMES and n != "ack"] if v.frames is not None else []
                        if extra:
                            sim.violation("non-closing-packet-sent-while-closing", "%s sent %s frames in the flight that starts its closing period (t=%.4f)" % (x, extra, now))
                            raise simnet.SimStop()
            if sum(s.ack_eliciting_in_flight for s in c._loss.spaces) or not ep.handshake_complete:
                self.nontrivial = True
        if x not in self.closing and sim.blackout is not None and ep.handshake_complete and x in self.last_rx:
            idle_cfg = min(sim.ccfg.idle_timeout, sim.scfg.idle_timeout)
            base = max(self.last_rx[x], self.first_tx_after_rx.get(x, 0.0))
            limit = base + max(idle_cfg, 3 * ref_pto(c)) + self.max_jitter + 0.01
            if now > limit + 1.0:
                sim.violation("idle-period-does-not-terminate", "%s: nothing received since t=%.3f (blackout at t=%.3f), negotiated idle timeout %.3f, still no termination at t=%.3f" % (x, self.last_rx[x], sim.blackout, idle_cfg, now))
                raise simnet.SimStop()
        if x in self.closing:
            t0, pto, how = self.closing[x]
            deadline = t0 + 3 * pto + self.max_jitter + 0.002
            if now > deadline + 0.5:
                sim.violation("closing-does-not-terminate", "%s started closing (%s) at t=%.4f with PTO %.4f; no ConnectionTerminated by t=%.4f (limit %.4f)" % (x, how, t0, pto, now, deadline))
                raise simnet.SimStop()

    def on_datagram_out(self, sim, x, data, addr, now):
        self.first_tx_after_rx.setdefault(x, now)
        if x in self.closing and sim.wire is not None:
            t0 = self.closing[x][0]
            if now > t0:
                for v in sim.wire.last(x):
                    if v.frames is None:
                        continue
                    extra = [n for n in v.names() if n not in self.CLOSE_FRAMES]
                    if extra:
                        sim.violation("non-closing-packet-sent-while-closing", "%s sent %s frames at t=%.4f after it started closing at t=%.4f" % (x, extra, now, t0))
                        raise simnet.SimStop()

    def on_event(self, sim, x, e, now):
        if type(e).__name__ != "ConnectionTerminated":
            return
        ep = sim.ep[x]
        if x in self.closing:
            t0, pto, how = self.closing[x]
            deadline = t0 + 3 * pto + self.max_jitter + 0.002
            if now > deadline:
                sim.violation("termination-later-than-three-pto", "%s started closing (%s) at t=%.4f, PTO %.4f, reported termination at t=%.4f > %.4f" % (x, how, t0, pto, now, deadline))
                raise simnet.SimStop()
        else:
            # not preceded by a closing period: idle timeout (or a termination the harness did not see coming)
            idle_cfg = min(sim.ccfg.idle_timeout, sim.scfg.idle_timeout)
            last = self.last_rx.get(x)
            if getattr(e, "reason_phrase", "") == "Idle timeout" and last is not None:
                self.nontrivial = True
                sim.stats["c09:idle-termination"] += 1
                first = self.first_activity.get(x, 0.0)
                if now < first + idle_cfg - 1e-9:
                    sim.violation("idle-termination-too-early", "%s reported idle timeout at t=%.4f, it only became active at t=%.4f, negotiated idle timeout %.3f" % (x, now, first, idle_cfg))
                    raise simnet.SimStop()
                good = self.good_rx.get(x)
                if good is not None and now < good + idle_cfg - 1e-9:
                    sim.violation("idle-termination-before-idle-deadline", "%s reported idle timeout at t=%.4f although it received and could process a 1-RTT packet at t=%.4f; negotiated idle timeout %.3f, so the idle deadline was not before t=%.4f" % (x, now, good, idle_cfg, good + idle_cfg))
                    raise simnet.SimStop()

    def finish(self, sim):
        for x, (t0, pto, how) in self.closing.items():
            ep = sim.ep[x]
            deadline = t0 + 3 * pto + self.max_jitter + 0.002
            if ep.terminated is None and sim.now > deadline and not sim.inconclusive:
                sim.violation("closing-does-not-terminate", "%s started closing (%s) at t=%.4f with PTO %.4f and never reported termination (run ended at t=%.4f)" % (x, how, t0, pto, sim.now))
                return
        # idle: after a blackout each started endpoint must have terminated by last_rx + max(idle, 3 PTO) (+ slack)
        if sim.blackout is not None and not sim.inconclusive:
            idle_cfg = min(sim.ccfg.idle_timeout, sim.scfg.idle_timeout)
            for x, ep in sim.ep.items():
                if ep.conn is None or not ep.started or ep.terminated is not None or x in self.closing:
                    continue
                last = max(self.last_rx.get(x, 0.0), 0.0)
                limit = last + max(idle_cfg, 3 * ref_pto(ep.conn)) + 1.0
                if sim.now > limit + 2.0 and ep.handshake_complete:
                    sim.violation("idle-period-does-not-terminate", "%s: nothing received since t=%.3f (blackout), idle timeout %.3f, still not terminated at t=%.3f" % (x, last, idle_cfg, sim.now))
                    return


class C12Monitor(Monitor):
    """ACK frames name only delivered packets; ack-eliciting highest packets are acknowledged in time."""

    def start(self, sim):
        self.sent_map = {}  # datagram bytes id -> list of (space, pn, ack_eliciting)
        self.delivered = {"c": collections.defaultdict(set), "s": collections.defaultdict(set)}
        self.highest = {"c": collections.defaultdict(lambda: -1), "s": collections.defaultdict(lambda: -1)}
        self.oblig = {"c": [], "s": []}  # (space, pn, deadline or None)
        self.max_ack_delay = 0.025
        self.nontrivial = False
        self.gaps = 0
        self.closing = set()

    def on_api(self, sim, x, name, a):
        if name == "close":
            self.closing.add(x)

    def on_datagram_out(self, sim, x, data, addr, now):
        views = sim.wire.last(x)
        self.sent_map[data] = [(v.space, v.pn, v.ack_eliciting) for v in views if v.pn is not None]
        c = sim.ep[x].conn
        if getattr(getattr(c, "_state", None), "name", "") in ("CLOSING", "DRAINING"):
            self.closing.add(x)
        for v in views:
            if v.frames is None:
                continue
            for f in v.frames:
                if f["name"] != "ack":
                    continue
                acked = f.get("acked") or []
                have = self.delivered[x][v.space]
                for lo, hi in [tuple(sorted(r)) for r in acked]:
                    if hi - lo > 100000:
                        sim.violation("ack-names-packets-never-received", "%s acknowledges the range %d..%d in the %s space" % (x, lo, hi, v.space))
                        raise simnet.SimStop()
                    for n in range(lo, hi + 1):
                        if n not in have:
                            sim.violation("ack-names-packets-never-received", "%s acknowledges packet %d in the %s space at t=%.4f but that packet was never delivered to it (delivered: %s)" % (x, n, v.space, now, sorted(have)[-12:]))
                            raise simnet.SimStop()
                if len(acked) > 1:
                    self.nontrivial = True
                # discharge obligations covered by this ack
                rem = []
                for sp, pn, dl in self.oblig[x]:
                    if sp == v.space and any(min(r) <= pn <= max(r) for r in acked):
                        if dl is not None and now > dl:
                            sim.violation("ack-later-than-max-ack-delay", "%s acknowledged packet %d (%s space) at t=%.4f, deadline %.4f" % (x, pn, sp, now, dl))
                            raise simnet.SimStop()
                        continue
                    rem.append((sp, pn, dl))
                self.oblig[x] = rem
            # Initial / Handshake: the next transmission in that space must acknowledge
            if v.space in ("initial", "handshake"):
                pend = [(sp, pn, dl) for sp, pn, dl in self.oblig[x] if sp == v.space]
                if pend:
                    sim.violation("handshake-space-packet-not-acknowledged-by-next-transmission", "%s sent a %s packet at t=%.4f that does not acknowledge packet %r received earlier" % (x, v.space, now, [p[1] for p in pend]))
                    raise simnet.SimStop()

    def on_datagram_in(self, sim, x, data, addr, now):
        ep = sim.ep[x]
        routable = True
        if x == "c" and ep.conn is not None:
            # a datagram addressed to a connection ID the client has retired in the meantime is dropped whole (it may be a late
            # retransmission built before the server switched IDs): nothing in it is "received"
            try:
                first = R.split_datagram(data, 8, require_fixed_bit=False)[0]
                routable = bytes(first.dcid) in [bytes(c.cid) for c in ep.conn._host_cids]
            except Exception:  # noqa
                routable = True
        for sp, pn, ae in self.sent_map.get(data, []):
            self.delivered[x][sp].add(pn)
            if not routable:
                continue
            if pn > self.highest[x][sp]:
                if pn > self.highest[x][sp] + 1:
                    self.gaps += 1
                self.highest[x][sp] = pn
                if ae and x not in self.closing and ep.conn is not None:
                    if sp == "app":
                        if ep.handshake_complete and self._can_read_app(ep):
                            self.oblig[x].append((sp, pn, now + self.max_ack_delay + 0.002))
                    elif not self._space_discarded(ep, sp):
                        self.oblig[x].append((sp, pn, None))

    def _can_read_app(self, ep):
        return True

    def _amplification_limited(self, ep):
        try:
            p = ep.conn._network_paths[0]
            return (not ep.conn._is_client) and (not p.is_validated) and p.bytes_received * 3 - p.bytes_sent < 64 + 40
        except Exception:
            return False

    def _space_discarded(self, ep, sp):
        from aioquic import tls

        epoch = tls.Epoch.INITIAL if sp == "initial" else tls.Epoch.HANDSHAKE
        try:
            return ep.conn._spaces[epoch].discarded or not ep.conn._cryptos[epoch].recv.is_valid() if sp == "handshake" else ep.conn._spaces[epoch].discarded
        except Exception:
            return True

    def after_cycle(self, sim, x, now, produced):
        ep = sim.ep[x]
        if ep.terminated is not None or x in self.closing:
            self.oblig[x] = []
            return
        rem = []
        limited = self._amplification_limited(ep)
        for sp, pn, dl in self.oblig[x]:
            if sp != "app" and self._space_discarded(ep, sp):
                continue
            if dl is not None and limited:
                # RFC 9000 8.1: towards an address it has not validated the endpoint may not have the budget for an ACK frame;
                # the clock starts when it can send again
                rem.append((sp, pn, max(dl, now + self.max_ack_delay + 0.002)))
                continue
            if dl is not None and now > dl + 0.001:
                sim.violation("ack-later-than-max-ack-delay", "%s has not acknowledged ack-eliciting packet %d (app space, highest so far) by t=%.4f; it arrived at t=%.4f and the advertised max_ack_delay is 25 ms" % (x, pn, now, dl - self.max_ack_delay - 0.002))
                raise simnet.SimStop()
            rem.append((sp, pn, dl))
        self.oblig[x] = rem


class C13Monitor(Monitor):
    """datagram size, Initial padding, anti-amplification."""

    def start(self, sim):
        self.sent_to = collections.Counter()
        self.recv_from = collections.Counter()
        self.validated = set()
        self.challenges = collections.defaultdict(set)  # addr -> challenge data sent to it
        self.sent_map = {}
        self.nontrivial = False
        self.server_flight = 0

    def on_api(self, sim, x, name, a):
        if x == "s" and name == "created" and a.get("retry"):
            self.validated.add(a["addr"])
        if name == "rebind":
            self.nontrivial = True

    def on_datagram_out(self, sim, x, data, addr, now):
        ep = sim.ep[x]
        mds = (sim.ccfg if x == "c" else sim.scfg).max_datagram_size
        if len(data) > mds:
            sim.violation("datagram-larger-than-max-datagram-size", "%s emitted a datagram of %d bytes, max_datagram_size is %d" % (x, len(data), mds))
            raise simnet.SimStop()
        views = sim.wire.last(x)
        self.sent_map[data] = views
        for v in views:
            if v.ptype == R.PT_INITIAL:
                if x == "c" and len(data) < 1200:
                    sim.violation("client-initial-datagram-shorter-than-1200", "client datagram of %d bytes contains an Initial packet (pn %r, frames %s) at t=%.4f" % (len(data), v.pn, v.names() if v.frames is not None else "?", now))
                    raise simnet.SimStop()
                if x == "s" and len(data) < 1200 and v.ack_eliciting:
                    sim.violation("server-ack-eliciting-initial-datagram-shorter-than-1200", "server datagram of %d bytes contains an ack-eliciting Initial packet (frames %s)" % (len(data), v.names() if v.frames is not None else "?"))
                    raise simnet.SimStop()
        if x == "s":
            for v in views:
                if v.frames:
                    for f in v.frames:
                        if f["name"] == "path_challenge":
                            self.challenges[addr].add(bytes(f["data"]))
            self.sent_to[addr] += len(data)
            if addr not in self.validated:
                if self.sent_to[addr] > 3 * self.recv_from[addr]:
                    sim.violation("anti-amplification-limit-exceeded", "server has sent %d bytes to %r which is not validated, after receiving %d bytes from it (t=%.4f)" % (self.sent_to[addr], addr, self.recv_from[addr], now))
                    raise simnet.SimStop()
                if self.sent_to[addr] > 3600:
                    self.nontrivial = True

    def on_datagram_in(self, sim, x, data, addr, now):
        if x != "s":
            return
        self.recv_from[addr] += len(data)
        views = self.sent_map.get(data)
        if views is None and sim.wire is not None:
            views = sim.wire.decode("c", data, record=False)
        for v in views or []:
            if v.ptype == R.PT_HANDSHAKE:
                self.validated.add(addr)
            if v.frames:
                for f in v.frames:
                    if f["name"] == "path_response":
                        # RFC 9000 8.2.3: a PATH_RESPONSE received on any path validates the path the challenge was sent on
                        for a2, ch in self.challenges.items():
                            if bytes(f["data"]) in ch:
                                self.validated.add(a2)


class C02EmitMonitor(Monitor):
    """every long- or short-header packet either endpoint emits opens for the independent implementation with the keys its header selects:
    Initial keys of the version in the header, handshake / 0-RTT / 1-RTT keys from the key logs, the key generation its Key Phase bit names"""

    def start(self, sim):
        self.nontrivial = False
        self.n = 0
        self.versions = set()

    def on_datagram_out(self, sim, x, data, addr, now):
        for v in sim.wire.last(x):
            if v.ptype not in (R.PT_INITIAL, R.PT_HANDSHAKE, R.PT_ZERO_RTT, R.PT_ONE_RTT):
                continue
            self.n += 1
            if v.info is not None and v.info.version:
                self.versions.add(v.info.version)
            if v.frames is None:
                sim.violation(
                    "emitted-packet-not-opened-by-reference",
                    "%s emitted a %d-byte %s packet (header version %s) at t=%.4f that the reference implementation cannot open with the keys the header selects" % (x, v.size, v.ptype, hex(v.info.version) if v.info is not None and v.info.version else "-", now),
                )
                raise simnet.SimStop()
            if v.ptype == R.PT_ONE_RTT and v.key_gen is not None and v.key_phase != (v.key_gen & 1):
                sim.violation("key-phase-bit-does-not-match-keys", "%s emitted 1-RTT packet %d protected with key generation %d carrying Key Phase bit %d" % (x, v.pn, v.key_gen, v.key_phase))
                raise simnet.SimStop()
        if len(self.versions) > 1 or sim.stats["op:key_update"] or sim.stats["retry-sent"] or sim.stats["resume:ticket"]:
            self.nontrivial = True


def tls_epoch(name):
    import aioquic.tls as T

    return getattr(T.Epoch, name)


class C08WireMonitor(Monitor):
    """in-flight bytes put on the wire by one datagrams_to_send call <= window left (+ one probe datagram)."""

    NOT_IN_FLIGHT = {"ack", "connection_close", "application_close"}

    def start(self, sim):
        self.before = {}
        self.nontrivial = False
        self.calls = 0
        self.probe_credit = collections.Counter()
        self.early_probe_used = set()  # endpoints that have taken their one early probe
        self.early_flag = None

    def on_timer(self, sim, x, now, deadline):
        # one probe datagram per timeout: a timer call at or after the loss-detection deadline is such a timeout (acknowledgement, pacing and idle
        # deadlines are not); the credit does not accumulate
        c = sim.ep[x].conn
        try:
            t = c._loss.get_loss_detection_time()
        except Exception:  # noqa
            t = None
        if t is not None and now >= t - 1e-9:
            self.probe_credit[x] = 1

    def on_datagram_in(self, sim, x, data, addr, now):
        # RFC 9002 6.2.3: a client that receives Handshake or 1-RTT packets it has no keys for, and a server that receives duplicate Initial CRYPTO
        # data, may - a limited number of times per connection - send a probe "as if the PTO had expired".  aioquic does so once per endpoint and
        # remembers it in a flag: the moment the flag is raised counts as one timeout.
        self.early_flag = (x, bool(getattr(sim.ep[x].conn, "_crypto_retransmitted", False)))

    def before_send(self, sim, x, now):
        c = sim.ep[x].conn
        if self.early_flag is not None and self.early_flag[0] == x and not self.early_flag[1] and getattr(c, "_crypto_retransmitted", False) and x not in self.early_probe_used:
            self.early_probe_used.add(x)
            self.probe_credit[x] = 1
            sim.stats["c08:early-probe"] += 1
        self.early_flag = None
        self.before[x] = (c._loss.congestion_window, c._loss.bytes_in_flight, self.probe_credit[x] > 0, c._max_datagram_size)
        self.out = 0
        self.initial_padding = 0

    def on_datagram_out(self, sim, x, data, addr, now):
        views = sim.wire.last(x)
        for v in views:
            if v.frames is None:
                self.out += v.size
            elif any(n not in self.NOT_IN_FLIGHT for n in v.names()):
                self.out += v.size
        if x == "c" and len(data) >= 1200 and any(v.ptype == R.PT_INITIAL for v in views):
            # a client datagram that holds an Initial packet has to be padded to 1200 bytes (RFC 9000 14.1): remember how much padding went into
            # packets that count as in flight
            self.initial_padding += sum(f.get("length", 1) for v in views if v.frames and any(n not in self.NOT_IN_FLIGHT and n != "padding" for n in v.names()) for f in v.frames if f["name"] == "padding")

    def after_cycle(self, sim, x, now, produced):
        if x not in self.before:
            return
        cwnd, bif, probe, mds = self.before.pop(x)
        self.calls += 1
        if bif > cwnd / 2:
            self.nontrivial = True
            sim.stats["c08:send-while-window-half-full"] += 1
        allowed = max(0, cwnd - bif)
        if self.out > allowed and probe:
            allowed = max(allowed, mds)
            self.probe_credit[x] = 0
            sim.stats["c08:probe-datagram-beyond-window"] += 1
        if self.out > allowed:
            sim.violation(
                # (its own signature: the datagram had to be padded because it holds a client Initial packet, and the padding is what exceeds the window)
                "in-flight-bytes-exceed-congestion-window-by-padding-of-client-initial-datagram" if 0 < self.out - allowed <= self.initial_padding else "in-flight-bytes-exceed-congestion-window",
                "%s put %d in-flight bytes on the wire in one datagrams_to_send() call at t=%.4f with cwnd=%d, bytes_in_flight=%d before the call (probe pending: %s)" % (x, self.out, now, cwnd, bif, probe),
            )
            raise simnet.SimStop()
        c = sim.ep[x].conn
        if c._loss.bytes_in_flight < 0:
            sim.violation("bytes-in-flight-negative", "%s bytes_in_flight=%d" % (x, c._loss.bytes_in_flight))
            raise simnet.SimStop()
        tracked = sum(p.sent_bytes for sp in c._loss.spaces for p in sp.sent_packets.values() if p.in_flight)
        if tracked != c._loss.bytes_in_flight:
            sim.violation("bytes-in-flight-mismatch", "%s bytes_in_flight=%d, in-flight packets still tracked total %d at t=%.4f" % (x, c._loss.bytes_in_flight, tracked, now))
            raise simnet.SimStop()


# =============================================================================== tasks


PROFILES = {
    "C01": {"adv_end": 3.0, "fair": 20.0, "rebind": True, "dup": True, "resume": True, "early": True},
    "C01-norebind": {"adv_end": 3.0, "fair": 20.0, "rebind": False, "dup": True, "resume": True, "early": True},
    "C09": {"c_keylog": True, "adv_end": 3.0, "fair": 12.0, "rebind": False, "dup": True, "close": True, "cfg_extra_fn": "c09"},
    "C12": {"c_keylog": True, "adv_end": 3.0, "fair": 5.0, "rebind": False, "dup": True, "key_update": False, "change_cid": True, "jitter0": True},
    "C13": {"c_keylog": True, "adv_end": 3.0, "fair": 6.0, "rebind": True, "dup": True, "cfg_extra_fn": "c13", "mds": [1200, 1280, 1350, 1452, 1472, 1500], "early": True},
    "C02": {"c_keylog": True, "adv_end": 2.0, "fair": 4.0, "rebind": True, "dup": True, "cfg_extra_fn": "c08", "early": True, "max_ops": 6, "max_fates": 60},
    "C08": {"c_keylog": True, "adv_end": 3.0, "fair": 8.0, "rebind": False, "dup": True, "big": True, "key_update": False, "cfg_extra_fn": "c08", "early": True, "dgram": True},
}


def run_case(ctx, prop, case, observe=False):
    mons = monitors_for(prop)
    sim = Sim(case, ctx, monitors=mons, observe=observe or needs_wire(prop))
    sim.run()
    return sim


def needs_wire(prop):
    return prop in ("C02", "C08", "C09", "C12", "C13")


def monitors_for(prop):
    if prop == "C01":
        return [C01Monitor(), TimerMonitor()]
    if prop == "C09":
        return [C09Monitor(), TimerMonitor()]
    if prop == "C12":
        return [C12Monitor()]
    if prop == "C13":
        return [C13Monitor()]
    if prop == "C08":
        return [C08WireMonitor()]
    if prop == "C02":
        return [C02EmitMonitor()]
    raise KeyError(prop)


def c01_nontrivial(sim):
    # >= 1 datagram was dropped / duplicated during the application phase and >= 1 stream delivered its FIN
    mon = sim.monitors[0]
    lossy = sim.stats["fate:drop"] + sim.stats["fate:dup"] + sim.stats["held-client-datagram"] + sim.stats["lost-first-to-new-address"] > 0
    return lossy and sum(mon.eos.values()) > 0


def sim_task(ctx, prop, profile_name, examples, shard):
    from hypothesis import strategies as st
    from .harness import run_hypothesis

    strat = rebind_strategy() if profile_name == "C01-rebind-validation" else probe_then_silence_strategy() if profile_name == "C09-probe-then-silence" else late_old_address_strategy() if profile_name == "C01-late-old-address" else migration_strategy() if profile_name == "C13-migration" else slow_handshake_strategy() if profile_name == "C13-slow-handshake" else case_strategy(PROFILES[profile_name])

    def body(ctx, case):
        sim = run_case(ctx, prop, case)
        classes = ["sim:" + profile_name]
        for k in ("fate:drop", "fate:dup", "op:key_update", "op:rebind", "op:reset", "op:stop", "op:change_cid", "op:fin-only-write", "spin", "inconclusive:events", "retry-sent", "version-negotiation"):
            if sim.stats[k]:
                classes.append("has:" + k)
        if case["cfg"]["client_version"] == V2:
            classes.append("cfg:v2")
        classes.append("cfg:" + case["cfg"]["cc"])
        nt = c01_nontrivial(sim) if prop == "C01" else bool(getattr(sim.monitors[0], "nontrivial", True))
        for k in sim.stats:
            if k.startswith(("c09:", "c08:", "c13:", "c12:", "c01:", "lost-first-to-new-address", "lost-to-left-address-fair", "held-client-datagram")):
                classes.append(k)
        ctx.case(sim.seed(), nontrivial=nt, classes=classes)
        if ctx.want_sample():
            ctx.sample({"cfg": case["cfg"], "script": case["script"][:6], "fates": case["fates"][:8], "events": dict(list(sim.stats.items())[:12])})

    run_hypothesis(ctx, body, strat, examples, shard=shard)


def rebind_strategy():
    """a client that changes its address once and keeps talking, on a network that loses exactly the first datagrams sent to the new address"""
    from hypothesis import strategies as st

    def build(t):
        t_rebind, lose, n_pings, gap, size, who_writes, cc, mds, fin = t
        script = [{"t": t_rebind, "who": "c", "op": "rebind"}]
        for i in range(n_pings):
            script.append({"t": round(t_rebind + 0.05 + i * gap, 4), "who": "c", "op": "ping"})
        script.append({"t": round(t_rebind + 0.3, 4), "who": who_writes, "op": "write", "stream": "bidi", "n": size, "fin": fin})
        script.append({"t": round(t_rebind + 0.4, 4), "who": "s", "op": "write", "stream": "uni", "n": 5000, "fin": True})
        script.sort(key=lambda o: o["t"])
        cfg = {"cc": cc, "client_version": V1, "server_versions": [V1, V2], "max_data": 1048576, "max_stream_data": 1048576, "mds": mds, "lose_first_to_new_address": lose}
        return {"cfg": cfg, "script": script, "fates": [], "jitter": [0.0], "adv_end": 3.0, "fair": 20.0}

    return st.tuples(
        st.sampled_from([0.3, 0.5, 1.0]), st.sampled_from([1, 1, 2, 3]), st.integers(3, 12), st.sampled_from([0.05, 0.2, 0.4]), st.sampled_from([100, 20000, 300000, 300000]),
        st.sampled_from(["s", "s", "c"]), st.sampled_from(["reno", "cubic"]), st.sampled_from([1200, 1350]), st.booleans(),
    ).map(build)


def late_old_address_strategy():
    """a client whose address is rebound once, on a network that holds back the last datagram(s) it sent from the old address until the server
    has already moved to the new one; afterwards the client only listens while the server writes (RFC 9000 section 9.3: only a packet with
    the highest packet number received so far moves the path, so the late datagram must not take the server back to the address the client left)"""
    from hypothesis import strategies as st

    def build(t):
        t_rebind, before, hold, n_after, size, fin, cc, mds, early_write = t
        script = []
        if early_write:
            script.append({"t": round(t_rebind - 0.2, 4), "who": "s", "op": "write", "stream": "uni", "n": early_write, "fin": False})
        for i in range(before):
            script.append({"t": round(t_rebind - 0.002 - 0.004 * i, 4), "who": "c", "op": "ping"})
        script.append({"t": t_rebind, "who": "c", "op": "rebind"})
        for i in range(n_after):
            script.append({"t": round(t_rebind + 0.01 + 0.03 * i, 4), "who": "c", "op": "ping"})
        script.append({"t": round(t_rebind + hold + 0.4, 4), "who": "s", "op": "write", "stream": "uni", "n": size, "fin": fin})
        script.append({"t": round(t_rebind + hold + 0.9, 4), "who": "s", "op": "write", "stream": "bidi", "n": 3000, "fin": True})
        script.sort(key=lambda o: o["t"])
        cfg = {"cc": cc, "client_version": V1, "server_versions": [V1, V2], "max_data": 1048576, "max_stream_data": 1048576, "mds": mds,
               "hold_client_datagrams": [round(t_rebind - 0.03, 4), t_rebind, hold]}
        return {"cfg": cfg, "script": script, "fates": [], "jitter": [0.0], "adv_end": 3.0, "fair": 20.0}

    return st.tuples(
        st.sampled_from([0.5, 0.8, 1.0]), st.integers(1, 3), st.sampled_from([0.15, 0.3, 0.6]), st.integers(1, 4), st.sampled_from([100, 5000, 60000]), st.booleans(),
        st.sampled_from(["reno", "cubic"]), st.sampled_from([1200, 1350]), st.sampled_from([0, 0, 2000]),
    ).map(build)


def probe_then_silence_strategy():
    """a client whose address is rebound and that pings once from the new address: the server challenges the new path, the client's answer is a
    packet with nothing but PATH_RESPONSE; then the network goes dark at a generated moment, often with that packet the last one the server got"""
    from hypothesis import strategies as st

    def build(t):
        t_rebind, dark, idle, cc, mds, d, n_ping = t
        script = [{"t": t_rebind, "who": "c", "op": "rebind"}]
        for i in range(n_ping):
            script.append({"t": round(t_rebind + 0.001 + 0.2 * i, 4), "who": "c", "op": "ping"})
        script.append({"t": round(t_rebind + 0.2 * (n_ping - 1) + dark, 4), "who": "c", "op": "blackout"})
        cfg = {"cc": cc, "client_version": V1, "server_versions": [V1, V2], "max_data": 1048576, "max_stream_data": 1048576, "mds": mds, "idle_timeout": idle}
        return {"cfg": cfg, "script": script, "fates": [["deliver", d, d]] * 200, "jitter": [0.0], "adv_end": 3.0, "fair": 12.0}

    return st.tuples(
        st.sampled_from([0.5, 0.8]), st.sampled_from([0.012, 0.022, 0.025, 0.03, 0.035, 0.042, 0.046, 0.05, 0.06, 0.1]), st.sampled_from([2.0, 4.0]), st.sampled_from(["reno", "cubic"]), st.sampled_from([1200, 1350]),
        st.sampled_from([0.005, 0.01, 0.02]), st.integers(1, 2),
    ).map(build)


def migration_strategy():
    """a client that changes its address twice in quick succession (three addresses) while the server has plenty to send, on a network that
    reorders: answers to the path challenge of the second address can arrive after the third address has become the active one"""
    from hypothesis import strategies as st

    delay = st.sampled_from([0.001, 0.005, 0.02, 0.05, 0.12, 0.3])
    fate = st.tuples(st.sampled_from(["deliver"] * 8 + ["drop", "dup"]), delay, delay).map(list)

    def build(t):
        t0, d1, d2, order, n1, n2, gap, cc, mds, fates = t
        script = [{"t": round(t0 + 0.001, 4), "who": "s", "op": "write", "stream": "uni", "n": 200000, "fin": True}]
        script.append({"t": t0, "who": "c", "op": "rebind", "to": order[0]})
        for i in range(n1):
            script.append({"t": round(t0 + 0.0005 + i * min(gap, d1 / (n1 + 1)), 4), "who": "c", "op": "ping"})
        script.append({"t": round(t0 + d1, 4), "who": "c", "op": "rebind", "to": order[1]})
        for i in range(n2):
            script.append({"t": round(t0 + d1 + 0.0005 + i * gap, 4), "who": "c", "op": "ping"})
        if d2:
            script.append({"t": round(t0 + d1 + d2, 4), "who": "c", "op": "rebind", "to": order[2]})
            script.append({"t": round(t0 + d1 + d2 + 0.001, 4), "who": "c", "op": "ping"})
        script.append({"t": round(t0 + d1 + 0.3, 4), "who": "s", "op": "write", "stream": "uni", "n": 200000, "fin": True})
        script.sort(key=lambda o: o["t"])
        cfg = {"cc": cc, "client_version": V1, "server_versions": [V1, V2], "max_data": 1048576, "max_stream_data": 1048576, "mds": mds, "leaf": "ed25519", "retry": False, "mute_client_after": None}
        return {"cfg": cfg, "script": script, "fates": fates, "jitter": [0.0], "adv_end": 3.0, "fair": 6.0}

    return st.tuples(
        st.sampled_from([0.5, 0.8, 1.2]), st.sampled_from([0.002, 0.01, 0.03, 0.1, 0.3]), st.sampled_from([0, 0, 0.01, 0.1]), st.permutations([0, 1, 2]), st.integers(1, 4), st.integers(1, 6),
        st.sampled_from([0.001, 0.01, 0.05]), st.sampled_from(["reno", "cubic"]), st.sampled_from([1200, 1350]), st.lists(fate, min_size=150, max_size=500),
    ).map(build)


def slow_handshake_strategy():
    """a handshake with a long certificate chain over a slow path: the ClientHello and its PTO retransmissions reach the server before any answer gets
    back, so the server keeps running into the anti-amplification limit (every datagram it receives adds three times its size to the budget)"""
    from hypothesis import strategies as st

    delay = st.sampled_from([0.005, 0.02, 0.05, 0.1, 0.25])
    fate = st.tuples(st.sampled_from(["deliver"] * 9 + ["drop"]), delay, delay).map(list)

    def build(t):
        leaf, mds, cc, back, fates, early = t
        script = [{"t": 0.0, "who": "c", "op": "write", "stream": "bidi", "n": early, "fin": True, "early": True}] if early else []
        cfg = {"cc": cc, "client_version": V1, "server_versions": [V1, V2], "max_data": 1048576, "max_stream_data": 1048576, "mds": mds, "s2c_extra_delay": back, "leaf": leaf, "retry": False, "mute_client_after": None}
        return {"cfg": cfg, "script": script, "fates": fates, "jitter": [0.0], "adv_end": 3.0, "fair": 6.0}

    return st.tuples(st.sampled_from(["chain-long", "chain-long", "chain3", "rsa"]), st.sampled_from([1350, 1452, 1472, 1500]), st.sampled_from(["reno", "cubic"]), st.sampled_from([0.3, 0.5, 0.7, 1.0, 1.5]), st.lists(fate, min_size=20, max_size=60), st.sampled_from([0, 0, 100, 3000])).map(build)


def plan_for(prop, tier, seed):
    q = tier == "quick"
    t = []
    if prop == "C01":
        n = 14 if q else 16
        for s in range(n):
            t.append(("sim-c01-%d" % s, {"fn": "sim", "profile": "C01" if s % 2 == 0 else "C01-norebind", "examples": 220 if q else 5000, "shard": s}))
        t.append(("sim-c01-rebind-validation", {"fn": "sim", "profile": "C01-rebind-validation", "examples": 60 if q else 2000, "shard": 0}))
        t.append(("sim-c01-late-old-address", {"fn": "sim", "profile": "C01-late-old-address", "examples": 40 if q else 1500, "shard": 0}))
    if prop == "C09":
        t.append(("sim-c09-probe-then-silence", {"fn": "sim", "profile": "C09-probe-then-silence", "examples": 60 if q else 1500, "shard": 0}))
    if prop in ("C09", "C12", "C13"):
        n = 14 if q else 16
        for s in range(n):
            t.append(("sim-%s-%d" % (prop.lower(), s), {"fn": "sim", "profile": prop, "examples": 160 if q else 4000, "shard": s}))
    if prop == "C13":
        for s in range(2 if q else 4):
            t.append(("sim-c13-migration-%d" % s, {"fn": "sim", "profile": "C13-migration", "examples": 60 if q else 3000, "shard": s}))
        for s in range(2):
            t.append(("sim-c13-slow-handshake-%d" % s, {"fn": "sim", "profile": "C13-slow-handshake", "examples": 60 if q else 3000, "shard": s}))
    if prop == "C02":
        for s in range(4):
            t.append(("sim-emit-%d" % s, {"fn": "sim", "profile": "C02", "examples": 80 if q else 4000, "shard": s}))
    if prop == "C08":
        for s in range(6 if q else 8):
            t.append(("wire-c08-%d" % s, {"fn": "sim", "profile": "C08", "examples": 100 if q else 2500, "shard": s}))
    return t


def run_task(ctx, prop, name, fn, **kw):
    if fn == "sim":
        sim_task(ctx, prop, kw["profile"], kw["examples"], kw["shard"])
    else:
        raise KeyError(fn)


def replay(ctx, case, prop=None):
    prop = prop or ctx.prop
    ctx.case(None, True)
    run_case(ctx, prop, case)
