"""Simulator-based checks shared by C01, C08(b), C09, C12, C13 (and reused by C20).

Each property module asks ``plan_for(prop, tier, seed)`` for its tasks and
dispatches them to ``run_task``; ``replay`` re-runs a saved case.
"""
import collections

from . import refquic as R
from . import simnet
from .simnet import Monitor, Sim

V1, V2 = R.V1, R.V2
TRANSPORT_ERRORS_FROM_NETWORK = True


# =============================================================================== case generation


def case_strategy(profile):
    """Hypothesis strategy for simulator cases.  profile: dict of switches."""
    from hypothesis import strategies as st

    adv = profile.get("adv_end", 3.0)
    sizes = st.sampled_from([0, 1, 2, 5, 100, 1199, 1200, 1201, 5000, 5000, 20000, 20000] + ([200000] if profile.get("big") else []))
    tm = st.floats(0.05, adv * 0.95, allow_nan=False, allow_infinity=False).map(lambda f: round(f, 4))
    who = st.sampled_from(["c", "s"])
    write = st.fixed_dictionaries({"t": tm, "who": who, "op": st.just("write"), "stream": st.one_of(st.sampled_from(["bidi", "bidi", "uni"]), st.sampled_from(["bidi", "uni"]), st.integers(0, 5)), "n": sizes, "fin": st.booleans()})
    fin_only = st.fixed_dictionaries({"t": tm, "who": who, "op": st.just("write"), "stream": st.integers(0, 5), "n": st.just(0), "fin": st.just(True)})
    ops = [write, write, write, write, fin_only]
    if profile.get("reset", True):
        ops.append(st.fixed_dictionaries({"t": tm, "who": who, "op": st.just("reset"), "stream": st.integers(0, 5)}))
        ops.append(st.fixed_dictionaries({"t": tm, "who": who, "op": st.just("stop"), "stream": st.integers(0, 5)}))
    ops.append(st.fixed_dictionaries({"t": tm, "who": who, "op": st.just("ping")}))
    if profile.get("key_update", True):
        ops.append(st.fixed_dictionaries({"t": tm, "who": who, "op": st.just("key_update")}))
    if profile.get("change_cid", True):
        ops.append(st.fixed_dictionaries({"t": tm, "who": who, "op": st.just("change_cid")}))
    if profile.get("rebind", False):
        ops.append(st.fixed_dictionaries({"t": tm, "who": st.just("c"), "op": st.just("rebind")}))
    if profile.get("close", False):
        ops.append(st.fixed_dictionaries({"t": tm, "who": who, "op": st.just("close"), "code": st.sampled_from([0, 0x100, 7]), "reason": st.sampled_from(["", "bye", "x" * 300])}))
        ops.append(st.fixed_dictionaries({"t": tm, "who": st.just("c"), "op": st.just("blackout")}))
    script = st.lists(st.one_of(*ops), min_size=profile.get("min_ops", 3), max_size=profile.get("max_ops", 10)).map(lambda xs: sorted(xs, key=lambda o: o["t"]))
    delay = st.one_of(st.floats(0.0, 0.3), st.floats(0.0, 0.02), st.floats(0.3, 1.0)).map(lambda f: round(f, 4))
    kinds = ["deliver"] * 11 + ["drop"] * 4 + (["dup"] * 3 if profile.get("dup", True) else []) + ["deliver"] * 2
    if profile.get("lossless"):
        kinds = ["deliver"]
    fate = st.tuples(st.sampled_from(kinds), delay, delay).map(list)
    fates = st.lists(fate, min_size=profile.get("min_fates", 25), max_size=profile.get("max_fates", 120))
    cfg = st.fixed_dictionaries(
        {
            "cc": st.sampled_from(["reno", "cubic"]),
            "client_version": st.sampled_from([V1, V2]),
            "server_versions": st.sampled_from([[V1, V2], [V2, V1]]),
            "max_data": st.sampled_from([4096, 20000, 1048576]),
            "max_stream_data": st.sampled_from([4096, 20000, 1048576]),
            "mds": st.sampled_from(profile.get("mds", [1200, 1280, 1350])),
        }
    )
    jitter = st.lists(st.sampled_from([0.0, 0.0, simnet.EPS, 0.0005, 0.003]), min_size=1, max_size=5)
    extra = profile.get("cfg_extra")
    if extra:
        cfg = st.tuples(cfg, st.fixed_dictionaries(extra)).map(lambda t: dict(t[0], **t[1]))
    return st.fixed_dictionaries({"cfg": cfg, "script": script, "fates": fates, "jitter": jitter, "adv_end": st.just(adv), "fair": st.just(profile.get("fair", 20.0))})


# =============================================================================== monitors


class C01Monitor(Monitor):
    """delivered == prefix of written; end marker once and only after everything; fair => all delivered; no protocol-error close."""

    def start(self, sim):
        self.written = collections.defaultdict(bytearray)  # (sender, sid) -> bytes
        self.fin = set()
        self.reset = set()  # (sender, sid) sender reset
        self.stopped = set()  # (receiver, sid) receiver asked to stop
        self.recv = collections.defaultdict(bytearray)  # (receiver, sid)
        self.eos = collections.Counter()
        self.reset_seen = set()
        self.pings = {"c": set(), "s": set()}
        self.acked_pings = {"c": set(), "s": set()}
        self.closed_by_script = False
        self.rebinds = 0

    def on_api(self, sim, x, name, a):
        if name == "write":
            self.written[(x, a["stream"])] += a["data"]
            if a["fin"]:
                self.fin.add((x, a["stream"]))
        elif name == "reset":
            self.reset.add((x, a["stream"]))
        elif name == "stop":
            self.stopped.add((x, a["stream"]))
        elif name == "ping":
            self.pings[x].add(a["uid"])
        elif name in ("close",):
            self.closed_by_script = True
        elif name == "rebind":
            self.rebinds += 1

    def on_event(self, sim, x, e, now):
        name = type(e).__name__
        peer = sim.peer(x)
        if name == "StreamDataReceived":
            k = (x, e.stream_id)
            w = self.written[(peer, e.stream_id)]
            if self.eos[k]:
                if e.end_stream:
                    sim.violation("end-of-stream-signalled-twice", "%s: stream %d: second end_stream event (data %d bytes) at t=%.4f" % (x, e.stream_id, len(e.data), now))
                    raise simnet.SimStop()
                if e.data:
                    sim.violation("data-after-end-of-stream", "%s: stream %d: %d bytes delivered after end_stream" % (x, e.stream_id, len(e.data)))
                    raise simnet.SimStop()
            self.recv[k] += e.data
            got = self.recv[k]
            if bytes(got) != bytes(w[: len(got)]):
                sim.violation("delivered-bytes-not-a-prefix-of-written", "%s: stream %d: %d bytes delivered are not a prefix of the %d bytes written" % (x, e.stream_id, len(got), len(w)))
                raise simnet.SimStop()
            if e.end_stream:
                self.eos[k] += 1
                self.eos_len = len(got)
                self.pending_eos_check = getattr(self, "pending_eos_check", [])
                self.pending_eos_check.append((k, len(got), now))
                if (peer, e.stream_id) not in self.fin:
                    if (peer, e.stream_id) in self.reset or (x, e.stream_id) in self.stopped:
                        sim.stats["c01:end-marker-on-abandoned-stream"] += 1
                    else:
                        sim.violation("end-of-stream-without-fin", "%s: stream %d: end_stream although the sender never finished the stream" % (x, e.stream_id))
                        raise simnet.SimStop()
        elif name == "StreamReset":
            k = (x, e.stream_id)
            if (peer, e.stream_id) not in self.reset and (x, e.stream_id) not in self.stopped:
                sim.violation("stream-reset-out-of-nowhere", "%s: StreamReset on stream %d which nobody reset or stopped" % (x, e.stream_id))
                raise simnet.SimStop()
            self.reset_seen.add(k)
        elif name == "PingAcknowledged":
            self.acked_pings[x].add(e.uid)
        elif name == "ConnectionTerminated":
            if not self.closed_by_script and sim.blackout is None:
                sim.violation(
                    "connection-closed-by-lossy-network-0x%x" % e.error_code,
                    "%s reports ConnectionTerminated(error_code=0x%x, frame_type=%r, reason=%r) at t=%.3f although the network only dropped/delayed/duplicated/reordered datagrams" % (x, e.error_code, e.frame_type, e.reason_phrase, now),
                )
                raise simnet.SimStop()

    def finish(self, sim):
        # "only after all of them": at the end of the run every end marker must coincide with everything the sender wrote
        for k, n, t in getattr(self, "pending_eos_check", []):
            x, sid = k
            peer = sim.peer(x)
            if (peer, sid) in self.reset or (x, sid) in self.stopped:
                continue  # abandoned stream: the statement does not forbid an end marker after a reset
            if (peer, sid) in self.fin and n != len(self.written[(peer, sid)]):
                sim.violation("end-of-stream-before-all-bytes", "%s: stream %d: end_stream after %d of %d bytes" % (x, sid, n, len(self.written[(peer, sid)])))
                return
        if sim.inconclusive or self.closed_by_script or sim.blackout is not None:
            return
        if any(ep.terminated for ep in sim.ep.values()):
            return
        # liveness on a fair network
        for (x, sid), w in self.written.items():
            peer = sim.peer(x)
            if (x, sid) in self.reset or (peer, sid) in self.stopped:
                continue
            got = self.recv[(peer, sid)]
            if bytes(got) != bytes(w):
                sig = "written-bytes-never-delivered"
                cls = self.classify_stall(sim)
                sim.violation(sig + cls, "%s->%s stream %d: %d of %d bytes delivered after %.1fs of fair network (t=%.2f, steps=%d)%s" % (x, peer, sid, len(got), len(w), sim.fair, sim.now, sim.steps, cls))
                return
            if (x, sid) in self.fin and self.eos[(peer, sid)] != 1:
                cls = self.classify_stall(sim)
                sim.violation("end-of-stream-never-delivered" + cls, "%s->%s stream %d: all %d bytes delivered but no end_stream after %.1fs of fair network%s" % (x, peer, sid, len(w), sim.fair, cls))
                return
        for x in ("c", "s"):
            if self.pings[x] - self.acked_pings[x]:
                cls = self.classify_stall(sim)
                sim.violation("ping-never-acknowledged" + cls, "%s: pings %r never acknowledged on a fair network%s" % (x, sorted(self.pings[x] - self.acked_pings[x]), cls))
                return

    def classify_stall(self, sim):
        tags = []
        if sim.stats["op:key_update"]:
            tags.append("key-update")
        if self.rebinds:
            tags.append("rebind")
        if sim.stats["op:fin-only-write"]:
            tags.append("fin-only-write")
        return ("-with-" + "+".join(tags)) if tags else ""


class TimerMonitor(Monitor):
    """C09: a live connection always names a finite timer; termination exactly once; nothing after it."""

    def start(self, sim):
        self.term = collections.Counter()
        self.closing_started = {}
        self.close_emitted = collections.Counter()

    def after_cycle(self, sim, x, now, produced):
        import math

        ep = sim.ep[x]
        if ep.conn is None or not ep.started:
            return
        t = ep.conn.get_timer()
        if ep.terminated is None:
            if t is None or not isinstance(t, (int, float)) or not math.isfinite(t):
                sim.violation("live-connection-without-timer", "%s: get_timer() = %r at t=%.4f while the connection has not reported termination" % (x, t, now))
                raise simnet.SimStop()

    def on_event(self, sim, x, e, now):
        name = type(e).__name__
        if sim.ep[x].terminated is not None:
            sim.violation("event-after-termination", "%s: %s delivered after ConnectionTerminated" % (x, name))
            raise simnet.SimStop()
        if name == "ConnectionTerminated":
            self.term[x] += 1
            if self.term[x] > 1:
                sim.violation("termination-reported-twice", "%s: second ConnectionTerminated" % x)
                raise simnet.SimStop()


# =============================================================================== tasks


PROFILES = {
    "C01": {"adv_end": 3.0, "fair": 20.0, "rebind": True, "dup": True},
    "C01-norebind": {"adv_end": 3.0, "fair": 20.0, "rebind": False, "dup": True},
}


def run_case(ctx, prop, case, observe=False):
    mons = monitors_for(prop)
    sim = Sim(case, ctx, monitors=mons, observe=observe or needs_wire(prop))
    sim.run()
    return sim


def needs_wire(prop):
    return prop in ("C08", "C12", "C13")


def monitors_for(prop):
    if prop == "C01":
        return [C01Monitor(), TimerMonitor()]
    raise KeyError(prop)


def c01_nontrivial(sim):
    # >= 1 datagram was dropped / duplicated during the application phase and >= 1 stream delivered its FIN
    mon = sim.monitors[0]
    lossy = sim.stats["fate:drop"] + sim.stats["fate:dup"] > 0
    return lossy and sum(mon.eos.values()) > 0


def sim_task(ctx, prop, profile_name, examples, shard):
    from hypothesis import strategies as st
    from .harness import run_hypothesis

    strat = case_strategy(PROFILES[profile_name])

    def body(ctx, case):
        sim = run_case(ctx, prop, case)
        classes = ["sim:" + profile_name]
        for k in ("fate:drop", "fate:dup", "op:key_update", "op:rebind", "op:reset", "op:stop", "op:change_cid", "op:fin-only-write", "spin", "inconclusive:events", "retry-sent", "version-negotiation"):
            if sim.stats[k]:
                classes.append("has:" + k)
        if case["cfg"]["client_version"] == V2:
            classes.append("cfg:v2")
        classes.append("cfg:" + case["cfg"]["cc"])
        nt = c01_nontrivial(sim) if prop == "C01" else True
        ctx.case(sim.seed(), nontrivial=nt, classes=classes)
        if ctx.want_sample():
            ctx.sample({"cfg": case["cfg"], "script": case["script"][:6], "fates": case["fates"][:8], "events": dict(list(sim.stats.items())[:12])})

    run_hypothesis(ctx, body, strat, examples, shard=shard)


def plan_for(prop, tier, seed):
    q = tier == "quick"
    t = []
    if prop == "C01":
        n = 14 if q else 16
        for s in range(n):
            t.append(("sim-c01-%d" % s, {"fn": "sim", "profile": "C01" if s % 2 == 0 else "C01-norebind", "examples": 220 if q else 5000, "shard": s}))
    return t


def run_task(ctx, prop, name, fn, **kw):
    if fn == "sim":
        sim_task(ctx, prop, kw["profile"], kw["examples"], kw["shard"])
    else:
        raise KeyError(fn)


def replay(ctx, case, prop=None):
    prop = prop or ctx.prop
    ctx.case(None, True)
    run_case(ctx, prop, case)
