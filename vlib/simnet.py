"""Virtual-time network simulator of two real aioquic endpoints.

A case is plain data (JSON-able):

  {"cfg": {...}, "script": [op, ...], "fates": [[kind, d1, d2], ...],
   "jitter": [j, ...], "adv_end": seconds, "fair": seconds}

and a run is a pure function of the case (all randomness of the library is
pinned by vlib.endpoints.pinned(seed=case digest)).

After every event on endpoint X the driver performs exactly the cycle the
asyncio adapter performs: drain next_event() into the monitors, call
datagrams_to_send(now), hand each datagram to the monitors and the network,
call get_timer() and (re)arm X's timer.
"""
import collections
import hashlib
import heapq
import io
import json

from . import endpoints as E
from . import refquic as R

EPS = 1e-6
CLIENT_ADDR = ("1.2.3.4", 1234)
CLIENT_ADDR2 = ("1.2.3.9", 999)
CLIENT_ADDR3 = ("1.2.7.7", 777)
CLIENT_ADDRS = [CLIENT_ADDR, CLIENT_ADDR2, CLIENT_ADDR3]
SERVER_ADDR = ("2.3.4.5", 4433)


def data_for(sid, off, n):
    return bytes(((sid * 7 + (off + i) * 13 + ((off + i) >> 8) * 5) & 0xFF) for i in range(n))


class Monitor:
    def start(self, sim):
        pass

    def on_api(self, sim, x, name, args):
        pass

    def on_event(self, sim, x, event, now):
        pass

    def on_datagram_out(self, sim, x, data, addr, now):
        pass

    def on_datagram_in(self, sim, x, data, addr, now):
        pass

    def before_send(self, sim, x, now):
        pass

    def after_cycle(self, sim, x, now, produced):
        pass

    def on_timer(self, sim, x, now, deadline):
        pass

    def finish(self, sim):
        pass


class SimStop(Exception):
    """raised by monitors to end a run early (after a violation was recorded)"""


class Endpoint:
    def __init__(self, name, conn, addr):
        self.name = name
        self.conn = conn
        self.addr = addr
        self.terminated = None
        self.handshake_complete = False
        self.timer_gen = 0
        self.last_deadline = None
        self.streams = []  # stream ids opened locally, in order
        self.fin_written = set()
        self.reset_written = set()
        self.written = collections.defaultdict(int)
        self.pings = 0
        self.close_called = False
        self.spins = 0
        self.started = False


class Sim:
    def __init__(self, case, ctx, monitors=(), observe=True, max_events=6000, max_time=None):
        self.case = case
        self.ctx = ctx
        self.monitors = list(monitors)
        self.cfg = dict(case.get("cfg") or {})
        self.script = list(case.get("script") or [])
        self.fates = list(case.get("fates") or [])
        self.fate_i = 0
        self.jitter = list(case.get("jitter") or [0.0])
        self.jit_i = 0
        self.adv_end = float(case.get("adv_end", 3.0))
        self.fair = float(case.get("fair", 20.0))
        self.max_events = max_events
        self.max_time = max_time if max_time is not None else self.adv_end + self.fair
        self.heap = []
        self.seq = 0
        self.now = 0.0
        self.steps = 0
        self.stats = collections.Counter()
        self.blackout = None
        # NAT rebinding bookkeeping: `addr_epoch` counts the client's address changes; the server "knows" the current address once it has
        # received a datagram the client sent after the latest change and has afterwards sent to that address
        self.addr_epoch = 0
        self.srv_saw_epoch = False
        self.srv_knows_addr = False
        self.observe = observe
        self.wire = None
        self.ep = {}
        self.inconclusive = None
        self.server_created = False
        self.retry_handler = None
        self.dropped_datagrams = []
        self.log = []

    # ------------------------------------------------------------------ set-up
    def seed(self):
        return hashlib.sha256(json.dumps(self.case, sort_keys=True, default=repr).encode()).digest()

    def build(self):
        from aioquic.quic.connection import QuicConnection
        from aioquic.quic.logger import QuicLogger

        cfg = self.cfg
        common = dict(
            congestion_control_algorithm=cfg.get("cc", "reno"),
            max_data=cfg.get("max_data", 1048576),
            max_stream_data=cfg.get("max_stream_data", 1048576),
            max_datagram_size=cfg.get("mds", 1200),
            idle_timeout=cfg.get("idle_timeout", 60.0),
        )
        if cfg.get("alpn"):
            common["alpn_protocols"] = list(cfg["alpn"])
        ckw = dict(common)
        skw = dict(common)
        for k in ("max_data", "max_stream_data", "idle_timeout"):
            if cfg.get("c_" + k) is not None:
                ckw[k] = cfg["c_" + k]
            if cfg.get("s_" + k) is not None:
                skw[k] = cfg["s_" + k]
        if cfg.get("client_version"):
            ckw["original_version"] = cfg["client_version"]
        if cfg.get("client_versions"):
            ckw["supported_versions"] = list(cfg["client_versions"])
        if cfg.get("server_versions"):
            skw["supported_versions"] = list(cfg["server_versions"])
        if cfg.get("quantum"):
            ckw["quantum_readiness_test"] = True  # a ClientHello of more than one datagram
        if cfg.get("datagrams"):
            ckw["max_datagram_frame_size"] = 65536
            skw["max_datagram_frame_size"] = 65536
        self.keylog = io.StringIO()
        if cfg.get("keylog", True):
            skw["secrets_log_file"] = self.keylog
        if cfg.get("c_keylog"):
            self.c_keylog = io.StringIO()
            ckw["secrets_log_file"] = self.c_keylog
        if cfg.get("c_qlog"):
            self.c_qlog = QuicLogger()
            ckw["quic_logger"] = self.c_qlog
        if cfg.get("s_qlog"):
            self.s_qlog = QuicLogger()
            skw["quic_logger"] = self.s_qlog
        self.ccfg = E.client_config(**ckw)
        self.scfg = E.server_config(cfg.get("leaf", "ed25519"), **skw)
        self.ticket_store = None
        if cfg.get("resume"):
            # an earlier (lossless, unobserved) connection of the same client to the same server leaves a session ticket: the connection under test is
            # a resumption, and what the client writes before the handshake completes travels as 0-RTT data
            store, got = {}, []
            quiet = lambda kw: {k: v for k, v in kw.items() if k not in ("secrets_log_file", "quic_logger")}
            c0 = QuicConnection(configuration=E.client_config(**quiet(ckw)), session_ticket_handler=got.append)
            c0.connect(SERVER_ADDR, now=0.0)
            s0 = QuicConnection(configuration=E.server_config(cfg.get("leaf", "ed25519"), **quiet(skw)), original_destination_connection_id=c0.original_destination_connection_id, session_ticket_handler=lambda t: store.__setitem__(t.ticket, t))
            t0 = 0.0
            for _ in range(6):
                t0 += 0.001
                E.transfer(c0, s0, t0, CLIENT_ADDR)
                t0 += 0.001
                E.transfer(s0, c0, t0, SERVER_ADDR)
            if got:
                self.ccfg.session_ticket = got[0]
                self.ticket_store = store
                self.stats["resume:ticket"] += 1
            else:
                self.stats["resume:no-ticket"] += 1
        client = QuicConnection(configuration=self.ccfg)
        self.ep["c"] = Endpoint("c", client, CLIENT_ADDR)
        self.ep["s"] = Endpoint("s", None, SERVER_ADDR)
        if self.observe:
            from .wire import WireObserver

            self.wire = WireObserver(self)
            if cfg.get("c_keylog"):
                self.wire.add_keylog(self.c_keylog)

    # ------------------------------------------------------------------ helpers
    def push(self, t, kind, *a):
        self.seq += 1
        heapq.heappush(self.heap, (t, self.seq, kind, a))

    def violation(self, sig, text):
        known = self.ctx.violation(sig, text, self.case)
        return known

    def peer(self, x):
        return "s" if x == "c" else "c"

    def next_fate(self, now):
        if now >= self.adv_end or self.fate_i >= len(self.fates):
            return [("d", 0.01)]
        kind, d1, d2 = self.fates[self.fate_i]
        self.fate_i += 1
        if kind == "drop":
            self.stats["fate:drop"] += 1
            return []
        if kind == "dup":
            self.stats["fate:dup"] += 1
            return [("d", d1), ("d", d2)]
        self.stats["fate:deliver"] += 1
        return [("d", d1)]

    def next_jitter(self):
        j = self.jitter[self.jit_i % len(self.jitter)]
        self.jit_i += 1
        return j

    # ------------------------------------------------------------------ the cycle
    def cycle(self, x, now):
        ep = self.ep[x]
        c = ep.conn
        produced = False
        while True:
            e = c.next_event()
            if e is None:
                break
            produced = True
            name = type(e).__name__
            self.stats["event:" + name] += 1
            if name == "HandshakeCompleted":
                ep.handshake_complete = True
            elif name == "StopSendingReceived":
                # the library has reset the stream on the peer's request: the application must not write any more
                ep.reset_written.add(e.stream_id)
                for m in self.monitors:
                    m.on_api(self, x, "reset", {"stream": e.stream_id, "by_peer": True})
            for m in self.monitors:
                m.on_event(self, x, e, now)
            if name == "ConnectionTerminated":
                ep.terminated = (now, e)
        for m in self.monitors:
            m.before_send(self, x, now)
        out = c.datagrams_to_send(now=now)
        for data, addr in out:
            produced = True
            self.stats["dgram:" + x] += 1
            if self.wire is not None:
                self.wire.observe(x, data, now)
            for m in self.monitors:
                m.on_datagram_out(self, x, data, addr, now)
            self.transmit(x, data, addr, now)
        t = c.get_timer()
        for m in self.monitors:
            m.after_cycle(self, x, now, produced)
        ep.timer_gen += 1
        if t is not None:
            if t <= now and not produced:
                # a wake-up that achieved nothing: a real loop spins, and spinning takes time
                ep.spins += 1
                self.stats["spin"] += 1
                at = now + 0.001
            else:
                at = max(t, now) + self.next_jitter()
                if ep.last_deadline is not None and at <= ep.last_deadline and not produced:
                    at = ep.last_deadline + EPS
            self.push(at, "timer", x, ep.timer_gen, t)

    def transmit(self, x, data, addr, now):
        peer = self.peer(x)
        lose = self.cfg.get("lose_first_to_new_address")
        if lose and x == "s" and addr != CLIENT_ADDR:
            # the first datagram(s) the server sends to the client's new address are lost (they carry its PATH_CHALLENGE)
            self.stats["dgram-to-new-address"] += 1
            if self.stats["dgram-to-new-address"] <= lose:
                self.stats["lost-first-to-new-address"] += 1
                self.dropped_datagrams.append((x, now))
                return
        mute = self.cfg.get("mute_client_after")
        if mute is not None and x == "c" and now < self.adv_end:
            # a client that falls silent (or whose address was spoofed) after its first datagrams
            self.stats["dgram-sent:c"] += 1
            if self.stats["dgram-sent:c"] > mute:
                self.stats["muted-drop"] += 1
                self.dropped_datagrams.append((x, now))
                return
        if self.blackout is not None and now >= self.blackout:
            self.stats["blackout-drop"] += 1
            return
        fates = self.next_fate(now)
        if not fates:
            self.dropped_datagrams.append((x, now))
        src = self.ep[x].addr
        if x == "s" and self.srv_saw_epoch and addr == self.ep["c"].addr:
            self.srv_knows_addr = True
        extra = self.cfg.get("s2c_extra_delay", 0.0) if (x == "s" and now < self.adv_end) else 0.0  # an asymmetric path: the way back is slower
        hold = self.cfg.get("hold_client_datagrams")
        if hold and x == "c" and hold[0] <= now < hold[1]:
            # the network holds back what the client sent in this window (reordering across a NAT rebinding)
            extra += hold[2]
            self.stats["held-client-datagram"] += 1
        for _, delay in fates:
            self.push(now + delay + extra, "rx", peer, data, src, addr, self.addr_epoch)

    # ------------------------------------------------------------------ server front door
    def server_receive(self, data, src, now):
        """What QuicServer does before a connection exists (version negotiation, retry)."""
        from aioquic.buffer import Buffer
        from aioquic.quic.connection import QuicConnection
        from aioquic.quic.packet import QuicPacketType, encode_quic_retry, encode_quic_version_negotiation, pull_quic_header
        from aioquic.quic.retry import QuicRetryTokenHandler

        ep = self.ep["s"]
        if ep.conn is not None:
            return True
        try:
            header = pull_quic_header(Buffer(data=data), host_cid_length=self.scfg.connection_id_length)
        except ValueError:
            return False
        if header.version is not None and header.version not in self.scfg.supported_versions:
            vn = encode_quic_version_negotiation(source_cid=header.destination_cid, destination_cid=header.source_cid, supported_versions=self.scfg.supported_versions)
            self.stats["version-negotiation"] += 1
            self.push(now + 0.01, "rx", "c", vn, SERVER_ADDR)
            return False
        if len(data) < 1200 or header.packet_type != QuicPacketType.INITIAL:
            return False
        odcid = header.destination_cid
        rscid = None
        if self.cfg.get("retry"):
            if self.retry_handler is None:
                self.retry_handler = _retry_handler()
            if not header.token:
                scid = E.os.urandom(8)
                pkt = encode_quic_retry(
                    version=header.version, source_cid=scid, destination_cid=header.source_cid, original_destination_cid=header.destination_cid,
                    retry_token=self.retry_handler.create_token(src, header.destination_cid, scid),
                )
                self.stats["retry-sent"] += 1
                self.push(now + 0.01, "rx", "c", pkt, SERVER_ADDR)
                return False
            try:
                odcid, rscid = self.retry_handler.validate_token(src, header.token)
            except ValueError:
                return False
        tkw = {"session_ticket_fetcher": lambda k: self.ticket_store.pop(k, None), "session_ticket_handler": lambda t: None} if self.ticket_store is not None else {}
        ep.conn = QuicConnection(configuration=self.scfg, original_destination_connection_id=odcid, retry_source_connection_id=rscid, **tkw)
        self.server_created = True
        for m in self.monitors:
            m.on_api(self, "s", "created", {"retry": rscid is not None, "addr": src})
        return True

    # ------------------------------------------------------------------ application ops
    def app(self, op, now):
        x = op["who"]
        ep = self.ep[x]
        c = ep.conn
        kind = op["op"]
        if c is None or ep.terminated or ep.close_called:
            self.stats["op-skipped"] += 1
            return
        if kind in ("write", "reset", "stop", "key_update", "change_cid", "ping", "dgram") and not ep.handshake_complete:
            if not (x == "c" and kind == "write" and op.get("early")):
                self.stats["op-skipped"] += 1
                return
        if kind == "write":
            ref = op["stream"]
            if ref in ("bidi", "uni"):
                sid = c.get_next_available_stream_id(is_unidirectional=(ref == "uni"))
                if sid in ep.streams:
                    # previous "open" did not create the stream (blocked by limits is still created) - should not happen
                    self.stats["op-skipped"] += 1
                    return
                ep.streams.append(sid)
            else:
                # an existing stream: own streams by index, or a peer-opened bidirectional stream
                pool = ep.streams + [s for s in self.ep[self.peer(x)].streams if s % 4 in (0, 1) and s in self.streams_seen(x)]
                pool = [s for s in pool if s not in ep.fin_written and s not in ep.reset_written]
                if not pool:
                    # nothing to write on yet: open a stream instead
                    sid = c.get_next_available_stream_id(is_unidirectional=bool(ref % 2))
                    ep.streams.append(sid)
                else:
                    sid = pool[ref % len(pool)]
            if sid in ep.fin_written or sid in ep.reset_written:
                self.stats["op-skipped"] += 1
                return
            n = op["n"]
            data = data_for(sid, ep.written[sid], n)
            fin = bool(op.get("fin"))
            for m in self.monitors:
                m.on_api(self, x, "write", {"stream": sid, "data": data, "fin": fin})
            c.send_stream_data(sid, data, end_stream=fin)
            ep.written[sid] += n
            if fin:
                ep.fin_written.add(sid)
            self.stats["op:write"] += 1
            if n == 0 and fin:
                self.stats["op:fin-only-write"] += 1
        elif kind == "reset":
            if not ep.streams:
                self.stats["op-skipped"] += 1
                return
            sid = ep.streams[op["stream"] % len(ep.streams)]
            if sid in ep.reset_written:
                return
            for m in self.monitors:
                m.on_api(self, x, "reset", {"stream": sid})
            c.reset_stream(sid, op.get("code", 7))
            ep.reset_written.add(sid)
            self.stats["op:reset"] += 1
        elif kind == "stop":
            cand = [s for s in self.streams_seen(x) if s not in ep.streams or s % 4 in (0, 1)]
            cand = [s for s in cand if not (s % 4 in (2, 3) and s in ep.streams)]
            if not cand:
                self.stats["op-skipped"] += 1
                return
            sid = sorted(cand)[op["stream"] % len(cand)]
            for m in self.monitors:
                m.on_api(self, x, "stop", {"stream": sid})
            c.stop_stream(sid, op.get("code", 9))
            self.stats["op:stop"] += 1
        elif kind == "ping":
            ep.pings += 1
            c.send_ping(ep.pings)
            for m in self.monitors:
                m.on_api(self, x, "ping", {"uid": ep.pings})
            self.stats["op:ping"] += 1
        elif kind == "key_update":
            c.request_key_update()
            for m in self.monitors:
                m.on_api(self, x, "key_update", {})
            self.stats["op:key_update"] += 1
        elif kind == "change_cid":
            c.change_connection_id()
            for m in self.monitors:
                m.on_api(self, x, "change_cid", {})
            self.stats["op:change_cid"] += 1
        elif kind == "rebind":
            # RFC 9000 section 9: QUIC relies on endpoints retaining a stable address for the duration of the
            # handshake, so the client address only changes once the handshake is confirmed
            if x == "c" and not getattr(c, "_handshake_confirmed", ep.handshake_complete):
                self.stats["op-skipped"] += 1
                return
            if x == "c":
                to = op.get("to")
                if to is not None and CLIENT_ADDRS[to] == ep.addr:
                    to = (to + 1) % len(CLIENT_ADDRS)
                ep.addr = CLIENT_ADDRS[to] if to is not None else (CLIENT_ADDR2 if ep.addr == CLIENT_ADDR else CLIENT_ADDR)
                self.addr_epoch += 1
                self.srv_saw_epoch = self.srv_knows_addr = False
                for m in self.monitors:
                    m.on_api(self, x, "rebind", {"addr": ep.addr})
                self.stats["op:rebind"] += 1
            return
        elif kind == "dgram":
            c.send_datagram_frame(bytes(op.get("n", 10)))
            self.stats["op:dgram"] += 1
        elif kind == "close":
            for m in self.monitors:
                m.on_api(self, x, "close", {"code": op.get("code", 0), "reason": op.get("reason", "")})
            c.close(error_code=op.get("code", 0), reason_phrase=op.get("reason", ""))
            ep.close_called = True
            self.stats["op:close"] += 1
        elif kind == "blackout":
            self.blackout = now
            self.stats["op:blackout"] += 1
            return
        self.cycle(x, now)

    def streams_seen(self, x):
        c = self.ep[x].conn
        return set(getattr(c, "_streams", {}).keys()) if c is not None else set()

    # ------------------------------------------------------------------ main loop
    def run(self):
        try:
            return self._run()
        except SimStop:
            return self
        except Exception as e:
            from .harness import Violation, exc_signature

            if isinstance(e, Violation):
                raise
            sig = exc_signature(e)
            if "-in-?" in sig:
                raise  # not inside aioquic: a harness error
            self.ctx.violation("api-raised-" + sig, "a QuicConnection API call raised %r at t=%.4f under a network that only drops/delays/duplicates datagrams" % (e, self.now), self.case)
            return self

    def _run(self):
        with E.pinned(self.seed()):
            self.build()
            for m in self.monitors:
                m.start(self)
            for op in self.script:
                self.push(float(op["t"]), "app", op)
            c = self.ep["c"]
            c.conn.connect(SERVER_ADDR, now=0.0)
            c.started = True
            for m in self.monitors:
                m.on_api(self, "c", "connect", {})
            try:
                self.cycle("c", 0.0)
                self.loop()
                for m in self.monitors:
                    m.finish(self)
            except SimStop:
                pass
        return self

    def loop(self):
        while self.heap:
            t, _, kind, a = heapq.heappop(self.heap)
            self.now = max(self.now, t)
            now = self.now
            self.steps += 1
            if self.steps > self.max_events:
                self.inconclusive = "event budget exhausted"
                self.stats["inconclusive:events"] += 1
                break
            if now > self.max_time:
                break
            if kind == "rx":
                x, data, src = a[:3]
                ep = self.ep[x]
                if len(a) > 3 and x == "c" and a[3] != ep.addr and now < self.adv_end:
                    # sent to an address the client no longer has (NAT rebinding): nobody is there.
                    # (In the fair phase the network delivers: both mappings are alive.)
                    self.stats["lost-to-stale-address"] += 1
                    continue
                if len(a) > 3 and x == "c" and a[3] != ep.addr and self.srv_knows_addr:
                    # fair phase, but the server has heard from the client's current address and used it since: a datagram it still
                    # sends to an address the client has left is the server's own doing, and nobody is there (RFC 9000 section 9.3:
                    # only a packet with the highest packet number seen moves the path).  Before the server has learnt the current
                    # address the fair network stays lenient, because a silent client gives it no way to learn it.
                    self.stats["lost-to-left-address-fair"] += 1
                    continue
                if x == "s" and len(a) > 4 and a[4] == self.addr_epoch and not ep.terminated:
                    self.srv_saw_epoch = True
                if x == "s" and ep.conn is None:
                    if not self.server_receive(data, src, now):
                        continue
                if ep.terminated:
                    continue
                ep.started = True
                for m in self.monitors:
                    m.on_datagram_in(self, x, data, src, now)
                ep.conn.receive_datagram(data, src, now=now)
                self.cycle(x, now)
            elif kind == "timer":
                x, gen, deadline = a
                ep = self.ep[x]
                if gen != ep.timer_gen or ep.terminated:
                    continue
                ep.last_deadline = now
                for m in self.monitors:
                    m.on_timer(self, x, now, deadline)
                ep.conn.handle_timer(now=now)
                self.cycle(x, now)
            elif kind == "app":
                self.app(a[0], now)


_RETRY = None


def _retry_handler():
    global _RETRY
    if _RETRY is None:
        from aioquic.quic.retry import QuicRetryTokenHandler

        _RETRY = QuicRetryTokenHandler()
    return _RETRY
