PROPERTY = "C13"
LEVEL = "exploration"
from vlib.simprops import RULES, ASSUMPTIONS_FOR
RULE = RULES["C13"]
ASSUMPTIONS = ASSUMPTIONS_FOR["C13"]


RULE = RULE + (
    " Additionally (task first-datagram-shapes): one evaluation = a fresh server (certificate chains of 1-3 certificates, max_datagram_size 1200/1350) that "
    "receives ONE datagram from an address and then nothing: a genuine Initial (built by the independent implementation) followed in the same datagram by 0-6 "
    "further parseable packets the server cannot decrypt (0-RTT / Handshake long headers, short headers) and zero padding, of a generated total size; all timers are "
    "then fired for 10 s. The bytes the server sends must never exceed three times the size of that datagram, and every datagram carrying an ack-eliciting "
    "Initial packet must be at least 1200 bytes."
)


def first_datagram_case(ctx, case):
    from vlib import endpoints as E, refquic as R, tlspeer as P

    with E.pinned(("c13-first", case["leaf"], case["mds"])):
        peer = P.ClientPeer(leaf=case["leaf"], server_kw={"max_datagram_size": case["mds"]})
        ch = peer.ref.client_hello()
        payload = R.encode_frames([{"name": "crypto", "offset": 0, "data": ch}])
        dg = peer.packet("initial", payload, pad_to=0)
        pn = 7
        for kind, n in case["extra"]:
            body = bytes((i * 31 + n) & 0xFF for i in range(max(n, 20)))
            if kind == "short":
                dg += bytes([0x40]) + peer.sut_cid + body
                break  # a short header packet extends to the end of the datagram
            ptype = R.PT_ZERO_RTT if kind == "0rtt" else R.PT_HANDSHAKE
            dg += R.build_long_header(peer.version, ptype, peer.sut_cid, P.HARNESS_CID, pn, 2, len(body), tag_len=0)[:-2] + body
            pn += 1
        if len(dg) < case["total"]:
            dg += bytes(case["total"] - len(dg))
        dg = dg[:65000]
        received = len(dg)
        sent = 0
        short_initial = None
        try:
            peer.deliver(dg)
            now = peer.now
            for _ in range(60):
                for data, addr in peer.sut.datagrams_to_send(now=now):
                    sent += len(data)
                    for info in R.split_datagram(data, 8, require_fixed_bit=False):
                        if info.ptype == R.PT_INITIAL and len(data) < 1200:
                            try:
                                _, _, pl = R.unprotect(peer.rx["initial"], data[info.start : info.end], info.pn_offset_rel, 0)
                                if any(R.is_ack_eliciting(f["name"]) for f in R.parse_frames(pl, strict=False)):
                                    short_initial = len(data)
                            except Exception:  # noqa
                                pass
                while peer.sut.next_event() is not None:
                    pass
                t = peer.sut.get_timer()
                if t is None or t > peer.now + 10.0:
                    break
                now = max(now, t)
                peer.sut.handle_timer(now=now)
        except Exception as e:  # noqa - exceptions are C05's subject
            ctx.cls("first-datagram:api-raised")
        ctx.case(("first-dg", repr(case)), nontrivial=sent > 1200, classes=["first-datagram:" + case["leaf"], "first-datagram:extra-%d" % len(case["extra"]), "first-datagram:" + ("answered" if sent else "ignored")])
        if sent > 3 * received:
            ctx.violation("anti-amplification-limit-exceeded", "the server sent %d bytes to an address from which it received one datagram of %d bytes (an Initial followed by %d more packets it cannot decrypt)" % (sent, received, len(case["extra"])), case)
        if short_initial is not None:
            ctx.violation("server-initial-datagram-shorter-than-1200", "a server datagram of %d bytes carries an ack-eliciting Initial packet" % short_initial, case)


def first_datagram_task(ctx, examples, shard):
    from hypothesis import strategies as st
    from vlib.harness import run_hypothesis

    extra = st.lists(st.tuples(st.sampled_from(["0rtt", "0rtt", "handshake", "short"]), st.sampled_from([20, 20, 40, 100, 300])), max_size=6)
    strat = st.fixed_dictionaries({"kind": st.just("first-dg"), "leaf": st.sampled_from(["ed25519", "p256", "rsa", "chain2", "chain3", "chain3"]), "mds": st.sampled_from([1200, 1350]), "extra": extra, "total": st.sampled_from([1200, 1200, 1201, 1350, 1500, 4000])})

    def body(ctx, case):
        first_datagram_case(ctx, case)
        if ctx.want_sample():
            ctx.sample(case)

    run_hypothesis(ctx, body, strat, examples, shard=shard)


def repeated_hello_case(ctx, case):
    """A real client whose server never seems to answer: its ClientHello and the PTO retransmissions of it (1-4 datagrams) reach a fresh server with a
    long certificate chain, which answers each of them and fires its own timers; nothing of what the server sends gets back.  At every moment the
    server has sent at most three times what it received."""
    from aioquic.quic.connection import QuicConnection
    from vlib import endpoints as E

    with E.pinned(("c13-repeated-hello", case["leaf"], case["mds"], case["cmds"])):
        c = QuicConnection(configuration=E.client_config(max_datagram_size=case["cmds"]))
        c.connect(E.SERVER_ADDR, now=0.0)
        s = QuicConnection(configuration=E.server_config(case["leaf"], max_datagram_size=case["mds"]), original_destination_connection_id=c.original_destination_connection_id)
        now = 0.0
        received = sent = 0
        worst = None

        def server_turn(t):
            nonlocal sent, worst
            for data, addr in s.datagrams_to_send(now=t):
                sent += len(data)
                if sent > 3 * received and worst is None:
                    worst = (t, sent, received)
            while s.next_event() is not None:
                pass

        try:
            for k in range(case["copies"]):
                dgs = c.datagrams_to_send(now=now)
                for data, addr in dgs:
                    now += 0.0005
                    received += len(data)
                    s.receive_datagram(data, E.CLIENT_ADDR, now=now)
                    if case["turn_after_each"]:
                        server_turn(now)
                server_turn(now)
                # the server's timers run while the client waits for its own probe timeout
                t_c = c.get_timer()
                if t_c is None:
                    break
                if case["server_timers"]:
                    for _ in range(6):
                        t_s = s.get_timer()
                        if t_s is None or t_s > t_c:
                            break
                        s.handle_timer(now=max(now, t_s))
                        server_turn(max(now, t_s))
                now = max(now, t_c)
                c.handle_timer(now=now)
        except Exception:  # noqa - exceptions are C05's subject
            ctx.cls("repeated-hello:api-raised")
        ctx.case(("rh", repr(case)), nontrivial=sent >= 3 * received - 1500, classes=["repeated-hello:" + case["leaf"], "repeated-hello:copies-%d" % case["copies"], "repeated-hello:" + ("budget-exhausted" if sent >= 3 * received - 100 else "budget-left")])
        if worst is not None:
            ctx.violation("anti-amplification-limit-exceeded", "at t=%.4f the server (chain %s, max_datagram_size %d) had sent %d bytes to an address from which it had received %d bytes (%d client Initial datagrams, nothing validated)" % (worst[0], case["leaf"], case["mds"], worst[1], worst[2], case["copies"]), case)


def repeated_hello_task(ctx, examples, shard):
    from hypothesis import strategies as st
    from vlib.harness import run_hypothesis

    strat = st.fixed_dictionaries({"kind": st.just("repeated-hello"), "leaf": st.sampled_from(["chain-long", "chain-long", "chain3", "rsa", "ed25519"]), "mds": st.sampled_from([1200, 1280, 1350, 1452, 1472, 1500]), "cmds": st.sampled_from([1200, 1200, 1280, 1500]), "copies": st.integers(1, 4), "turn_after_each": st.booleans(), "server_timers": st.booleans()})

    def body(ctx, case):
        repeated_hello_case(ctx, case)
        if ctx.want_sample():
            ctx.sample(case)

    run_hypothesis(ctx, body, strat, examples, shard=shard)


def plan(tier, seed):
    from vlib import simchecks

    t = simchecks.plan_for("C13", tier, seed)
    t.append(("first-datagram-shapes", {"fn": "firstdg", "examples": 150 if tier == "quick" else 6000, "shard": 0}))
    t.append(("repeated-client-hello", {"fn": "rhello", "examples": 200 if tier == "quick" else 3000, "shard": 0}))
    return t


def run_task(ctx, name, fn, **kw):
    from vlib import simchecks

    if fn == "firstdg":
        return first_datagram_task(ctx, kw["examples"], kw["shard"])
    if fn == "rhello":
        return repeated_hello_task(ctx, kw["examples"], kw["shard"])
    simchecks.run_task(ctx, "C13", name, fn, **kw)


def replay(ctx, case):
    from vlib import simchecks

    if case.get("kind") == "repeated-hello":
        return repeated_hello_case(ctx, case)
    if case.get("kind") == "first-dg":
        return first_datagram_case(ctx, dict(case, extra=[tuple(x) for x in case["extra"]]))
    simchecks.replay(ctx, case, "C13")
