PROPERTY = "C13"
LEVEL = "exploration"
from vlib.simprops import RULES, ASSUMPTIONS_FOR
RULE = RULES["C13"]
ASSUMPTIONS = ASSUMPTIONS_FOR["C13"]


RULE = RULE + (
    " Additionally (task first-datagram-shapes): one evaluation = a fresh server (certificate chains of 1-3 certificates, max_datagram_size 1200/1350) that "
    "receives ONE datagram from an address and then nothing: a genuine Initial (built by the independent implementation) followed in the same datagram by 0-6 "
    "further parseable packets the server cannot decrypt (0-RTT / Handshake long headers, short headers) and zero padding, of a generated total size; all timers are "
    "then fired for 10 s. The bytes the server sends must never exceed three times the size of that datagram, and every datagram carrying an ack-eliciting "
    "Initial packet must be at least 1200 bytes."
)


def first_datagram_case(ctx, case):
    from vlib import endpoints as E, refquic as R, tlspeer as P

    with E.pinned(("c13-first", case["leaf"], case["mds"])):
        peer = P.ClientPeer(leaf=case["leaf"], server_kw={"max_datagram_size": case["mds"]})
        ch = peer.ref.client_hello()
        payload = R.encode_frames([{"name": "crypto", "offset": 0, "data": ch}])
        dg = peer.packet("initial", payload, pad_to=0)
        pn = 7
        for kind, n in case["extra"]:
            body = bytes((i * 31 + n) & 0xFF for i in range(max(n, 20)))
            if kind == "short":
                dg += bytes([0x40]) + peer.sut_cid + body
                break  # a short header packet extends to the end of the datagram
            ptype = R.PT_ZERO_RTT if kind == "0rtt" else R.PT_HANDSHAKE
            dg += R.build_long_header(peer.version, ptype, peer.sut_cid, P.HARNESS_CID, pn, 2, len(body), tag_len=0)[:-2] + body
            pn += 1
        if len(dg) < case["total"]:
            dg += bytes(case["total"] - len(dg))
        dg = dg[:65000]
        received = len(dg)
        sent = 0
        short_initial = None
        try:
            peer.deliver(dg)
            now = peer.now
            for _ in range(60):
                for data, addr in peer.sut.datagrams_to_send(now=now):
                    sent += len(data)
                    for info in R.split_datagram(data, 8, require_fixed_bit=False):
                        if info.ptype == R.PT_INITIAL and len(data) < 1200:
                            try:
                                _, _, pl = R.unprotect(peer.rx["initial"], data[info.start : info.end], info.pn_offset_rel, 0)
                                if any(R.is_ack_eliciting(f["name"]) for f in R.parse_frames(pl, strict=False)):
                                    short_initial = len(data)
                            except Exception:  # noqa
                                pass
                while peer.sut.next_event() is not None:
                    pass
                t = peer.sut.get_timer()
                if t is None or t > peer.now + 10.0:
                    break
                now = max(now, t)
                peer.sut.handle_timer(now=now)
        except Exception as e:  # noqa - exceptions are C05's subject
            ctx.cls("first-datagram:api-raised")
        ctx.case(("first-dg", repr(case)), nontrivial=sent > 1200, classes=["first-datagram:" + case["leaf"], "first-datagram:extra-%d" % len(case["extra"]), "first-datagram:" + ("answered" if sent else "ignored")])
        if sent > 3 * received:
            ctx.violation("anti-amplification-limit-exceeded", "the server sent %d bytes to an address from which it received one datagram of %d bytes (an Initial followed by %d more packets it cannot decrypt)" % (sent, received, len(case["extra"])), case)
        if short_initial is not None:
            ctx.violation("server-initial-datagram-shorter-than-1200", "a server datagram of %d bytes carries an ack-eliciting Initial packet" % short_initial, case)


def first_datagram_task(ctx, examples, shard):
    from hypothesis import strategies as st
    from vlib.harness import run_hypothesis

    extra = st.lists(st.tuples(st.sampled_from(["0rtt", "0rtt", "handshake", "short"]), st.sampled_from([20, 20, 40, 100, 300])), max_size=6)
    strat = st.fixed_dictionaries({"kind": st.just("first-dg"), "leaf": st.sampled_from(["ed25519", "p256", "rsa", "chain2", "chain3", "chain3"]), "mds": st.sampled_from([1200, 1350]), "extra": extra, "total": st.sampled_from([1200, 1200, 1201, 1350, 1500, 4000])})

    def body(ctx, case):
        first_datagram_case(ctx, case)
        if ctx.want_sample():
            ctx.sample(case)

    run_hypothesis(ctx, body, strat, examples, shard=shard)


def plan(tier, seed):
    from vlib import simchecks

    t = simchecks.plan_for("C13", tier, seed)
    t.append(("first-datagram-shapes", {"fn": "firstdg", "examples": 150 if tier == "quick" else 6000, "shard": 0}))
    return t


def run_task(ctx, name, fn, **kw):
    from vlib import simchecks

    if fn == "firstdg":
        return first_datagram_task(ctx, kw["examples"], kw["shard"])
    simchecks.run_task(ctx, "C13", name, fn, **kw)


def replay(ctx, case):
    from vlib import simchecks

    if case.get("kind") == "first-dg":
        return first_datagram_case(ctx, dict(case, extra=[tuple(x) for x in case["extra"]]))
    simchecks.replay(ctx, case, "C13")
