"""C06 - the sender never exceeds the peer's flow-control and stream-count limits.

SUT = client or server sender; peer = key-holding harness peer after a real
handshake in which the genuine peer advertised generated (small) initial
limits.  The SUT's wire is decrypted by the independent implementation; the
oracle compares the history of STREAM / RESET_STREAM frames with the limits
actually delivered to the SUT at that instant.
"""
PROPERTY = "C06"
LEVEL = "exploration"
RULE = (
    "one evaluation = one history: peer initial limits max_data / max_stream_data in {0, 1, 100, 1199, 1200, 1201, 16384} and stream counts in "
    "{0, 1, 2, 5} (set on the genuine peer before the handshake); an application script on the SUT (open streams in id order, writes of limit-1, "
    "limit, limit+1, 3 x limit bytes, FINs, resets) interleaved in any order with peer operations: acknowledgements of chosen subsets (withheld "
    "acks make the SUT declare loss and retransmit), MAX_DATA / MAX_STREAM_DATA / MAX_STREAMS with increasing, equal and decreasing values, "
    "STOP_SENDING, timers; then a fair phase (limits raised far, everything acknowledged). At every emitted packet: highest offset per stream <= the "
    "latest stream limit delivered, sum of highest offsets <= the connection limit delivered, stream ids opened <= the stream-count limit delivered; "
    "at the end of the fair phase every written byte and FIN has appeared on the wire. Non-trivial = the SUT was blocked at least once and at least "
    "one STREAM range was retransmitted; distinct by the history."
)
ASSUMPTIONS = [
    "streams are opened in id order through get_next_available_stream_id (the documented way)",
    "a limit counts from the moment the frame carrying it was handed to receive_datagram in a packet the SUT can decrypt",
    "resumed clients: limits remembered from a session ticket are generated, early data is not (the application writes after the handshake); a server that accepts the resumption keeps or raises the remembered limits, as RFC 9000 7.4.1 requires of it; one that declines it may advertise anything",
]

V62 = (1 << 62) - 1


def ops_strategy():
    from hypothesis import strategies as st

    size = st.sampled_from(["lim-1", "lim", "lim+1", "3lim", "1", "0", "5000"])
    write = st.tuples(st.just("write"), st.sampled_from(["new-bidi", "new-bidi", "new-uni", "new-uni", 0, 0, 1, 2]), size, st.booleans())
    reset = st.tuples(st.just("reset"), st.integers(0, 3))
    limv = st.sampled_from(["same", "+1", "+100", "x2", "-1", "0", "big"])
    maxd = st.tuples(st.just("max_data"), limv)
    maxsd = st.tuples(st.just("max_stream_data"), st.integers(0, 3), limv)
    maxs = st.tuples(st.just("max_streams"), st.sampled_from(["bidi", "uni"]), st.sampled_from(["same", "+1", "+1", "+1", "+2", "-1", "0"]))
    stop = st.tuples(st.just("stop_sending"), st.integers(0, 3))
    simple = st.sampled_from([("ack_all",), ("ack_some", 0b1011), ("ack_some", 0b0101), ("lose",), ("lose",), ("timer",)])
    # several streams written before the next packet is built: they share the connection credit inside one packet
    burst = st.tuples(st.just("burst"), st.lists(st.tuples(st.sampled_from(["new-bidi", "new-uni", 0, 1, 2]), st.sampled_from(["lim-1", "lim", "lim", "lim+1", "1", "5000"]), st.booleans()), min_size=2, max_size=4))
    # the tail of a stream is declared lost (only the probe that follows it is acknowledged) and the application writes more before the next
    # transmit: one STREAM frame then carries retransmitted and new bytes
    tail = st.tuples(st.just("tail_loss_then_write"), st.sampled_from([0, 0, 1, 2]), st.sampled_from(["lim-1", "lim", "lim+1", "1", "5000"]), st.booleans())
    peer_open = st.tuples(st.just("peer_open"), st.integers(0, 2))
    return st.lists(st.one_of(write, write, write, burst, burst, tail, tail, reset, maxd, maxsd, maxsd, maxs, maxs, stop, simple, simple, simple, peer_open), min_size=4, max_size=18)


def run_history(ctx, case):
    from vlib import endpoints as E
    from vlib import refquic as R
    from vlib.harness import exc_signature
    from vlib.takeover import Takeover, transport_parameters
    import aioquic.quic.connection as QC

    role = case["role"]
    sut_is_client = role == "client"
    with E.pinned(("c06", role, case["max_data"], case["max_stream_data"], case["streams_bidi"], case["streams_uni"])):
        peer_kw = {"max_data": case["max_data"], "max_stream_data": case["max_stream_data"]}
        orig_init = QC.QuicConnection.__init__

        def patched(self, *a, **k):
            orig_init(self, *a, **k)
            if self._is_client != sut_is_client:
                # the genuine peer: its stream-count limits are not configurable
                self._local_max_streams_bidi.value = self._local_max_streams_bidi.sent = case["streams_bidi"]
                self._local_max_streams_uni.value = self._local_max_streams_uni.sent = case["streams_uni"]
                if case.get("asym") and not (remembered == "accepted"):
                    # the three per-stream limits differ (QuicConfiguration has one knob for all of them)
                    self._local_max_stream_data_bidi_local, self._local_max_stream_data_bidi_remote, self._local_max_stream_data_uni = case["asym"]

        remembered = case.get("remembered") if sut_is_client else None
        # a client that resumes: an earlier connection to the same server left a session ticket with remembered transport parameters.
        #  "declined": that server advertised large limits, the new one does not accept the ticket (full handshake) and advertises the case's
        #  "accepted": that server advertised zero everywhere, the new one accepts the ticket and advertises the case's (nothing is reduced)
        ticket = None
        sconn_kw = {}
        if remembered:
            store = {}
            got = []
            prev = {"max_data": 1048576, "max_stream_data": 1048576} if remembered == "declined" else {"max_data": 0, "max_stream_data": 0}

            def patched0(self, *a, **k):
                orig_init(self, *a, **k)
                if not self._is_client and remembered == "accepted":
                    self._local_max_streams_bidi.value = self._local_max_streams_bidi.sent = 0
                    self._local_max_streams_uni.value = self._local_max_streams_uni.sent = 0

            QC.QuicConnection.__init__ = patched0
            try:
                c0 = QC.QuicConnection(configuration=E.client_config(), session_ticket_handler=got.append)
                c0.connect(E.SERVER_ADDR, now=0.0)
                s0 = QC.QuicConnection(configuration=E.server_config("ed25519", **prev), original_destination_connection_id=c0.original_destination_connection_id, session_ticket_handler=lambda t: store.__setitem__(t.ticket, t))
            finally:
                QC.QuicConnection.__init__ = orig_init
            t0 = 0.0
            for _ in range(6):
                t0 += 0.001
                E.transfer(c0, s0, t0, E.CLIENT_ADDR)
                t0 += 0.001
                E.transfer(s0, c0, t0, E.SERVER_ADDR)
            if not got:
                raise RuntimeError("harness: no session ticket")
            ticket = got[0]
            if remembered == "accepted":
                sconn_kw = {"session_ticket_fetcher": lambda k: store.pop(k, None)}
        QC.QuicConnection.__init__ = patched
        try:
            tk = Takeover(role, client_kw=peer_kw if not sut_is_client else {}, server_kw=peer_kw if sut_is_client else {}, session_ticket=ticket, server_conn_kw=sconn_kw)
        finally:
            QC.QuicConnection.__init__ = orig_init
        pre_cls = ["resumed:" + remembered + (":session-resumed" if tk.client.tls.session_resumed else ":full-handshake")] if remembered else []
        tp = transport_parameters(tk, tk.P)
        if tp is None:
            raise RuntimeError("harness: cannot recover the peer's transport parameters")
        L_conn = tp.get("initial_max_data", 0)
        L_streams = {"bidi": tp.get("initial_max_streams_bidi", 0), "uni": tp.get("initial_max_streams_uni", 0)}
        L_stream = {}

        def stream_limit(sid):
            if sid in L_stream:
                return L_stream[sid]
            if sid % 4 in (2, 3):
                return tp.get("initial_max_stream_data_uni", 0)
            sut_initiated = (sid % 2 == 0) == sut_is_client
            return tp.get("initial_max_stream_data_bidi_remote", 0) if sut_initiated else tp.get("initial_max_stream_data_bidi_local", 0)

        hi = {}
        seen_ranges = {}  # sid -> list of (start, stop) seen on the wire
        fin_seen = set()
        written = {}
        fin_written = set()
        reset_written = set()
        streams = []
        acked = set()
        cls = set(pre_cls)
        if len({tp.get("initial_max_stream_data_bidi_local", 0), tp.get("initial_max_stream_data_bidi_remote", 0), tp.get("initial_max_stream_data_uni", 0)}) > 1:
            cls.add("c06:asymmetric-limits")
        dead = [False]
        blocked = [False]
        retransmitted = [False]

        def sut_call(what, fn, *a, **k):
            try:
                return fn(*a, **k)
            except Exception as e:
                dead[0] = True
                ctx.violation("api-raised-" + exc_signature(e), "%s raised %r (SUT is the %s)" % (what, e, role), case)

        def check_packet(v):
            for f in v.frames or []:
                if f["name"] == "stream":
                    sid, off, n = f["stream_id"], f["offset"], len(f["data"])
                    end = off + n
                    rs = seen_ranges.setdefault(sid, [])
                    if any(a < end and off < b for a, b in rs) and n:
                        retransmitted[0] = True
                    rs.append((off, end))
                    if f["fin"]:
                        fin_seen.add(sid)
                elif f["name"] == "reset_stream":
                    sid, end = f["stream_id"], f["final_size"]
                else:
                    continue
                sut_initiated = (sid % 2 == 0) == sut_is_client
                if sut_initiated:
                    kind = "uni" if sid % 4 in (2, 3) else "bidi"
                    if sid // 4 >= L_streams[kind]:
                        ctx.violation(
                            "stream-opened-beyond-peer-stream-limit",
                            "the SUT (%s) sent a frame on stream %d (the %dth %s stream) while the peer's limit delivered so far is %d" % (role, sid, sid // 4 + 1, kind, L_streams[kind]),
                            case,
                        )
                if end > hi.get(sid, 0):
                    hi[sid] = end
                if hi.get(sid, 0) > stream_limit(sid):
                    ctx.violation(
                        "stream-offset-beyond-peer-stream-limit",
                        "the SUT (%s) sent stream %d up to offset %d in packet %d, the latest per-stream limit delivered is %d" % (role, sid, hi[sid], v.pn, stream_limit(sid)),
                        case,
                    )
                if sum(hi.values()) > L_conn:
                    ctx.violation(
                        "offsets-beyond-peer-connection-limit",
                        "the sum of highest stream offsets sent by the SUT (%s) is %d after packet %d, the latest connection limit delivered is %d" % (role, sum(hi.values()), v.pn, L_conn),
                        case,
                    )

        def observe():
            if dead[0]:
                return
            sut_call("next_event", tk.drain_events)
            for e in tk.events[observe.seen :]:
                if type(e).__name__ == "StopSendingReceived":
                    reset_written.add(e.stream_id)
            observe.seen = len(tk.events)
            pk = sut_call("datagrams_to_send", tk.collect) or []
            for v in pk:
                check_packet(v)
            if tk.terminated is not None or tk.sut._close_event is not None:
                dead[0] = True

        observe.seen = 0

        def newval(cur, how):
            return {"same": cur, "+1": cur + 1, "+100": cur + 100, "x2": cur * 2 + 1, "-1": max(0, cur - 1), "0": 0, "big": 1 << 30, "+2": cur + 2}[how]

        observe()
        for op in case["ops"]:
            if dead[0]:
                break
            kind = op[0]
            cls.add("op:" + kind)
            if kind == "tail_loss_then_write":
                _, ref, size, fin = op
                cand = [sid for sid in streams if sid not in fin_written and sid not in reset_written and written.get(sid)]
                if not cand:
                    continue
                sid = cand[ref % len(cand)]
                # everything sent so far is acknowledged except the newest packets; then the probe timer fires and only the probes are acknowledged
                known = [v.pn for v in tk.sut_packets if v.space == "app" and v.pn is not None]
                sut_call("timer", tk.fire_timer, max_wait=8.0, at_least=0.0005)
                n0 = len(tk.sut_packets)
                observe()
                sut_call("timer", tk.fire_timer, max_wait=8.0, at_least=0.0005)
                observe()
                probes = [v.pn for v in tk.sut_packets[n0:] if v.space == "app" and v.pn is not None]
                if probes and not dead[0]:
                    acked.update(probes)
                    tk.now += 0.05
                    sut_call("receive_datagram", tk.ack, probes)  # (no transmit in between)
                    lim = max(0, min(stream_limit(sid) - written.get(sid, 0), L_conn - sum(written.values())))
                    n = min({"lim-1": max(0, lim - 1), "lim": lim, "lim+1": lim + 1, "1": 1, "5000": 5000}[size], 60000)
                    if n > lim:
                        blocked[0] = True
                    sut_call("send_stream_data", tk.sut.send_stream_data, sid, bytes((sid + written.get(sid, 0) + i) & 0xFF for i in range(n)), fin)
                    written[sid] = written.get(sid, 0) + n
                    if fin:
                        fin_written.add(sid)
                    cls.add("tail-loss-then-write")
            elif kind == "burst":
                lim_conn = max(0, L_conn - sum(written.values()))
                for ref, size, fin in op[1]:
                    if ref in ("new-bidi", "new-uni") or not streams:
                        sid = tk.sut.get_next_available_stream_id(is_unidirectional=(ref == "new-uni"))
                        if sid in streams:
                            continue  # not yet used: the library hands the same id out again
                        streams.append(sid)
                    else:
                        sid = streams[ref % len(streams)]
                    if sid in fin_written or sid in reset_written:
                        continue
                    # each write is sized against the credit that was left BEFORE the burst
                    lim = max(0, min(stream_limit(sid) - written.get(sid, 0), lim_conn))
                    n = min({"lim-1": max(0, lim - 1), "lim": lim, "lim+1": lim + 1, "1": 1, "5000": 5000}[size], 60000)
                    if n > lim or sum(written.values()) + n > L_conn:
                        blocked[0] = True
                        cls.add("write-beyond-limit")
                    sut_call("send_stream_data", tk.sut.send_stream_data, sid, bytes((sid + written.get(sid, 0) + i) & 0xFF for i in range(n)), fin)
                    written[sid] = written.get(sid, 0) + n
                    if fin:
                        fin_written.add(sid)
                cls.add("burst-of-streams")
            elif kind == "write":
                _, ref, size, fin = op
                if ref in ("new-bidi", "new-uni") or not streams:
                    sid = tk.sut.get_next_available_stream_id(is_unidirectional=(ref == "new-uni"))
                    if sid not in streams:
                        streams.append(sid)
                else:
                    sid = streams[ref % len(streams)]
                if sid in fin_written or sid in reset_written:
                    continue
                lim = min(stream_limit(sid) - written.get(sid, 0), L_conn - sum(written.values()))
                lim = max(lim, 0)
                n = {"lim-1": max(0, lim - 1), "lim": lim, "lim+1": lim + 1, "3lim": 3 * lim + 3, "1": 1, "0": 0, "5000": 5000}[size]
                n = min(n, 60000)
                if n > lim:
                    blocked[0] = True
                    cls.add("write-beyond-limit")
                sut_call("send_stream_data", tk.sut.send_stream_data, sid, bytes((sid + written.get(sid, 0) + i) & 0xFF for i in range(n)), fin)
                written[sid] = written.get(sid, 0) + n
                if fin:
                    fin_written.add(sid)
            elif kind == "reset":
                if streams:
                    sid = streams[op[1] % len(streams)]
                    if sid not in reset_written:
                        sut_call("reset_stream", tk.sut.reset_stream, sid, 9)
                        reset_written.add(sid)
            elif kind == "peer_open":
                # the peer opens one of its own bidirectional streams: what the SUT sends on it is bounded by the peer's bidi_local limit
                sid = (0 if not sut_is_client else 1) + 4 * op[1]
                sut_call("receive_datagram", tk.send_frames, [{"name": "stream", "stream_id": sid, "offset": 0, "data": b"p", "fin": False}])
                if sid not in streams and not dead[0]:
                    streams.append(sid)
                    cls.add("peer-initiated-stream")
            elif kind == "max_data":
                v = newval(L_conn, op[1])
                sut_call("receive_datagram", tk.send_frames, [{"name": "max_data", "maximum": v}])
                L_conn = max(L_conn, v)
            elif kind == "max_stream_data":
                if streams:
                    sid = streams[op[1] % len(streams)]
                    if (sid % 2 == 0) == sut_is_client and sid // 4 >= L_streams["uni" if sid % 4 in (2, 3) else "bidi"]:
                        continue  # a stream the peer has not allowed yet does not exist for it: it cannot grant credit on it (RFC 9000 19.10)
                    v = newval(stream_limit(sid), op[2])
                    sut_call("receive_datagram", tk.send_frames, [{"name": "max_stream_data", "stream_id": sid, "maximum": v}])
                    L_stream[sid] = max(stream_limit(sid), v)
            elif kind == "max_streams":
                v = newval(L_streams[op[1]], op[2])
                sut_call("receive_datagram", tk.send_frames, [{"name": "max_streams_" + op[1], "maximum": v}])
                L_streams[op[1]] = max(L_streams[op[1]], v)
            elif kind == "stop_sending":
                if streams:
                    sid = streams[op[1] % len(streams)]
                    if sid in hi or sid in written:
                        sut_call("receive_datagram", tk.send_frames, [{"name": "stop_sending", "stream_id": sid, "error_code": 4}])
            elif kind == "ack_all":
                pns = [v.pn for v in tk.sut_packets if v.space == "app" and v.pn is not None]
                acked.update(pns)
                sut_call("receive_datagram", tk.ack)
            elif kind == "ack_some":
                pns = [v.pn for v in tk.sut_packets if v.space == "app" and v.pn is not None and v.pn not in acked]
                pick = [p for i, p in enumerate(pns) if (op[1] >> (i % 4)) & 1]
                if pick:
                    acked.update(pick)
                    sut_call("receive_datagram", tk.ack, pick)
            elif kind == "lose":
                # everything not acknowledged so far is lost for good; the SUT finds out when later packets are acknowledged
                tk.sut_packets = [v for v in tk.sut_packets if v.pn in acked]
                cls.add("lost-packets")
                for _ in range(2):
                    if dead[0]:
                        break
                    sut_call("timer", tk.fire_timer, max_wait=8.0, at_least=0.0005)
                    observe()
                    sut_call("receive_datagram", tk.send_frames, [{"name": "ping"}])
                    observe()
                    pns = [v.pn for v in tk.sut_packets if v.space == "app" and v.pn is not None]
                    acked.update(pns)
                    sut_call("receive_datagram", tk.ack)
                    observe()
            elif kind == "timer":
                sut_call("timer", tk.fire_timer, max_wait=8.0, at_least=0.0005)
            observe()
        # settle phase: no limit changes; everything is acknowledged and timers run until the SUT falls silent.  Then the SUT must have used all
        # the credit the latest limits give it (a limit never goes down: RFC 9000 4.1 - a lower or repeated value changes nothing)
        if not dead[0] and not reset_written:
            quiet = 0
            for _ in range(40):
                if dead[0]:
                    break
                n0 = len(tk.sut_packets)
                sut_call("receive_datagram", tk.send_frames, [{"name": "ping"}])
                observe()
                sut_call("timer", tk.fire_timer, max_wait=1.0, at_least=0.0005)
                observe()
                acked.update(v.pn for v in tk.sut_packets if v.space == "app" and v.pn is not None)
                sut_call("receive_datagram", tk.ack)
                observe()
                sut_call("timer", tk.fire_timer, max_wait=3.0, at_least=0.0005)
                observe()
                fresh = [v for v in tk.sut_packets[n0:] if any(f["name"] == "stream" and len(f["data"]) for f in v.frames or [])]
                quiet = 0 if fresh else quiet + 1
                if quiet >= 3:
                    break
            if not dead[0] and quiet >= 3 and not reset_written:
                openable = [sid for sid in streams if not ((sid % 2 == 0) == sut_is_client) or sid // 4 < L_streams["uni" if sid % 4 in (2, 3) else "bidi"]]
                demand = sum(min(written.get(sid, 0), stream_limit(sid)) for sid in openable)
                expect = min(L_conn, demand)
                got = sum(hi.get(sid, 0) for sid in openable)
                if got < expect:
                    ctx.violation(
                        "credit-granted-by-the-peer-not-used",
                        "after everything was acknowledged and the SUT (%s) fell silent it had sent %d bytes of new stream data in total; the latest limits delivered allow %d (connection limit %d, per-stream demand within stream limits %d): data blocked by a limit is not sent although the limit was raised" % (role, got, expect, L_conn, demand),
                        case,
                    )
                cls.add("settled")
        # fair phase: raise every limit far, acknowledge everything, let timers run
        if not dead[0]:
            L_conn = max(L_conn, 1 << 30)
            sut_call("receive_datagram", tk.send_frames, [{"name": "max_data", "maximum": 1 << 30}])
            for kind_ in ("bidi", "uni"):
                # exactly as many streams as the application opened (not more): the last blocked stream must get out too
                need = max([sid // 4 + 1 for sid in streams if (sid % 4 in (2, 3)) == (kind_ == "uni")] + [0])
                if need > L_streams[kind_]:
                    L_streams[kind_] = need
                    sut_call("receive_datagram", tk.send_frames, [{"name": "max_streams_" + kind_, "maximum": need}])
            for sid in streams:
                if (sid % 2 == 0) == sut_is_client or sid % 4 in (0, 1):
                    L_stream[sid] = max(stream_limit(sid), 1 << 30)
                    sut_call("receive_datagram", tk.send_frames, [{"name": "max_stream_data", "stream_id": sid, "maximum": 1 << 30}])
            observe()
            for _ in range(40):
                if dead[0]:
                    break
                sut_call("receive_datagram", tk.send_frames, [{"name": "ping"}])
                observe()
                sut_call("timer", tk.fire_timer, max_wait=1.0, at_least=0.0005)
                observe()
                pns = [v.pn for v in tk.sut_packets if v.space == "app" and v.pn is not None]
                acked.update(pns)
                sut_call("receive_datagram", tk.ack)
                observe()
                sut_call("timer", tk.fire_timer, max_wait=3.0, at_least=0.0005)
                observe()
                if all(covered(seen_ranges.get(s, []), written.get(s, 0)) and (s not in fin_written or s in fin_seen) for s in streams if s not in reset_written):
                    break
            if not dead[0]:
                for sid in streams:
                    if sid in reset_written:
                        continue
                    if not covered(seen_ranges.get(sid, []), written.get(sid, 0)):
                        ctx.violation(
                            "blocked-data-not-sent-after-limit-raised",
                            "stream %d: %d bytes written, wire shows ranges %s after every limit was raised and everything acknowledged (SUT is the %s)" % (sid, written.get(sid, 0), merge(seen_ranges.get(sid, []))[:6], role),
                            case,
                        )
                        break
                    if sid in fin_written and sid not in fin_seen:
                        ctx.violation("fin-not-sent-after-limit-raised", "stream %d: FIN written but never seen on the wire (SUT is the %s)" % (sid, role), case)
                        break
        nt = blocked[0] and retransmitted[0]
        if blocked[0]:
            cls.add("c06:blocked")
        if retransmitted[0]:
            cls.add("c06:retransmitted")
        ctx.case(("c06", repr(case)), nontrivial=nt, classes=sorted(cls) + ["c06:" + role, "c06:" + ("closed" if tk.sut._close_event is not None else "alive")])


def merge(ranges):
    out = []
    for a, b in sorted(ranges):
        if out and a <= out[-1][1]:
            out[-1][1] = max(out[-1][1], b)
        else:
            out.append([a, b])
    return [tuple(x) for x in out]


def covered(ranges, n):
    if n == 0:
        return True
    m = merge([r for r in ranges if r[1] > r[0]])
    return bool(m) and m[0][0] == 0 and m[0][1] >= n


def histories(ctx, examples, shard):
    from hypothesis import strategies as st
    from vlib.harness import run_hypothesis

    lim = st.sampled_from([0, 1, 100, 1199, 1200, 1201, 1201, 16384, 16384, 16384])
    strat = st.fixed_dictionaries(
        {"kind": st.just("c06"), "role": st.sampled_from(["client", "server"]), "max_data": lim, "max_stream_data": lim, "streams_bidi": st.sampled_from([0, 1, 2, 5, 5]), "streams_uni": st.sampled_from([0, 1, 2, 5, 5]), "remembered": st.sampled_from([None, None, None, "declined", "accepted"]), "asym": st.one_of(st.none(), st.tuples(lim, lim, lim)), "ops": ops_strategy()}
    )

    def body(ctx, case):
        run_history(ctx, case)
        if ctx.want_sample():
            ctx.sample(case)

    run_hypothesis(ctx, body, strat, examples, shard=shard)


def tup(x):
    return tuple(tup(v) for v in x) if isinstance(x, list) else x


def replay(ctx, case):
    run_history(ctx, dict(case, ops=[tup(o) for o in case["ops"]]))


def plan(tier, seed):
    q = tier == "quick"
    return [("sender-histories-%d" % s, {"examples": 260 if q else 6000, "shard": s}) for s in range(14 if q else 16)]


def run_task(ctx, name, **kw):
    histories(ctx, kw["examples"], kw["shard"])
