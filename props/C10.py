"""C10 - stream send and receive halves conform to a reference model.

Deciding method: (1) exhaustive breadth-first closure of the reachable state
space of QuicStreamReceiver / QuicStreamSender / RangeSet for bounded streams,
every transition compared with a set/dict model written from the statement;
(2) Hypothesis rule-based machines with long streams.
"""
import collections
import copy

PROPERTY = "C10"
LEVEL = "exploration"
RULE = (
    "closure: every operation of the bounded alphabet is applied to a deep copy of every reachable "
    "implementation state (BFS until no new state); one evaluation = one transition; non-trivial = the frame "
    "overlaps the delivered prefix and/or a buffered range, arrives after the FIN, is an ack/loss of a frame "
    "that is not the head of the stream, or a capped get_frame; distinct by (state, op). "
    "machines: Hypothesis RuleBasedStateMachine on streams up to 64 KiB; one evaluation = one rule step."
)
ASSUMPTIONS = [
    "frames delivered to a receiver carry the sender's true bytes for their offsets (inconsistent overlapping data is not modelled)",
    "caller contract of the send half as used by QuicConnection: no write after FIN/reset, no get_frame after reset, one delivery callback per emitted frame",
    "a first FIN or reset below data already received may be accepted or refused (statement silent); successors of such transitions are not explored",
]


def _conv(v):
    from aioquic.quic.rangeset import RangeSet

    if isinstance(v, RangeSet):
        return tuple((r.start, r.stop) for r in v)
    if isinstance(v, bytearray):
        return bytes(v)
    return v


def canon(obj):
    return tuple((k, _conv(v)) for k, v in sorted(vars(obj).items()))


def prefix(have, start=0):
    n = start
    while n in have:
        n += 1
    return n


# ------------------------------------------------------------------ receiver closure


class RModel:
    __slots__ = ("have", "final", "delivered", "reset", "eos")

    def __init__(self):
        self.have = frozenset()
        self.final = None
        self.delivered = 0
        self.reset = False
        self.eos = False

    def key(self):
        return (self.have, self.final, self.delivered, self.reset, self.eos)


def recv_step(ctx, r, m, op, ref, where):
    """Apply op to receiver r (mutated) and model m (copied); returns new model or
    None when exploration must not continue from here.  Reports violations."""
    from aioquic.quic.packet import QuicStreamFrame
    from aioquic.quic.stream import FinalSizeError

    m2 = copy.copy(m)
    hi = max(m.have) + 1 if m.have else 0
    if op[0] == "f":
        _, o, n, fin = op
        end = o + n
        exp_err = m.final is not None and (end > m.final or (fin and end != m.final))
        silent = m.final is None and fin and end < hi
        try:
            ev = r.handle_frame(QuicStreamFrame(offset=o, data=ref[o:end], fin=bool(fin)))
            err = False
        except FinalSizeError:
            err = True
        except Exception as e:
            ctx.violation("recv-unexpected-exception-" + type(e).__name__, "handle_frame%r raised %r" % (op, e), where())
            return None
        if silent:
            ctx.cls("recv:fin-below-received-data(statement silent)")
            return None
        if err != exp_err:
            ctx.violation(
                "recv-final-size-error-" + ("missing" if exp_err else "spurious"),
                "handle_frame%r raised=%s expected=%s in model state have=%s final=%s" % (op, err, exp_err, sorted(m.have), m.final),
                where(),
            )
            return None
        if err:
            return None
        m2.have = m.have | frozenset(range(o, end))
        if fin and m.final is None:
            m2.final = end
        p = prefix(m2.have, m.delivered)
        got = ev.data if ev else b""
        if got != ref[m.delivered : p]:
            ctx.violation(
                "recv-delivered-bytes-differ",
                "handle_frame%r delivered %r, model says %r (have=%s delivered=%d)" % (op, got, ref[m.delivered : p], sorted(m.have), m.delivered),
                where(),
            )
            return None
        m2.delivered = p
        if not m.reset:
            at_end = m2.final is not None and m2.delivered == m2.final
            if ev is not None:
                if bool(ev.end_stream) != at_end:
                    ctx.violation(
                        "recv-end-marker-wrong",
                        "handle_frame%r end_stream=%s, model says %s (final=%s delivered=%d)" % (op, ev.end_stream, at_end, m2.final, m2.delivered),
                        where(),
                    )
                    return None
                m2.eos = m.eos or at_end
            elif at_end and not m.eos:
                ctx.violation(
                    "recv-end-marker-missing",
                    "handle_frame%r returned no event although the stream just completed (final=%s)" % (op, m2.final),
                    where(),
                )
                return None
        return m2
    else:
        fs = op[1]
        exp_err = m.final is not None and fs != m.final
        silent = m.final is None and fs < hi
        try:
            r.handle_reset(final_size=fs)
            err = False
        except FinalSizeError:
            err = True
        except Exception as e:
            ctx.violation("recv-unexpected-exception-" + type(e).__name__, "handle_reset(%r) raised %r" % (fs, e), where())
            return None
        if silent:
            ctx.cls("recv:reset-below-received-data(statement silent)")
            return None
        if err != exp_err:
            ctx.violation(
                "recv-reset-final-size-error-" + ("missing" if exp_err else "spurious"),
                "handle_reset(final_size=%d) raised=%s expected=%s (final=%s)" % (fs, err, exp_err, m.final),
                where(),
            )
            return None
        if err:
            return None
        if m.final is None:
            m2.final = fs
        m2.reset = True
        return m2


def recv_nontrivial(m, op):
    if op[0] != "f":
        return m.final is not None
    _, o, n, fin = op
    end = o + n
    over_prefix = o < m.delivered < end
    over_buf = any(x in m.have for x in range(max(o, m.delivered), end))
    return over_prefix or over_buf or m.final is not None


def receiver_closure(ctx, L):
    from aioquic.quic.stream import QuicStreamReceiver

    ref = bytes(range(1, L + 1))
    ops = [("f", o, n, fin) for o in range(L + 1) for n in range(L - o + 1) for fin in (0, 1)]
    ops += [("r", fs) for fs in range(L + 1)]
    start = (QuicStreamReceiver(stream_id=0, readable=True), RModel(), ())
    seen = {(canon(start[0]), start[1].key())}
    q = collections.deque([start])
    transitions = 0
    while q:
        r, m, path = q.popleft()
        for op in ops:
            r2 = copy.deepcopy(r)
            transitions += 1
            p2 = path + (op,)
            m2 = recv_step(ctx, r2, m, op, ref, lambda: {"kind": "receiver", "L": L, "ops": p2})
            ctx.case((L, canon(r), op), nontrivial=recv_nontrivial(m, op))
            if m2 is None:
                continue
            k = (canon(r2), m2.key())
            if k not in seen:
                seen.add(k)
                q.append((r2, m2, p2))
                if len(seen) % 97 == 0:
                    ctx.sample({"receiver_L": L, "ops": p2})
    ctx.extra.update(states=len(seen), transitions=transitions, ops=len(ops), exhaustive=True)


# ------------------------------------------------------------------ sender closure


class SModel:
    __slots__ = ("W", "fin", "reset", "need", "need_fin", "out", "acked", "acked_pre", "acked_fin", "acked_fin_pre", "hi", "rst_out", "rst_acked")

    def __init__(self):
        self.W = b""
        self.fin = False
        self.reset = False
        self.need = frozenset()
        self.need_fin = False
        self.out = ()  # outstanding frames (start, stop, fin), in emission order
        self.acked = frozenset()
        self.acked_pre = frozenset()  # acked before reset() was called
        self.acked_fin = False
        self.acked_fin_pre = False
        self.hi = 0
        self.rst_out = 0
        self.rst_acked = False

    def key(self):
        return tuple(getattr(self, s) for s in self.__slots__)


def send_invariants(ctx, s, m, op, where):
    n = len(m.W)
    all_pre = m.fin and len(m.acked_pre) == n and m.acked_fin_pre
    all_any = m.fin and len(m.acked) == n and m.acked_fin
    must = all_pre or m.rst_acked
    may = must or all_any
    if s.is_finished and not may:
        ctx.violation("send-finished-too-early", "is_finished is True after %r but neither all bytes+FIN nor the reset were acknowledged" % (op,), where())
    if must and not s.is_finished:
        ctx.violation("send-finished-missing", "is_finished is False after %r although %s" % (op, "reset was acknowledged" if m.rst_acked else "all bytes and FIN were acknowledged"), where())
    if m.reset:
        if not s.buffer_is_empty:
            ctx.violation("send-offers-after-reset", "buffer_is_empty is False after reset (op %r)" % (op,), where())
        if not m.rst_acked and m.rst_out == 0 and not s.reset_pending:
            ctx.violation("send-reset-not-reoffered", "reset neither outstanding nor acknowledged nor pending after %r" % (op,), where())
    else:
        if (m.need or m.need_fin) and s.buffer_is_empty:
            ctx.violation(
                "send-lost-data-not-reoffered",
                "buffer_is_empty is True after %r although offsets %s fin=%s are written, unacknowledged and not in flight" % (op, sorted(m.need), m.need_fin),
                where(),
            )


def send_step(ctx, s, m, op, where, big):
    """Apply op to sender s and return the new model (or None to stop)."""
    from aioquic.quic.packet_builder import QuicDeliveryState

    try:
        return _send_step(ctx, s, m, op, where, big)
    except Exception as e:
        from vlib.harness import Violation

        if isinstance(e, Violation):
            raise
        ctx.violation("send-unexpected-exception-" + type(e).__name__, "%r raised %r" % (op, e), where())
        return None


def _send_step(ctx, s, m, op, where, big):
    from aioquic.quic.packet_builder import QuicDeliveryState

    m2 = copy.copy(m)
    kind = op[0]
    if kind == "w":
        _, data, fin = op
        s.write(data, end_stream=fin)
        m2.need = m.need | frozenset(range(len(m.W), len(m.W) + len(data)))
        m2.W = m.W + data
        if fin:
            m2.fin = True
            m2.need_fin = True
    elif kind == "g":
        _, max_size, max_offset = op
        f = s.get_frame(max_size, max_offset)
        if f is not None:
            end = f.offset + len(f.data)
            if f.data != m.W[f.offset : end] or end > len(m.W):
                ctx.violation("send-frame-bytes-differ", "get_frame%r returned offset=%d data=%r, written[%d:%d]=%r" % (op[1:], f.offset, f.data, f.offset, end, m.W[f.offset : end]), where())
                return None
            if len(f.data) > max_size:
                ctx.violation("send-frame-exceeds-max-size", "get_frame%r returned %d bytes" % (op[1:], len(f.data)), where())
                return None
            if max_offset is not None and len(f.data) and end > max_offset:
                ctx.violation("send-frame-exceeds-max-offset", "get_frame%r returned a frame ending at %d" % (op[1:], end), where())
                return None
            fin_expected = m.fin and end == len(m.W)
            if bool(f.fin) != fin_expected:
                ctx.violation("send-frame-fin-flag-wrong", "get_frame%r returned fin=%s for a frame ending at %d; written=%d bytes fin_written=%s" % (op[1:], f.fin, end, len(m.W), m.fin), where())
                return None
            if not f.data and not f.fin:
                ctx.violation("send-empty-frame", "get_frame%r returned an empty frame without FIN" % (op[1:],), where())
                return None
            m2.need = m.need - frozenset(range(f.offset, end))
            if f.fin:
                m2.need_fin = False
            m2.out = m.out + ((f.offset, end, bool(f.fin)),)
            m2.hi = max(m.hi, end)
            if s.highest_offset < m2.hi:
                ctx.violation("send-highest-offset-low", "highest_offset=%d after emitting a frame ending at %d" % (s.highest_offset, m2.hi), where())
                return None
        else:
            uncapped = max_size >= big and max_offset is None
            if uncapped and (m.need or m.need_fin):
                ctx.violation(
                    "send-lost-data-not-reoffered",
                    "get_frame(%d, None) returned None although offsets %s fin=%s are written, unacknowledged and not in flight" % (max_size, sorted(m.need), m.need_fin),
                    where(),
                )
                return None
    elif kind == "d":
        _, idx, acked = op
        start, stop, fin = m.out[idx]
        m2.out = m.out[:idx] + m.out[idx + 1 :]
        s.on_data_delivery(QuicDeliveryState.ACKED if acked else QuicDeliveryState.LOST, start, stop, fin)
        rng = frozenset(range(start, stop))
        if acked:
            m2.acked = m.acked | rng
            m2.need = m.need - rng
            if fin:
                m2.acked_fin = True
                m2.need_fin = False
            if not m.reset:
                m2.acked_pre = m2.acked
                m2.acked_fin_pre = m2.acked_fin
        else:
            covered = set()
            for a, b, _ in m2.out:
                covered.update(range(a, b))
            m2.need = m.need | (rng - m.acked - covered)
            if fin and not m.acked_fin and not any(x[2] for x in m2.out):
                m2.need_fin = True
    elif kind == "x":
        s.reset(op[1])
        m2.reset = True
    elif kind == "gr":
        rf = s.get_reset_frame()
        if not (m.hi <= rf.final_size <= len(m.W)):
            ctx.violation("send-reset-final-size", "reset frame final_size=%d, highest offset emitted=%d, written=%d" % (rf.final_size, m.hi, len(m.W)), where())
            return None
        m2.rst_out = m.rst_out + 1
    elif kind == "rd":
        s.on_reset_delivery(QuicDeliveryState.ACKED if op[1] else QuicDeliveryState.LOST)
        m2.rst_out = m.rst_out - 1
        if op[1]:
            m2.rst_acked = True
    send_invariants(ctx, s, m2, op, where)
    return m2


def sender_ops(s, m, W, sizes, offsets, max_out):
    ops = []
    if not m.fin and not m.reset:
        for n in (1, 2):
            if len(m.W) + n <= W:
                data = bytes(range(len(m.W) + 1, len(m.W) + n + 1))
                ops.append(("w", data, False))
                ops.append(("w", data, True))
        ops.append(("w", b"", True))
    if not m.reset and len(m.out) < max_out:
        for ms in sizes:
            for mo in offsets:
                ops.append(("g", ms, mo))
    for i in range(len(m.out)):
        if i and m.out[i] == m.out[i - 1]:
            continue
        ops.append(("d", i, True))
        ops.append(("d", i, False))
    if not m.reset:
        ops.append(("x", 7))
    if s.reset_pending and m.rst_out < 2:
        ops.append(("gr",))
    if m.rst_out:
        ops.append(("rd", True))
        ops.append(("rd", False))
    return ops


def send_nontrivial(m, op):
    if op[0] == "d":
        start = m.out[op[1]][0]
        return start > min([a for a, _, _ in m.out] + [start]) or (len(m.acked) > 0 and start > prefix(m.acked)) or m.reset
    if op[0] == "g":
        return op[1] < 9 or op[2] is not None
    return op[0] in ("rd",)


def sender_closure(ctx, W, max_out):
    from aioquic.quic.stream import QuicStreamSender

    sizes = (0, 1, 2, 9)
    offsets = (None,) + tuple(range(W + 1))
    start = (QuicStreamSender(stream_id=0, writable=True), SModel(), ())
    seen = {(canon(start[0]), start[1].key())}
    q = collections.deque([start])
    transitions = 0
    while q:
        s, m, path = q.popleft()
        for op in sender_ops(s, m, W, sizes, offsets, max_out):
            s2 = copy.deepcopy(s)
            transitions += 1
            p2 = path + (op,)
            m2 = send_step(ctx, s2, m, op, lambda: {"kind": "sender", "W": W, "ops": p2}, big=9)
            ctx.case((W, canon(s), m.key(), op), nontrivial=send_nontrivial(m, op))
            if m2 is None:
                continue
            k = (canon(s2), m2.key())
            if k not in seen:
                seen.add(k)
                q.append((s2, m2, p2))
                if len(seen) % 4999 == 0:
                    ctx.sample({"sender_W": W, "ops": p2})
    ctx.extra.update(states=len(seen), transitions=transitions, exhaustive=True)


# ------------------------------------------------------------------ RangeSet closure


def canonical_ranges(sset):
    out = []
    for v in sorted(sset):
        if out and out[-1][1] == v:
            out[-1][1] = v + 1
        else:
            out.append([v, v + 1])
    return [tuple(x) for x in out]


def rangeset_check(ctx, rs, model, op, where, universe):
    got = [(r.start, r.stop) for r in rs]
    want = canonical_ranges(model)
    if got != want:
        ctx.violation("rangeset-differs-from-set-model", "after %r: RangeSet=%s, set model=%s" % (op, got, want), where())
        return False
    if len(rs) != len(want):
        ctx.violation("rangeset-len", "len()=%d for %s" % (len(rs), got), where())
        return False
    for v in universe:
        if (v in rs) != (v in model):
            ctx.violation("rangeset-contains", "%d in %s is %s" % (v, got, v in rs), where())
            return False
    if want:
        b = rs.bounds()
        if (b.start, b.stop) != (want[0][0], want[-1][1]):
            ctx.violation("rangeset-bounds", "bounds()=%r for %s" % (b, got), where())
            return False
    return True


def rangeset_closure(ctx, U):
    from aioquic.quic.rangeset import RangeSet

    pairs = [(a, b) for a in range(U + 1) for b in range(a + 1, U + 1)]
    ops = [("add", a, b) for a, b in pairs] + [("sub", a, b) for a, b in pairs] + [("add1", a) for a in range(U)] + [("shift",)]
    start = (RangeSet(), frozenset(), ())
    seen = {((), frozenset())}
    q = collections.deque([start])
    transitions = 0
    while q:
        rs, model, path = q.popleft()
        for op in ops:
            if op[0] == "shift" and not model:
                continue
            rs2 = copy.deepcopy(rs)
            p2 = path + (op,)
            transitions += 1
            if op[0] == "add":
                rs2.add(op[1], op[2])
                m2 = model | frozenset(range(op[1], op[2]))
            elif op[0] == "add1":
                rs2.add(op[1])
                m2 = model | {op[1]}
            elif op[0] == "sub":
                rs2.subtract(op[1], op[2])
                m2 = model - frozenset(range(op[1], op[2]))
            else:
                r = rs2.shift()
                first = canonical_ranges(model)[0]
                if (r.start, r.stop) != first:
                    ctx.violation("rangeset-shift", "shift() returned %r, first range is %r" % (r, first), {"kind": "rangeset", "U": U, "ops": p2})
                    continue
                m2 = model - frozenset(range(first[0], first[1]))
            touches = op[0] != "shift" and any(x in model for x in range(max(0, op[1] - 1), (op[2] if len(op) > 2 else op[1] + 1) + 1))
            ctx.case((U, tuple(sorted(model)), op), nontrivial=touches)
            if not rangeset_check(ctx, rs2, m2, op, lambda: {"kind": "rangeset", "U": U, "ops": p2}, range(-1, U + 2)):
                continue
            k = (tuple((r.start, r.stop) for r in rs2), m2)
            if k not in seen:
                seen.add(k)
                q.append((rs2, m2, p2))
                if len(seen) % 301 == 0:
                    ctx.sample({"rangeset_U": U, "ops": p2})
    # copy-constructor / equality
    ctx.extra.update(states=len(seen), transitions=transitions, ops=len(ops), exhaustive=True)


# ------------------------------------------------------------------ long random machines


def machines(ctx, which, examples, steps, shard):
    from hypothesis import strategies as st
    from hypothesis.stateful import RuleBasedStateMachine, initialize, precondition, rule

    from aioquic.quic.stream import QuicStreamReceiver, QuicStreamSender
    from aioquic.quic.rangeset import RangeSet
    from vlib.harness import run_hypothesis

    def refbyte(i):
        return (i * 131 + (i >> 8) * 31 + 7) & 0xFF

    class Recv(RuleBasedStateMachine):
        @initialize(n=st.one_of(st.integers(0, 40), st.integers(0, 65536)))
        def init(self, n):
            self.n = n
            self.ref = bytes(refbyte(i) for i in range(n + 3200))  # frames reach up to n + 3000
            self.r = QuicStreamReceiver(stream_id=0, readable=True)
            self.m = RModel()
            self.log = []
            self.dead = False

        @precondition(lambda self: not self.dead)
        @rule(data=st.data())
        def frame(self, data):
            m = self.m
            n = self.n
            anchors = [0, m.delivered, n, max(m.have) + 1 if m.have else 0]
            base = data.draw(st.sampled_from(anchors))
            o = max(0, base + data.draw(st.integers(-1500, 1500)))
            ln = data.draw(st.one_of(st.integers(0, 3), st.integers(0, 1500)))
            mode = data.draw(st.integers(0, 9))
            if mode < 7:
                # consistent frame: inside the stream, FIN only at the true end
                o = min(o, n)
                ln = min(ln, n - o)
                fin = (o + ln == n) and data.draw(st.booleans())
            else:
                fin = data.draw(st.booleans())
            op = ("f", o, ln, int(fin))
            self.log.append(op)
            nt = recv_nontrivial(m, op)
            m2 = recv_step(ctx, self.r, m, op, self.ref, lambda: {"kind": "receiver-machine", "n": n, "ops": self.log})
            ctx.case(("rm", n, tuple(self.log[-3:])), nontrivial=nt, classes=["recv-machine-step"])
            if m2 is None:
                self.dead = True
            else:
                self.m = m2

        @precondition(lambda self: not self.dead)
        @rule(data=st.data(), gate=st.integers(0, 7))
        def reset(self, data, gate):
            if gate or len(self.log) < 4:
                return
            fs = data.draw(st.sampled_from([self.n, self.n, self.n + 1, 0, max(self.m.have) + 1 if self.m.have else 0]))
            op = ("r", fs)
            self.log.append(op)
            m2 = recv_step(ctx, self.r, self.m, op, self.ref, lambda: {"kind": "receiver-machine", "n": self.n, "ops": self.log})
            ctx.case(("rm", self.n, tuple(self.log[-3:])), nontrivial=True, classes=["recv-machine-reset"])
            if m2 is None:
                self.dead = True
            else:
                self.m = m2

        @rule()
        def idle(self):
            pass

        def teardown(self):
            if getattr(self, "log", None) and len(self.log) > 6:
                ctx.sample({"receiver_machine_n": self.n, "ops": self.log[:12]}, every=1)

    class Send(RuleBasedStateMachine):
        @initialize()
        def init(self):
            self.s = QuicStreamSender(stream_id=0, writable=True)
            self.m = SModel()
            self.log = []
            self.dead = False

        def apply(self, op, nt):
            self.log.append(op)
            m2 = send_step(ctx, self.s, self.m, op, lambda: {"kind": "sender-machine", "ops": self.log}, big=1 << 20)
            ctx.case(("sm", len(self.log), op), nontrivial=nt, classes=["send-machine-" + op[0]])
            if m2 is None:
                self.dead = True
            else:
                self.m = m2

        @rule(data=st.data())
        def step(self, data):
            if self.dead:
                return
            m = self.m
            kinds = []
            if not m.fin and not m.reset and len(m.W) < 70000:
                kinds += ["w"] * 3
            if not m.reset:
                kinds += ["g"] * 4 + ["x"] * (1 if len(self.log) > 6 else 0)
            if m.out:
                kinds += ["d"] * 4
            if self.s.reset_pending:
                kinds += ["gr"] * 2
            if m.rst_out:
                kinds += ["rd"] * 2
            if not kinds:
                return
            k = data.draw(st.sampled_from(kinds))
            if k == "w":
                n = data.draw(st.one_of(st.integers(0, 3), st.integers(0, 5000)))
                fin = data.draw(st.integers(0, 5)) == 0
                base = len(m.W)
                self.apply(("w", bytes(refbyte(i) for i in range(base, base + n)), fin), False)
            elif k == "g":
                ms = data.draw(st.one_of(st.integers(0, 3), st.integers(0, 1500), st.just(1 << 20)))
                mo = data.draw(st.one_of(st.none(), st.integers(-2, 5), st.integers(0, 70000)))
                if mo is not None and -2 <= mo <= 5:
                    mo = max(0, self.s.next_offset + mo)
                self.apply(("g", ms, mo), ms < (1 << 20) or mo is not None)
            elif k == "d":
                idx = data.draw(st.integers(0, len(m.out) - 1))
                acked = data.draw(st.booleans())
                self.apply(("d", idx, acked), send_nontrivial(m, ("d", idx, acked)))
            elif k == "x":
                self.apply(("x", 3), True)
            elif k == "gr":
                self.apply(("gr",), True)
            else:
                self.apply(("rd", data.draw(st.booleans())), True)

        def teardown(self):
            if getattr(self, "log", None) and len(self.log) > 8:
                ctx.sample({"sender_machine_ops": [o if o[0] != "w" else ("w", len(o[1]), o[2]) for o in self.log[:14]]})

    class Rs(RuleBasedStateMachine):
        @initialize()
        def init(self):
            self.rs = RangeSet()
            self.m = set()
            self.log = []

        @rule(a=st.integers(0, 300), n=st.integers(1, 40))
        def add(self, a, n):
            self.log.append(("add", a, a + n))
            self.rs.add(a, a + n)
            self.m |= set(range(a, a + n))
            self.chk()

        @rule(a=st.integers(0, 300), n=st.integers(1, 60))
        def sub(self, a, n):
            self.log.append(("sub", a, a + n))
            self.rs.subtract(a, a + n)
            self.m -= set(range(a, a + n))
            self.chk()

        @precondition(lambda self: len(self.m) > 0)
        @rule()
        def shift(self):
            self.log.append(("shift",))
            first = canonical_ranges(self.m)[0]
            r = self.rs.shift()
            if (r.start, r.stop) != first:
                ctx.violation("rangeset-shift", "shift() returned %r, first range is %r" % (r, first), {"kind": "rangeset-machine", "ops": self.log})
            self.m -= set(range(first[0], first[1]))
            self.chk()

        def chk(self):
            ctx.case(("rsm", tuple(self.log[-4:])), nontrivial=len(self.log) > 2, classes=["rangeset-machine-step"])
            rangeset_check(ctx, self.rs, self.m, self.log[-1], lambda: {"kind": "rangeset-machine", "ops": self.log}, range(0, 345, 7))
            # copy constructor and equality
            if len(self.log) % 5 == 0:
                if not (RangeSet(list(self.rs)) == self.rs):
                    ctx.violation("rangeset-copy-eq", "RangeSet(list(rs)) != rs for %r" % (self.rs,), {"kind": "rangeset-machine", "ops": self.log})

    M = {"recv": Recv, "send": Send, "rangeset": Rs}[which]
    run_hypothesis(ctx, None, None, examples, shard=shard, stateful={"machine": M, "steps": steps})


# ------------------------------------------------------------------ replay of a saved case


def replay(ctx, case):
    from aioquic.quic.rangeset import RangeSet
    from aioquic.quic.stream import QuicStreamReceiver, QuicStreamSender

    def tup(x):
        return tuple(tup(v) for v in x) if isinstance(x, list) else x

    ops = [tup(o) for o in case["ops"]]
    kind = case["kind"]
    if kind.startswith("receiver"):
        L = case.get("L")
        if L is not None:
            ref = bytes(range(1, L + 1))
        else:
            ref = bytes(((i * 131 + (i >> 8) * 31 + 7) & 0xFF) for i in range(case["n"] + 3200))
        r, m = QuicStreamReceiver(stream_id=0, readable=True), RModel()
        for i, op in enumerate(ops):
            ctx.case(op, True)
            m = recv_step(ctx, r, m, op, ref, lambda: case)
            if m is None:
                break
    elif kind.startswith("sender"):
        s, m = QuicStreamSender(stream_id=0, writable=True), SModel()
        for op in ops:
            ctx.case(op, True)
            if op[0] == "w" and isinstance(op[1], str):
                op = ("w", bytes.fromhex(op[1]), op[2])
            m = send_step(ctx, s, m, op, lambda: case, big=9 if "W" in case else 1 << 20)
            if m is None:
                break
    else:
        rs, m = RangeSet(), set()
        for op in ops:
            ctx.case(op, True)
            if op[0] == "add":
                rs.add(op[1], op[2]); m |= set(range(op[1], op[2]))
            elif op[0] == "add1":
                rs.add(op[1]); m.add(op[1])
            elif op[0] == "sub":
                rs.subtract(op[1], op[2]); m -= set(range(op[1], op[2]))
            else:
                first = canonical_ranges(m)[0]
                r = rs.shift()
                if (r.start, r.stop) != first:
                    ctx.violation("rangeset-shift", "shift() returned %r, first range is %r" % (r, first), case)
                m -= set(range(first[0], first[1]))
            rangeset_check(ctx, rs, m, op, lambda: case, range(-1, 400))


# ------------------------------------------------------------------ plan


def plan(tier, seed):
    t = []
    if tier == "quick":
        for L in (3, 4, 5):
            t.append(("receiver-closure-L%d" % L, {"fn": "rc", "L": L}))
        t.append(("sender-closure-W3", {"fn": "sc", "W": 3, "max_out": 3}))
        t.append(("rangeset-closure-U7", {"fn": "rs", "U": 7}))
        for i in range(3):
            t.append(("recv-machine-%d" % i, {"fn": "m", "which": "recv", "examples": 150, "steps": 60, "shard": i}))
            t.append(("send-machine-%d" % i, {"fn": "m", "which": "send", "examples": 150, "steps": 60, "shard": i}))
        t.append(("rangeset-machine", {"fn": "m", "which": "rangeset", "examples": 150, "steps": 40, "shard": 0}))
    else:
        for L in (3, 4, 5, 6, 7):
            t.append(("receiver-closure-L%d" % L, {"fn": "rc", "L": L}))
        t.append(("sender-closure-W3", {"fn": "sc", "W": 3, "max_out": 3}))
        t.append(("sender-closure-W4", {"fn": "sc", "W": 4, "max_out": 3}))
        t.append(("rangeset-closure-U10", {"fn": "rs", "U": 10}))
        for i in range(4):
            t.append(("recv-machine-%d" % i, {"fn": "m", "which": "recv", "examples": 2500, "steps": 100, "shard": i}))
            t.append(("send-machine-%d" % i, {"fn": "m", "which": "send", "examples": 2500, "steps": 100, "shard": i}))
        t.append(("rangeset-machine", {"fn": "m", "which": "rangeset", "examples": 3000, "steps": 60, "shard": 0}))
    return t


def run_task(ctx, name, fn, **kw):
    if fn == "rc":
        receiver_closure(ctx, kw["L"])
    elif fn == "sc":
        sender_closure(ctx, kw["W"], kw["max_out"])
    elif fn == "rs":
        rangeset_closure(ctx, kw["U"])
    else:
        machines(ctx, kw["which"], kw["examples"], kw["steps"], kw["shard"])


def finalize(cov, results):
    states = sum(r["extra"].get("states", 0) for r in results)
    trans = sum(r["extra"].get("transitions", 0) for r in results)
    cov["states"] = states
    cov["transitions"] = trans
    cov["exhaustive"] = False
    cov["explanation"] = (
        "closure tasks are exhaustive within their stated bound (see tasks.*.exhaustive); the machine tasks sample long streams"
    )
