"""C19 - the asyncio adapter stays consistent under any event-loop schedule.

Real aioquic.asyncio.serve() / connect() / QuicConnectionProtocol objects run
on a virtual-time event loop (vlib/vloop.py) over an in-memory network that
drops, duplicates, delays, reorders and re-addresses datagrams.  Hypothesis
generates the application scripts of 1-3 concurrent clients, the server-side
closes, the network fates and the loop lateness.
"""
import asyncio

PROPERTY = "C19"
LEVEL = "exploration"
RULE = (
    "one evaluation = one generated scenario on a fresh virtual-time event loop: a QuicServer started with serve() (with or without Retry) and 1-3 clients "
    "using connect(); every client runs a generated script of concurrent operations - bidirectional and unidirectional streams written in generated chunks with "
    "generated pauses (same tick, call_soon yield, timed sleep) and ended by write_eof()/close()/nothing, ping(), request_key_update(), change_connection_id(), a "
    "close at a generated time - while the server echoes every bidirectional stream; the harness may close a connection from the server side, black out a "
    "client's link (idle timeout) and replay datagrams from a foreign address; the network applies generated fates (deliver with delay, drop, duplicate, "
    "spoofed duplicate) for the first seconds and is fair afterwards; timers fire with generated lateness. Oracles: (1) what a reader returns is a prefix of what "
    "the peer's writer was given, and the whole of it followed by EOF whenever the read finished while the connection was still open; on a connection that "
    "nobody closed and that was not blacked out every stream completes. (2) every awaited connect() entry, wait_connected(), ping(), connect() exit and "
    "wait_closed() is finished at the end of the scenario, with a normal return or ConnectionError; nothing else is raised; no callback of the adapter raises "
    "(InvalidStateError = a waiter completed twice). (3) sampled every 50 virtual ms and at the end: every routing entry of the server points to a protocol "
    "that has not terminated; every live server-side protocol is reachable through each connection ID in its host list; in Retry mode a protocol is only "
    "created by a datagram whose token the server issued to that very address. Non-trivial = the scenario has >= 2 concurrent operations and at least one "
    "of: a lost/duplicated/spoofed datagram, a close by either side, a blackout, two clients. Distinct by the scenario."
)
ASSUMPTIONS = [
    "asyncio runs call_soon callbacks in FIFO order; the explored schedules are those a real loop can produce: arbitrary datagram delays/reorderings, late timers (a busy loop), and application coroutines yielding at generated points",
    "close() does not flush: data written just before a close may be lost, so only the prefix relation is required on closed connections",
    "the final sample is taken after the longest configured idle timeout plus the draining period has elapsed in virtual time",
]

HORIZON = 200.0
IDLE = 30.0


def pattern(ci, si, n):
    import hashlib

    seed = hashlib.sha256(b"c19-%d-%d" % (ci, si)).digest()
    return (seed * (n // 32 + 1))[:n]


def case_strategy():
    from hypothesis import strategies as st

    gap = st.sampled_from([None, None, 0, 0, 0.001, 0.02, 0.3])
    size = st.sampled_from([0, 1, 5, 100, 1199, 1200, 1201, 5000, 20000, 70000])
    stream = st.fixed_dictionaries({"op": st.just("stream"), "t": st.sampled_from([0, 0, 0, 0.01, 0.2, 1.0]), "uni": st.sampled_from([False, False, False, True]), "chunks": st.lists(st.tuples(size, gap), min_size=0, max_size=4), "end": st.sampled_from(["eof", "eof", "eof", "close", "none"])})
    other = st.fixed_dictionaries({"op": st.sampled_from(["ping", "ping", "key_update", "change_cid", "wait_connected", "ping_cancelled", "ping_cancelled"]), "t": st.sampled_from([0, 0, 0.01, 0.2, 1.0, 2.5]), "timeout": st.sampled_from([0.0, 0.001, 0.005, 0.02, 0.3])})
    client = st.fixed_dictionaries(
        {
            "start": st.sampled_from([0, 0, 0.001, 0.05, 0.5]), "ops": st.lists(st.one_of(stream, stream, other), min_size=1, max_size=6),
            "close_at": st.sampled_from([None, None, None, 0.0, 0.05, 0.3, 1.5]), "blackout_at": st.sampled_from([None, None, None, None, 0.0, 0.02, 0.2, 1.0]),
            "server_close_at": st.sampled_from([None, None, None, None, 0.03, 0.3, 1.2]), "wait_connected": st.sampled_from([True, True, True, False]),
        }
    )
    fate = st.tuples(st.sampled_from(["deliver"] * 7 + ["drop", "drop", "dup", "spoof", "spoof-port"]), st.sampled_from([0.001, 0.01, 0.01, 0.03, 0.1, 0.25]), st.sampled_from([0.001, 0.02, 0.15])).map(list)
    return st.fixed_dictionaries(
        {
            "kind": st.just("scenario"), "retry": st.sampled_from([False, False, True]), "clients": st.lists(client, min_size=1, max_size=3), "fates": st.one_of(st.just([]), st.lists(fate, max_size=60)),
            "lateness": st.lists(st.sampled_from([0.0, 0.0, 0.0, 0.0005, 0.003, 0.02, 0.2]), min_size=1, max_size=5), "adv_end": st.sampled_from([1.0, 3.0]),
        }
    )


class Recorder:
    def __init__(self):
        self.waits = {}  # name -> outcome or None
        self.notes = []

    def start(self, name):
        self.waits[name] = None

    def done(self, name, outcome):
        if self.waits.get(name) is not None:
            self.notes.append(("finished-twice", name))
        self.waits[name] = outcome


async def tracked(rec, name, aw):
    rec.start(name)
    try:
        r = await aw
    except ConnectionError:
        rec.done(name, "ConnectionError")
        raise
    except asyncio.CancelledError:
        raise
    except Exception as e:  # noqa
        rec.done(name, "raised:" + type(e).__name__ + ":" + str(e)[:80])
        raise
    rec.done(name, "ok")
    return r


def scenario(ctx, case):
    from aioquic.asyncio import connect, serve
    from aioquic.asyncio.protocol import QuicConnectionProtocol
    from vlib import endpoints as E, refquic as R, vloop

    rec = Recorder()
    st = {"server": None, "protos": [], "created": [], "issued": set(), "server_rx": {}, "client_tx": {}, "client_rx": {}, "violations": [], "by_addr": {}, "client_addr": {}, "client_proto": {}, "samples": 0, "client_term": {}}

    def V(sig, text):
        if not any(s == sig for s, _ in st["violations"]):
            try:
                text = "t=%.4f: %s" % (asyncio.get_running_loop().time(), text)
            except RuntimeError:
                pass
            st["violations"].append((sig, text))

    class ServerProto(QuicConnectionProtocol):
        def __init__(self, *a, **k):
            super().__init__(*a, **k)
            self._verif_first = None
            self._verif_retry_cid = None
            st["protos"].append(self)

        def datagram_received(self, data, addr):
            if self._verif_first is None:
                self._verif_first = addr
                st["by_addr"].setdefault(addr, []).append(self)
                srv = st["server"]
                if srv is not None and srv._retry is not None:
                    try:
                        info = R.split_datagram(bytes(data), 8, require_fixed_bit=False)[0]
                        token = info.token
                        if token:
                            # the destination connection ID of a token-carrying Initial is the source connection ID of the server's Retry packet
                            self._verif_retry_cid = bytes(info.dcid)
                    except Exception:  # noqa
                        token = None
                    if (addr, bytes(token or b"")) not in st["issued"]:
                        V("connection-created-without-token-issued-to-that-address", "in Retry mode the server created connection state for %r with token %s, which it never issued to that address" % (addr[:2], (token or b"").hex()[:40]))
            super().datagram_received(data, addr)

    def server_protos(ci):
        """server-side protocols of client ci (matched by the original destination connection ID: an address can be spoofed)"""
        cp = st["client_proto"].get(ci)
        if cp is None:
            return []
        odcid = cp._quic.original_destination_connection_id
        return [p for p in st["protos"] if p._quic._original_destination_connection_id == odcid]

    async def echo(reader, writer):
        sid = writer.get_extra_info("stream_id")
        proto = writer.transport.protocol
        data = b""
        while True:
            chunk = await reader.read(65536)
            if not chunk:
                break
            data += chunk
        open_ = proto._quic._close_event is None and not proto._closed.is_set()
        st["server_rx"][(proto, sid)] = (data, open_)
        if sid % 4 == 0 and open_:
            out = data[::-1]
            for i in range(0, len(out), 30000):
                writer.write(out[i : i + 30000])
                await asyncio.sleep(0)
            writer.write_eof()

    def handler(reader, writer):
        asyncio.get_running_loop().create_task(echo(reader, writer))

    def check_routing(final=False):
        srv = st["server"]
        st["samples"] += 1
        for cid, p in list(srv._protocols.items()):
            if p._closed.is_set():
                V("routing-entry-for-terminated-connection", "the server still routes connection ID %s to a protocol whose connection has terminated (state %s)" % (cid.hex(), p._quic._state.name))
        for p in st["protos"]:
            if p._closed.is_set() or p._verif_first is None:
                continue
            if p._verif_retry_cid is not None and srv._protocols.get(p._verif_retry_cid) is not p:
                V("live-connection-unreachable-through-retry-connection-id", "the connection was created by an Initial addressed to %s, the connection ID the server issued in its Retry packet and the client keeps using until it hears from the server; that ID is %s in the routing table" % (p._verif_retry_cid.hex(), "absent" if p._verif_retry_cid not in srv._protocols else "routed elsewhere"))
            for c in p._quic._host_cids:
                if not c.was_sent and c.sequence_number != 0:
                    continue  # generated but not yet put into a NEW_CONNECTION_ID frame: the peer cannot know it
                if srv._protocols.get(c.cid) is not p:
                    V("live-connection-unreachable-through-issued-connection-id", "connection ID %s (sequence %d) of a live connection is %s in the routing table" % (c.cid.hex(), c.sequence_number, "absent" if c.cid not in srv._protocols else "routed elsewhere"))

    async def monitor():
        while True:
            await asyncio.sleep(0.05)
            check_routing()

    async def stream_op(ci, proto, op, k):
        if not op["chunks"] and op["end"] == "none":
            return  # nothing would be sent and the stream ID would be handed out again
        reader, writer = await proto.create_stream(op["uni"])
        st.setdefault("keep", []).append(writer)  # a StreamWriter that is garbage collected closes its stream (CPython >= 3.12)
        sid = writer.get_extra_info("stream_id")
        total = sum(n for n, _ in op["chunks"])
        data = pattern(ci, sid, total)
        st["client_tx"][(ci, sid)] = {"data": data, "ended": False, "uni": op["uni"]}
        pos = 0
        for n, gap in op["chunks"]:
            writer.write(data[pos : pos + n])
            pos += n
            if gap is not None:
                await asyncio.sleep(gap)
        if op["end"] == "eof":
            writer.write_eof()
        elif op["end"] == "close":
            writer.close()
        else:
            return
        st["client_tx"][(ci, sid)]["ended"] = True
        if not op["uni"]:
            got = await reader.read()
            open_ = proto._quic._close_event is None and not proto._closed.is_set()
            st["client_rx"][(ci, sid)] = (got, open_)

    async def run_op(ci, proto, op, k):
        if op["t"]:
            await asyncio.sleep(op["t"])
        name = "c%d.%s#%d" % (ci, op["op"], k)
        try:
            if op["op"] == "stream":
                await stream_op(ci, proto, op, k)
            elif op["op"] == "ping":
                await tracked(rec, name, proto.ping())
            elif op["op"] == "ping_cancelled":
                # the application gives up waiting (asyncio.wait_for cancels the awaiting coroutine); the acknowledgement or the end of the
                # connection arrives later and must not trip over the abandoned waiter
                try:
                    await asyncio.wait_for(proto.ping(), op.get("timeout", 0.001))
                except asyncio.TimeoutError:
                    st["cancelled_pings"] = st.get("cancelled_pings", 0) + 1
            elif op["op"] == "wait_connected":
                if proto._connected_waiter is None:
                    await tracked(rec, name, proto.wait_connected())
            elif op["op"] == "key_update":
                if proto._quic._handshake_confirmed and proto._quic._close_event is None:
                    proto.request_key_update()
            elif op["op"] == "change_cid":
                if proto._quic._close_event is None and proto._quic._peer_cid_available:
                    proto.change_connection_id()
        except ConnectionError:
            pass

    async def client_main(ci, spec, loop):
        if spec["start"]:
            await asyncio.sleep(spec["start"])
        cfg = E.client_config(idle_timeout=IDLE, server_name="localhost")
        cm = connect("server.test", 4433, configuration=cfg, wait_connected=spec["wait_connected"])
        try:
            proto = await tracked(rec, "c%d.connect" % ci, cm.__aenter__())
        except ConnectionError:
            st["client_term"][ci] = "connect-failed"
            return
        st["client_proto"][ci] = proto
        if not spec["wait_connected"]:
            proto.transmit()  # connect(wait_connected=False) leaves the first flight to the application
        addr = proto._transport.addr
        st["client_addr"][ci] = addr
        t0 = loop.time()
        if spec["blackout_at"] is not None:
            loop.net.blackout[addr] = t0 + spec["blackout_at"]
        if spec["server_close_at"] is not None:

            def server_close():
                for p in server_protos(ci):
                    if not p._closed.is_set():
                        p.close(error_code=0x17, reason_phrase="server says bye")

            loop.call_later(spec["server_close_at"], server_close)
        ops = [loop.create_task(run_op(ci, proto, op, k)) for k, op in enumerate(spec["ops"])]
        try:
            if spec["close_at"] is not None:
                await asyncio.wait(ops, timeout=spec["close_at"]) if spec["close_at"] > 0 else None
            else:
                await asyncio.wait(ops)
        finally:
            try:
                await tracked(rec, "c%d.close" % ci, cm.__aexit__(None, None, None))
            except ConnectionError:
                pass
            # operations still running see the connection terminate
            await asyncio.wait(ops, timeout=HORIZON)
            st["pending_ops_%d" % ci] = [k for k, t in enumerate(ops) if not t.done()]
            for t in ops:
                if not t.done():
                    t.cancel()
                elif not t.cancelled() and t.exception() is not None:
                    e = t.exception()
                    V("operation-raised-" + type(e).__name__, "client %d: an application operation raised %r" % (ci, e))

    async def main(loop):
        scfg = E.server_config(idle_timeout=IDLE)
        server = await serve("::", 4433, configuration=scfg, create_protocol=ServerProto, retry=case["retry"], stream_handler=handler)
        st["server"] = server
        if server._retry is not None:
            orig = server._retry.create_token

            def create_token(addr, odcid, rscid):
                tok = orig(addr, odcid, rscid)
                st["issued"].add((addr, bytes(tok)))
                return tok

            server._retry.create_token = create_token
            if case.get("forged_token"):
                # someone else runs the same software: a Retry token made by another QuicRetryTokenHandler (another key) for the sender's own address,
                # in a well-formed 1200-byte Initial (Initial keys are public).  The server never issued it: no connection state may appear.
                from aioquic.quic.retry import QuicRetryTokenHandler

                attacker = ("::ffff:203.0.113.77", 7777, 0, 0)
                odcid, rscid = bytes.fromhex("a1a2a3a4a5a6a7a8"), bytes.fromhex("b1b2b3b4b5b6b7b8")
                token = QuicRetryTokenHandler().create_token(attacker, odcid, rscid)
                ck, _ = R.initial_keys(R.V1, rscid)
                payload = R.encode_frames([{"name": "crypto", "offset": 0, "data": b"\x01\x00\x00\x04abcd"}])
                hdr0 = R.build_long_header(R.V1, R.PT_INITIAL, rscid, bytes(8), 0, 2, 1100, token=token, length_size=2)
                payload += bytes(1200 - 16 - len(hdr0) - len(payload))
                hdr = R.build_long_header(R.V1, R.PT_INITIAL, rscid, bytes(8), 0, 2, len(payload), token=token, length_size=2)
                pkt = R.protect(ck, hdr, 0, payload)
                loop.call_later(case["forged_token"], loop.net.deliver, attacker, (loop.SERVER_HOST, 4433, 0, 0), pkt)
        mon = loop.create_task(monitor())
        tasks = [loop.create_task(client_main(ci, spec, loop)) for ci, spec in enumerate(case["clients"])]
        done, pending = await asyncio.wait(tasks, timeout=HORIZON)
        st["clients_pending"] = len(pending)
        for t in done:
            if not t.cancelled() and t.exception() is not None:
                e = t.exception()
                V("client-raised-" + type(e).__name__, "a client coroutine raised %r" % (e,))
        # let server-side connections drain / idle out, then take the final sample
        await asyncio.sleep(IDLE * 3 + 5)
        check_routing(final=True)
        mon.cancel()
        st["live_at_end"] = sum(1 for p in st["protos"] if not p._closed.is_set())
        st["routing_entries_at_end"] = len(server._protocols)
        server.close()
        return True

    import sys

    starved = False
    saved_hook = sys.unraisablehook
    sys.unraisablehook = lambda *a: None  # StreamWriter.__del__ of receive-only streams complains at garbage collection
    with E.pinned(("c19", repr(sorted((k, repr(v)) for k, v in case.items())))):
        try:
            _, loop = vloop.run(main, fates=case["fates"], adv_end=case["adv_end"], lateness=case["lateness"])
        except vloop.Starved:
            starved = True
            loop = None
        except vloop.Spin:
            starved = "spin"
            loop = None
    # (the hook stays: coroutines of the scenario are collected later, after their loop was closed)
    # ------------------------------------------------------------------ verdicts
    if starved == "spin":
        raise RuntimeError("harness: the virtual loop ran %d iterations without getting anywhere (inconclusive)" % (50 * vloop.SPIN_LIMIT))
    elif starved:
        V("event-loop-starved", "nothing was ready or scheduled although the scenario had not finished")
    n_ops = sum(len(c["ops"]) for c in case["clients"])
    eventful = len(case["clients"]) > 1 or any(c["close_at"] is not None or c["blackout_at"] is not None or c["server_close_at"] is not None for c in case["clients"]) or any(f[0] != "deliver" for f in case["fates"])
    classes = ["scn:clients-%d" % len(case["clients"]), "scn:retry" if case["retry"] else "scn:no-retry"]
    if loop is not None:
        for msg, exc in loop.errors:
            if isinstance(exc, asyncio.InvalidStateError):
                V("waiter-completed-twice", "a callback raised %r (%s)" % (exc, msg))
            elif exc is not None:
                import traceback

                tb = traceback.extract_tb(exc.__traceback__)
                inner = [f for f in tb if "/aioquic/" in f.filename]
                where = inner[-1] if inner else None
                if where is not None and "/aioquic/asyncio/" in where.filename:
                    V("adapter-callback-raised-%s-in-%s" % (type(exc).__name__, where.name), "a callback of the asyncio adapter raised %r at %s:%d" % (exc, where.filename.split("/aioquic/")[-1], where.lineno))
                else:
                    classes.append("scn:loop-error-outside-adapter")
        classes += ["net:" + k for k in loop.net.log if k.startswith("fate:") and k != "fate:deliver"]
        if loop.busy_loops:
            classes.append("scn:overdue-timer-busy-loop-observed")
    for name, outcome in ([] if starved else rec.waits.items()):
        kind = name.split(".")[1].split("#")[0]
        if outcome is None:
            V("%s-waiter-never-finished" % kind, "%s was still pending %.0f virtual seconds after the scenario ended (idle timeout %.0f s)" % (name, HORIZON, IDLE))
        elif outcome not in ("ok", "ConnectionError"):
            V("%s-waiter-raised-unexpected-exception" % kind, "%s ended with %s" % (name, outcome))
        classes.append("wait:%s:%s" % (kind, "pending" if outcome is None else outcome.split(":")[0]))
    for note in rec.notes:
        V("waiter-finished-twice", repr(note))
    # streams
    # a datagram replayed from another address makes the server probe (and possibly move to) that address: completion is then C01's subject, not this check's
    spoofed = any(f[0].startswith("spoof") for f in case["fates"])
    for (ci, sid), tx in st["client_tx"].items():
        spec = case["clients"][ci]
        undisturbed = not spoofed and spec["close_at"] is None and spec["blackout_at"] is None and spec["server_close_at"] is None and st["client_term"].get(ci) is None
        protos = server_protos(ci)
        srv = None
        for p in protos:
            if (p, sid) in st["server_rx"]:
                srv = st["server_rx"][(p, sid)]
        if srv is not None:
            data, open_ = srv
            if not tx["data"].startswith(data):
                V("server-reader-returned-bytes-never-written", "client %d stream %d: the server's reader returned %d bytes that are not a prefix of the %d bytes written" % (ci, sid, len(data), len(tx["data"])))
            elif open_ and (data != tx["data"] or not tx["ended"]):
                V("server-reader-saw-eof-before-all-bytes", "client %d stream %d: EOF after %d of %d bytes on an open connection (writer ended: %s)" % (ci, sid, len(data), len(tx["data"]), tx["ended"]))
        elif undisturbed and tx["ended"] and not tx["uni"] and not st.get("pending_ops_%d" % ci):  # a client that only wrote closes right away, and close() does not flush
            V("stream-never-reached-the-server-handler", "client %d stream %d (%d bytes, ended) on an undisturbed connection" % (ci, sid, len(tx["data"])))
        rx = st["client_rx"].get((ci, sid))
        if rx is not None:
            got, open_ = rx
            want = tx["data"][::-1]
            if not want.startswith(got):
                V("client-reader-returned-bytes-never-written", "client %d stream %d: the reader returned %d bytes that are not a prefix of the %d bytes the server wrote" % (ci, sid, len(got), len(want)))
            elif open_ and got != want:
                V("client-reader-saw-eof-before-all-bytes", "client %d stream %d: EOF after %d of %d bytes on an open connection" % (ci, sid, len(got), len(want)))
            classes.append("stream:echo-complete" if got == want else "stream:echo-partial")
        elif undisturbed and tx["ended"] and not tx["uni"]:
            V("echo-never-completed-on-undisturbed-connection", "client %d stream %d: read() had not returned at the end of the scenario" % (ci, sid))
        if rx is not None and undisturbed and tx["ended"] and rx[0] != tx["data"][::-1]:
            V("echo-incomplete-on-undisturbed-connection", "client %d stream %d: the reader returned %d of %d bytes and EOF although nobody closed the connection, the network was fair after %.0f s and the idle timeout is %.0f s" % (ci, sid, len(rx[0]), len(tx["data"]), case["adv_end"], IDLE))
    for sig, text in st["violations"]:
        ctx.violation(sig, text, case)
    ctx.case(("scn", repr(case)), nontrivial=n_ops >= 2 and eventful, classes=classes)
    return st


def retry_spoof_strategy():
    """Retry exchanges in which the client's token-bearing Initial is also replayed from another address or port"""
    from hypothesis import strategies as st

    quick = st.sampled_from([0.001, 0.01])
    spoof = st.tuples(st.sampled_from(["spoof", "spoof-port"]), st.sampled_from([0.001, 0.01, 0.1]), st.sampled_from([0.001, 0.02, 0.15])).map(list)
    head = st.tuples(quick, quick, spoof).map(lambda t: [["deliver", t[0], 0.001], ["deliver", t[1], 0.001], t[2]])
    return st.tuples(case_strategy(), head, st.sampled_from([None, 0.05, 0.3])).map(lambda t: dict(t[0], retry=True, forged_token=t[2], clients=[dict(t[0]["clients"][0], start=0)], fates=t[1] + t[0]["fates"][:20]))


def scenarios_task(ctx, examples, shard, directed=None):
    from vlib.harness import run_hypothesis

    def body(ctx, case):
        scenario(ctx, case)
        if ctx.want_sample():
            ctx.sample({"retry": case["retry"], "clients": [{k: (v if k != "ops" else [dict(o, chunks=o.get("chunks", [])[:3]) if o["op"] == "stream" else o for o in v[:4]]) for k, v in c.items()} for c in case["clients"]], "fates": case["fates"][:6], "lateness": case["lateness"]})

    run_hypothesis(ctx, body, retry_spoof_strategy() if directed == "retry-spoof" else case_strategy(), examples, shard=shard)


def replay(ctx, case):
    scenario(ctx, case)


def plan(tier, seed):
    q = tier == "quick"
    t = [("scenarios-%d" % s, {"examples": 60 if q else 6000, "shard": s}) for s in range(12 if q else 16)]
    t.append(("retry-spoof-0", {"examples": 40 if q else 3000, "shard": 0, "directed": "retry-spoof"}))
    return t


def run_task(ctx, name, examples, shard, directed=None):
    scenarios_task(ctx, examples, shard, directed)
