"""C05 - network input can never make the QUIC/TLS API raise.

States reached by real handshakes; inputs: random and mutated / re-coalesced
datagrams (G1, G2), frames from a key-holding peer (G3: mostly-valid stateful
generator deviating in a few respects at a time), TLS handshake messages from a
key-holding TLS peer (G4, vlib/tlspeer.py).  Oracle: receive_datagram returns
normally and next_event / datagrams_to_send / get_timer / handle_timer keep
returning normally until ConnectionTerminated is reported.
"""
import collections

PROPERTY = "C05"
LEVEL = "exploration"
RULE = (
    "one evaluation = one generated case: a connection state (fresh server, client after connect, after each handshake flight, connected with "
    "streams, after key update / CID change, closing) and a sequence of inputs - G1 arbitrary datagrams, G2 genuine datagrams of recorded flights "
    "mutated (bit flips, truncation, extension, field edits, re-coalescing incl. 'undecryptable Initial then short header'), G3 packets built by a "
    "key-holding peer with frames of every type 0x00-0x1e, 0x30/0x31, unknown and non-minimal types, boundary field values (0, 1, limit+-1, 2^60, "
    "2^62-1), truncations, repetitions, bursts of up to 700 packets with stride-2 numbers, NEW_CONNECTION_ID / RETIRE histories, ACKs of "
    "never-sent numbers, G4 distorted TLS messages in CRYPTO frames - interleaved with timer firings, acknowledgements and application calls. "
    "After every input the five public calls are exercised until the connection reports termination. Non-trivial = at least one input was "
    "decryptable by the receiver (G3/G4) or changed its state, or (G1/G2) passed header parsing; distinct by the case."
)
ASSUMPTIONS = [
    "the caller follows the Sans-IO convention: handle_timer only when a timer is set and at or after it; server connections are created the way QuicServer creates them (first datagram is a >= 1200 byte Initial for the G3/G4 states; the 'fresh server' state receives anything)",
    "exceptions are bucketed by (type, innermost aioquic function)",
    "third-party code (cryptography, OpenSSL) is environment: only exceptions that escape the public calls count",
]

V62 = (1 << 62) - 1
IDS = [0, 1, 2, 3, 4, 5, 6, 7, 8, 9, 12, 16, 4 * 127, 4 * 128, 4 * 128 + 1, 4 * 128 + 2, 4 * 129 + 3, V62, V62 - 3, V62 - 1]
OFFS = [0, 0, 1, 5, 100, 1000, 4096, 65536, 1 << 20, (1 << 20) + 1, 1 << 40, V62 - 10, V62 - 1, V62]
VALS = [0, 1, 2, 100, 4096, 65536, 1 << 20, (1 << 60) - 1, 1 << 60, (1 << 60) + 1, V62]


def frame_strategy(benign=False):
    """benign: values a well-behaved peer could send, so that the connection survives several packets and the later frames of a case meet a
    live connection; direction and state errors (a frame for a stream that cannot carry it) are still generated"""
    from hypothesis import strategies as st

    if benign:
        sid = st.sampled_from([0, 4, 8, 1, 5, 2, 6, 3, 7, 12, 16])
        off = st.sampled_from([0, 0, 1, 5, 100, 1000])
        val = st.sampled_from([100, 4096, 65536, 1 << 20, 1 << 30])
        code = st.sampled_from([0, 1, 7, 0x10E])
        dlen = st.sampled_from([0, 1, 5, 100, 1100])
        cid = st.binary(min_size=8, max_size=8)
        seq = st.integers(0, 8)
    else:
        sid = st.one_of(st.sampled_from(IDS), st.sampled_from([0, 0, 4, 1, 2, 3]))
        off = st.sampled_from(OFFS)
        val = st.sampled_from(VALS)
        code = st.sampled_from([0, 1, 7, 0x10E, V62])
        dlen = st.sampled_from([0, 0, 1, 5, 100, 1100])
        cid = st.one_of(st.binary(min_size=8, max_size=8), st.binary(min_size=1, max_size=20), st.sampled_from([b"", bytes(21), bytes(255)]))
        seq = st.one_of(st.integers(0, 12), st.sampled_from([0, 1, 2, 8, 9, 100, 1 << 20, V62]))
    ack_ranges = st.lists(st.tuples(st.integers(0, 40), st.integers(0, 6)), min_size=1, max_size=6)
    fr = st.one_of(
        st.fixed_dictionaries({"name": st.just("stream"), "stream_id": sid, "offset": off, "n": dlen, "fin": st.booleans(), "has_len": st.booleans()}),
        st.fixed_dictionaries({"name": st.just("stream"), "stream_id": st.sampled_from([0, 4, 1, 2, 3]), "offset": st.sampled_from([0, 0, 5, 100]), "n": dlen, "fin": st.booleans(), "has_len": st.just(True)}),
        st.fixed_dictionaries({"name": st.just("reset_stream"), "stream_id": sid, "error_code": code, "final_size": off}),
        st.fixed_dictionaries({"name": st.just("stop_sending"), "stream_id": sid, "error_code": code}),
        st.fixed_dictionaries({"name": st.just("crypto"), "offset": off, "n": st.sampled_from([0, 1, 4, 100, 1000])}),
        st.fixed_dictionaries({"name": st.just("crypto_tls"), "offset": st.sampled_from([0, 0, 1]), "kind": st.sampled_from(["nst", "nst_bad", "key_update", "finished", "client_hello", "garbage", "huge_len", "cert_req"])}),
        st.fixed_dictionaries({"name": st.just("new_token"), "n": st.sampled_from([0, 1, 16, 500])}),
        st.fixed_dictionaries({"name": st.sampled_from(["max_data", "data_blocked", "max_streams_bidi", "max_streams_uni", "streams_blocked_bidi", "streams_blocked_uni"]), "maximum": val}),
        st.fixed_dictionaries({"name": st.sampled_from(["max_stream_data", "stream_data_blocked"]), "stream_id": sid, "maximum": val}),
        st.fixed_dictionaries({"name": st.just("new_connection_id"), "seq": seq, "rpt": st.sampled_from(["0", "seq", "seq", "seq-1", "seq-2", "8", "9", "seq+1"]), "cid": cid, "token": st.binary(min_size=16, max_size=16)}),
        st.fixed_dictionaries({"name": st.just("new_connection_id"), "seq": st.integers(7, 12), "rpt": st.sampled_from(["0", "seq", "seq", "seq-1", "8", "9"]), "cid": st.binary(min_size=8, max_size=8), "token": st.binary(min_size=16, max_size=16)}),
        st.fixed_dictionaries({"name": st.just("retire_connection_id"), "seq": seq}),
        st.fixed_dictionaries({"name": st.sampled_from(["path_challenge", "path_response"]), "data": st.binary(min_size=8, max_size=8)}),
        st.fixed_dictionaries({"name": st.just("path_response_echo")}),
        st.fixed_dictionaries({"name": st.sampled_from(["connection_close", "application_close"]), "error_code": code, "frame_type": st.sampled_from([0, 6, 0x1C, V62]), "n": st.sampled_from([0, 3, 300]), "utf8": st.booleans()}),
        st.fixed_dictionaries({"name": st.sampled_from(["ping", "ping", "handshake_done", "padding"])}),
        st.fixed_dictionaries({"name": st.just("datagram"), "n": dlen, "has_len": st.booleans()}),
        st.fixed_dictionaries({"name": st.just("ack"), "base": st.sampled_from(["sent", "sent", "sent", "beyond", "zero", "huge"]), "ranges": ack_ranges, "delay": st.sampled_from([0, 1, 1000, V62]), "ecn": st.booleans()}),
        st.fixed_dictionaries({"name": st.just("raw"), "data": st.one_of(st.binary(min_size=1, max_size=12), st.sampled_from([b"\x1f", b"\x20", b"\x21", b"\x40\x01", b"\x40\x06\x00\x00", b"\x80\x00\x00\x1c\x00\x00\x00", b"\xc0\x00\x00\x00\x00\x00\x00\x08\x00\x00", b"\x3f", b"\x7f\xff", b"\xff" * 8, b"\x02", b"\x02\x05", b"\x02\x05\x00\xff", b"\x06\x00\x40", b"\x08", b"\x0a\x00\x3f", b"\x18\x01\x00\x00", b"\x18\x01\x00\x15" + bytes(21 + 16), b"\x1c\x00\x00\x41", b"\x30"]))}),
    )
    if benign:
        lethal = lambda f: (
            f["name"] in ("raw", "connection_close", "application_close", "crypto", "path_response")
            or (f["name"] == "crypto_tls" and f["kind"] not in ("nst",))
            or (f["name"] == "ack" and (f["base"] != "sent" or f["delay"] > 1000))
            or (f["name"] == "new_connection_id" and f["rpt"] not in ("0", "seq-1", "seq-2"))
        )
        fr = fr.filter(lambda f: not lethal(f))
    trunc = st.tuples(fr, st.one_of(st.none(), st.none(), st.none(), st.integers(1, 12)))
    return trunc


def ops_strategy(role):
    from hypothesis import strategies as st

    fr = frame_strategy()
    bn = frame_strategy(benign=True).map(lambda t: (t[0], None))
    pkt = st.tuples(st.just("pkt"), st.one_of(st.lists(fr, min_size=1, max_size=3), st.lists(bn, min_size=1, max_size=3)), st.sampled_from([None, None, None, 1, 3, 1000]))
    burst = st.tuples(st.just("burst"), st.sampled_from([2, 2, 3]), st.sampled_from([5, 40, 300, 700]))
    app = st.tuples(
        st.just("app"),
        st.sampled_from(["write", "write", "write_fin", "fin_only", "reset", "ping", "key_update", "change_cid", "close", "dgram", "write_big"]),
        st.integers(0, 3),
    )
    simple = st.sampled_from([("timer",), ("timer",), ("ack",), ("ack",), ("keyupdate",), ("lossy_ack",), ("lossy_ack", "write", "fin_only"), ("lossy_ack", "write_fin"), ("lossy_ack", "write", "reset"), ("lossy_ack", "change_cid"), ("lossy_ack", "ping", "dgram"), ("src", 1), ("src", 0), ("dcid", 1), ("dcid", 3), ("dcid", 7), ("dup",), ("replay_old",)] + [("bad_pkt", ph, w) for ph in (0, 1) for w in ("tag", "payload", "pn", "first")])
    rawd = st.tuples(st.just("raw_dgram"), st.one_of(st.binary(max_size=40), st.sampled_from([b"", b"\x00", b"\x40", b"\xc0\x00\x00\x00\x01", b"\x80\x00\x00\x00\x00\x08" + bytes(8) + b"\x00" + b"\x00\x00\x00\x01"])))
    return st.lists(st.one_of(pkt, pkt, pkt, pkt, burst, app, simple, simple, rawd), min_size=1, max_size=14)


# ------------------------------------------------------------------------------------------------


class Driver:
    """Applies ops to a Takeover and exercises the public calls after each."""

    def __init__(self, ctx, tk, case):
        self.ctx = ctx
        self.tk = tk
        self.case = case
        self.nontrivial = False
        self.dead = False
        self.last_dgram = None
        self.first_dgram = None
        self.challenges = []
        self.cls = set()

    def guard(self, what, fn, *a, **k):
        from vlib.harness import exc_signature, Violation

        try:
            return fn(*a, **k)
        except Violation:
            raise
        except Exception as e:
            self.dead = True
            self.ctx.violation("api-raised-" + exc_signature(e), "%s raised %r (SUT is the %s, t=%.4f)" % (what, e, self.tk.sut_role, self.tk.now), self.case)
            return None

    def exercise(self):
        """next_event / datagrams_to_send / get_timer after an input"""
        tk = self.tk
        if self.dead:
            return
        before = len(tk.events)
        self.guard("next_event", tk.drain_events)
        if self.dead:
            return
        pk = self.guard("datagrams_to_send", tk.collect)
        if self.dead:
            return
        for v in pk or []:
            for f in v.frames or []:
                if f["name"] == "path_challenge":
                    self.challenges.append(bytes(f["data"]))
        self.guard("get_timer", tk.sut.get_timer)
        if tk.terminated is not None:
            self.dead = True
        if len(tk.events) > before or pk:
            self.nontrivial = True

    def encode(self, spec, trunc):
        from vlib import refquic as R

        tk = self.tk
        n = spec["name"]
        f = None
        if n == "stream":
            k = spec["n"]
            f = R.encode_frame({"name": "stream", "stream_id": spec["stream_id"], "offset": spec["offset"], "data": bytes(k), "fin": spec["fin"], "has_len": spec["has_len"], "has_off": True})
        elif n == "crypto":
            f = R.encode_frame({"name": "crypto", "offset": spec["offset"], "data": bytes(spec["n"])})
        elif n == "crypto_tls":
            f = R.encode_frame({"name": "crypto", "offset": spec["offset"], "data": tls_blob(spec["kind"])})
        elif n == "new_token":
            f = b"\x07" + R.enc_varint(spec["n"]) + bytes(spec["n"])
        elif n == "new_connection_id":
            seq = spec["seq"]
            rpt = {"0": 0, "seq": seq, "seq-1": max(0, seq - 1), "seq-2": max(0, seq - 2), "8": 8, "9": 9, "seq+1": min(V62, seq + 1)}[spec["rpt"]]
            if spec["rpt"] in ("8", "9") and rpt > seq:
                rpt = seq
            cid = spec["cid"]
            f = b"\x18" + R.enc_varint(seq) + R.enc_varint(rpt) + bytes([len(cid) & 0xFF]) + cid + spec["token"]
        elif n in ("connection_close", "application_close"):
            reason = ("r" * spec["n"]).encode() if spec["utf8"] else b"\xff\xfe" * (spec["n"] // 2)
            d = {"name": n, "error_code": spec["error_code"], "reason": reason}
            if n == "connection_close":
                d["frame_type"] = spec["frame_type"]
            f = R.encode_frame(d)
        elif n == "datagram":
            f = R.encode_frame({"name": "datagram", "data": bytes(spec["n"]), "has_len": spec["has_len"]})
        elif n == "ack":
            sent = sorted({v.pn for v in tk.sut_packets if v.space == "app" and v.pn is not None} | set(range(0, tk.wire.largest[(tk.X, "app")] + 1)))
            top = (sent[-1] if sent else 0) if spec["base"] == "sent" else ((sent[-1] if sent else 0) + 1000 if spec["base"] == "beyond" else (0 if spec["base"] == "zero" else V62))
            ranges = []
            hi = top
            for gap, ln in spec["ranges"]:
                lo = max(0, hi - ln)
                ranges.append((lo, hi))
                hi = lo - gap - 2
                if hi < 0:
                    break
            f = R.encode_frame(dict(R.ack_frame_from_ranges(ranges, spec["delay"], (1, 2, 3) if spec["ecn"] else None)))
        elif n == "raw":
            f = bytes(spec["data"])
        elif n == "path_response_echo":
            data = self.challenges[-1] if self.challenges else bytes(8)
            f = R.encode_frame({"name": "path_response", "data": data})
        elif n == "padding":
            f = bytes(3)
        else:
            f = R.encode_frame({k: v for k, v in spec.items()})
        if trunc is not None:
            f = f[: max(1, len(f) - trunc)] if len(f) > 1 else f
        return f

    def apply(self, op):
        from vlib import endpoints as E

        tk = self.tk
        kind = op[0]
        self.cls.add("op:" + kind)
        if kind == "pkt":
            payload = b"".join(self.encode(spec, tr) for spec, tr in op[1])
            for spec, tr in op[1]:
                self.cls.add("frame:" + spec["name"] + (":truncated" if tr else ""))
            kw = {}
            if op[2] is not None:
                kw["pn"] = tk.pn + op[2]
            pkt, pn = tk.build_packet(payload[:1300], **kw)
            self.last_dgram = pkt
            if self.first_dgram is None:
                self.first_dgram = pkt
            self.guard("receive_datagram", tk.deliver, pkt, self.src())
        elif kind == "burst":
            _, stride, n = op
            for i in range(n):
                if self.dead:
                    break
                pkt, pn = tk.build_packet(b"\x01", pn=tk.pn + stride - 1)
                self.guard("receive_datagram", tk.deliver, pkt, self.src())
                if i % 50 == 49:
                    self.exercise()
        elif kind == "timer":
            t = self.guard("get_timer", tk.sut.get_timer)
            if t is not None and not self.dead:
                tk.now = max(tk.now, t)
                self.guard("handle_timer", tk.sut.handle_timer, now=tk.now)
        elif kind == "ack":
            self.guard("receive_datagram(ack)", tk.ack)
        elif kind == "lossy_ack":
            # the peer acknowledges only what the SUT sends from now on: whatever it sent before and is still unacknowledged gets declared lost
            # (packet threshold now, time threshold at the next timer)
            for what in op[1:]:
                # ... first the application does something whose frames will be among the lost ones
                self.app(what, 1)
                self.exercise()
            before = {v.pn for v in tk.sut_packets if v.space == "app" and v.pn is not None}
            for _ in range(4):
                if self.dead:
                    break
                pkt, pn = tk.build_packet(b"\x01")
                self.guard("receive_datagram", tk.deliver, pkt, self.src())
                self.exercise()
            later = [v.pn for v in tk.sut_packets if v.space == "app" and v.pn is not None and v.pn not in before]
            if later and not self.dead:
                self.guard("receive_datagram(ack)", tk.ack, later)
        elif kind == "keyupdate":
            tk.key_gen += 1
        elif kind == "src":
            self._src = op[1]
        elif kind == "dcid":
            if op[1] in tk.sut_cids:
                tk.dcid = tk.sut_cids[op[1]]
        elif kind == "dup":
            if self.last_dgram is not None:
                self.guard("receive_datagram(dup)", tk.deliver, self.last_dgram, self.src())
        elif kind == "replay_old":
            if self.first_dgram is not None:
                self.guard("receive_datagram(replay)", tk.deliver, self.first_dgram, self.src())
        elif kind == "raw_dgram":
            self.guard("receive_datagram(raw)", tk.deliver, bytes(op[1]), self.src())
        elif kind == "bad_pkt":
            # a well-addressed short-header packet that does not authenticate: either key-phase bit, damaged in the tag, the payload or the (protected)
            # packet number / first byte - what line noise or an off-path sender produces at any moment, also in the middle of a key update
            _, phase, where = op
            pkt, pn = tk.build_packet(b"\x01" + bytes(20), pn=tk.pn + 1, key_phase=phase)
            b = bytearray(pkt)
            b[{"tag": -1, "payload": len(b) // 2, "pn": 1 + len(tk.dcid), "first": 0}[where]] ^= 0x04 if where == "first" else 0x55
            self.guard("receive_datagram(unauthentic)", tk.deliver, bytes(b), self.src())
        elif kind == "app":
            self.app(op[1], op[2])
        self.exercise()

    def src(self):
        from vlib import endpoints as E

        if getattr(self, "_src", 0) and self.tk.sut_role == "server":
            return ("9.9.9.9", 99)
        return self.tk.peer_addr

    def app(self, what, k):
        """application calls on the SUT (documented API use only)"""
        sut = self.tk.sut
        st = getattr(self, "_streams", None)
        if st is None:
            st = self._streams = {"ids": [], "fin": set()}
        try:
            if what == "fin_only":
                # the stream ends with an empty write: a STREAM frame that carries the FIN bit and nothing else
                if st["ids"]:
                    sid = st["ids"][k % len(st["ids"])]
                    if sid not in st["fin"]:
                        sut.send_stream_data(sid, b"", end_stream=True)
                        st["fin"].add(sid)
            elif what in ("write", "write_fin", "write_big"):
                if not st["ids"] or k == 0:
                    st["ids"].append(sut.get_next_available_stream_id(is_unidirectional=bool(k & 1)))
                sid = st["ids"][k % len(st["ids"])]
                if sid in st["fin"]:
                    return
                sut.send_stream_data(sid, bytes(100000 if what == "write_big" else 100), end_stream=(what == "write_fin"))
                if what == "write_fin":
                    st["fin"].add(sid)
            elif what == "reset":
                if st["ids"]:
                    sid = st["ids"][k % len(st["ids"])]
                    sut.reset_stream(sid, 3)
                    st["fin"].add(sid)
            elif what == "ping":
                sut.send_ping(k)
            elif what == "key_update":
                sut.request_key_update()
            elif what == "change_cid":
                sut.change_connection_id()
            elif what == "close":
                sut.close(error_code=k, reason_phrase="bye")
            elif what == "dgram":
                if sut.configuration.max_datagram_frame_size:
                    sut.send_datagram_frame(bytes(10))
        except AssertionError:
            # writing on a stream the peer has stopped / after close: caller-contract violations are not network input
            self.cls.add("app-call-refused")
        except ValueError:
            self.cls.add("app-call-refused")

    def finish(self):
        """keep firing timers until the connection reports termination (bounded)"""
        tk = self.tk
        for _ in range(40):
            if self.dead or tk.terminated is not None:
                break
            t = self.guard("get_timer", tk.sut.get_timer)
            if t is None:
                break
            tk.now = max(tk.now, t)
            self.guard("handle_timer", tk.sut.handle_timer, now=tk.now)
            self.exercise()


_TLS = {}


def tls_blob(kind):
    """a few TLS handshake messages for post-handshake CRYPTO frames"""
    if not _TLS:
        from vlib import reftls as L

        nst = L.encode_message({"type": 4, "ticket_lifetime": 3600, "ticket_age_add": 1, "ticket_nonce": b"\x00", "ticket": b"t" * 32, "extensions": [(42, L.build_early_data(0xFFFFFFFF))]})
        _TLS["nst"] = nst
        _TLS["nst_bad"] = L.encode_message({"type": 4, "ticket_lifetime": 3600, "ticket_age_add": 1, "ticket_nonce": b"", "ticket": b"t", "extensions": [(42, L.build_early_data(17))]})
        _TLS["key_update"] = bytes([24, 0, 0, 1, 0])
        _TLS["finished"] = L.encode_message({"type": 20, "verify_data": bytes(32)})
        _TLS["client_hello"] = bytes([1, 0, 0, 2, 3, 3])
        _TLS["garbage"] = bytes(range(40))
        _TLS["huge_len"] = bytes([4, 0xFF, 0xFF, 0xFF]) + bytes(50)
        _TLS["cert_req"] = L.encode_message({"type": 13, "request_context": b"", "extensions": [(13, L.build_signature_algorithms([0x0807]))]})
    return _TLS[kind]


def warmup(kind):
    def script(client, server, pump):
        if kind == "streams":
            sid = client.get_next_available_stream_id()
            client.send_stream_data(sid, b"x" * 3000, end_stream=False)
            s2 = server.get_next_available_stream_id(is_unidirectional=True)
            server.send_stream_data(s2, b"y" * 100, end_stream=True)
            pump()
        elif kind == "finished":
            # streams that are finished in both directions (their state is discarded): later frames for them must be ignored
            sid = client.get_next_available_stream_id()
            client.send_stream_data(sid, b"req", end_stream=True)
            u = client.get_next_available_stream_id(is_unidirectional=True)
            client.send_stream_data(u, b"uni", end_stream=True)
            pump()
            server.send_stream_data(sid, b"resp", end_stream=True)
            s2 = server.get_next_available_stream_id(is_unidirectional=True)
            server.send_stream_data(s2, b"uni", end_stream=True)
            pump()
            pump()
        elif kind == "keyupdate":
            client.request_key_update()
            client.send_ping(1)
            pump()
            server.send_ping(2)
            pump()
        elif kind == "cid":
            client.change_connection_id()
            client.send_ping(1)
            pump()

    return script if kind != "plain" else None


def frames_case(ctx, case):
    from vlib import endpoints as E
    from vlib.takeover import Takeover

    with E.pinned(("c05", case["role"], case["warmup"], case.get("small"))):
        kw = {"max_datagram_frame_size": 65536}
        if case.get("small"):
            kw.update(max_data=5000, max_stream_data=2000)
        tk = Takeover(case["role"], client_kw=dict(kw), server_kw=dict(kw), script=warmup(case["warmup"]))
        d = Driver(ctx, tk, case)
        for op in case["ops"]:
            if d.dead:
                break
            d.apply(op)
        d.finish()
        out = "terminated" if tk.terminated is not None else "alive"
        code = getattr(tk.terminated, "error_code", None)
        ctx.case(("frames", repr(case)), nontrivial=d.nontrivial, classes=sorted(d.cls) + ["g3:" + case["role"], "g3:" + case["warmup"], "g3:" + out + ("" if code is None else ":0x%x" % code)])
        return d


def frames_strategy():
    from hypothesis import strategies as st

    return st.fixed_dictionaries(
        {
            "kind": st.just("frames"),
            "role": st.sampled_from(["server", "client"]),
            "warmup": st.sampled_from(["plain", "streams", "streams", "finished", "finished", "keyupdate", "cid"]),
            "small": st.booleans(),
        }
    ).flatmap(lambda d: ops_strategy(d["role"]).map(lambda ops: dict(d, ops=ops)))


def frames_task(ctx, examples, shard):
    from vlib.harness import run_hypothesis

    strat = frames_strategy()

    def body(ctx, case):
        frames_case(ctx, case)
        if ctx.want_sample():
            ctx.sample({"role": case["role"], "warmup": case["warmup"], "ops": case["ops"][:5]})

    run_hypothesis(ctx, body, strat, examples, shard=shard)


# ------------------------------------------------------------------------------------------------ frames in the Initial / 0-RTT / Handshake epochs


def epoch_strategy():
    from hypothesis import strategies as st

    fr = frame_strategy()
    pkt = st.lists(fr, min_size=1, max_size=3)
    return st.fixed_dictionaries(
        {
            "kind": st.just("epochs"), "where": st.sampled_from(["zrtt-server", "zrtt-server", "initial-server", "handshake-server", "initial-client", "handshake-client"]),
            "packets": st.lists(pkt, min_size=1, max_size=5), "early_data": st.sampled_from([0, 5, 2000]), "then_finish": st.booleans(),
        }
    )


class _Enc(Driver):
    """frame encoder of the Driver without a takeover behind it"""

    def __init__(self):
        import types

        self.tk = types.SimpleNamespace(sut_packets=[], wire=types.SimpleNamespace(largest=collections.defaultdict(lambda: -1)), X="s")
        self.challenges = []


def epochs_case(ctx, case):
    """frames of every type, from a peer holding the keys of that epoch, in Initial, 0-RTT and Handshake packets"""
    import io

    from aioquic.quic.connection import QuicConnection
    from vlib import endpoints as E, refquic as R, tlspeer as P
    from vlib.harness import exc_signature

    enc = _Enc()
    where = case["where"]
    state = {"dead": False, "progress": False}

    def guard(what, fn, *a, **k):
        if state["dead"]:
            return None
        try:
            return fn(*a, **k)
        except Exception as e:  # noqa
            state["dead"] = True
            ctx.violation("api-raised-" + exc_signature(e), "%s raised %r while a key-holding peer sent frames in the %s epoch" % (what, e, where), case)
            return None

    def settle(conn, now):
        for _ in range(3):
            while not state["dead"]:
                e = guard("next_event", conn.next_event)
                if e is None:
                    break
                state["progress"] = True
                if type(e).__name__ == "ConnectionTerminated":
                    state["terminated"] = True
            guard("datagrams_to_send", conn.datagrams_to_send, now)
            guard("get_timer", conn.get_timer)

    def run_timers(conn, now):
        for _ in range(30):
            if state["dead"] or state.get("terminated"):
                break
            t = guard("get_timer", conn.get_timer)
            if t is None:
                break
            now = max(now, t)
            guard("handle_timer", conn.handle_timer, now)
            settle(conn, now)

    payloads = [b"".join(enc.encode(spec, tr) for spec, tr in pkt) for pkt in case["packets"]]
    with E.pinned(("c05-epochs", where)):
        if where == "zrtt-server":
            store = {}
            got = []
            kw = dict(max_datagram_frame_size=65536)
            c0 = QuicConnection(configuration=E.client_config(**kw), session_ticket_handler=got.append)
            c0.connect(E.SERVER_ADDR, now=0.0)
            s0 = QuicConnection(configuration=E.server_config(**kw), original_destination_connection_id=c0.original_destination_connection_id, session_ticket_fetcher=lambda k: store.pop(k, None), session_ticket_handler=lambda t: store.__setitem__(t.ticket, t))
            now = 0.0
            for _ in range(6):
                now += 0.001
                E.transfer(c0, s0, now, E.CLIENT_ADDR)
                now += 0.001
                E.transfer(s0, c0, now, E.SERVER_ADDR)
            if not got:
                raise RuntimeError("harness: no session ticket")
            keylog = io.StringIO()
            ccfg = E.client_config(secrets_log_file=keylog, **kw)
            ccfg.session_ticket = got[0]
            client = QuicConnection(configuration=ccfg)
            client.connect(E.SERVER_ADDR, now=now)
            if case["early_data"]:
                client.send_stream_data(0, bytes(case["early_data"]), end_stream=False)
            server = QuicConnection(configuration=E.server_config(**kw), original_destination_connection_id=client.original_destination_connection_id, session_ticket_fetcher=lambda k: store.pop(k, None), session_ticket_handler=lambda t: store.__setitem__(t.ticket, t))
            first = client.datagrams_to_send(now=now)
            info = R.split_datagram(first[0][0], 8)[0]
            for d, _ in first:
                now += 0.001
                guard("receive_datagram", server.receive_datagram, d, E.CLIENT_ADDR, now)
            settle(server, now)
            secrets = R.parse_keylog(keylog.getvalue())
            early = [v for (label, _), v in secrets.items() if label == "CLIENT_EARLY_TRAFFIC_SECRET"]
            if not early:
                ctx.case(("epochs", repr(case)), nontrivial=False, classes=["epochs:" + where, "epochs:no-early-secret"])
                return
            cs = int(client.tls.key_schedule.cipher_suite) if client.tls.key_schedule is not None else int(client.tls._key_schedule_psk.cipher_suite)
            keys = R.derive_keys(P.SUITE[cs], R.V1, early[0])
            pn = 20
            for payload in payloads:
                if len(payload) < 4:
                    payload = payload + bytes(4 - len(payload))
                hdr = R.build_long_header(R.V1, R.PT_ZERO_RTT, info.dcid, info.scid, pn, 2, len(payload), length_size=2)
                now += 0.001
                guard("receive_datagram", server.receive_datagram, R.protect(keys, hdr, pn, payload, strict=False), E.CLIENT_ADDR, now)
                pn += 1
                settle(server, now)
            if case["then_finish"] and not state["dead"]:
                for _ in range(4):
                    now += 0.001
                    for d, _ in guard("datagrams_to_send", server.datagrams_to_send, now) or []:
                        client.receive_datagram(d, E.SERVER_ADDR, now)
                    now += 0.001
                    for d, _ in client.datagrams_to_send(now):
                        guard("receive_datagram", server.receive_datagram, d, E.CLIENT_ADDR, now)
                    settle(server, now)
            run_timers(server, now)
            sut = server
        else:
            sut_is_server = where.endswith("server")
            space = where.split("-")[0]
            if sut_is_server:
                peer = P.ClientPeer()
                ch = peer.ref.client_hello()
                if space == "initial":
                    # frames before, with and after the ClientHello in Initial packets
                    guard("receive_datagram", peer.send_crypto, "initial", ch, pad_to=1200, extra_frames=[])
                else:
                    guard("receive_datagram", peer.send_crypto, "initial", ch, pad_to=1200)
                    guard("pump", peer.pump_sut)
                    sh, hs = peer.server_flight()
                    try:
                        peer.ref.receive_server_flight(sh)
                        peer.after_server_hello()
                        peer.reopen()
                    except Exception:  # noqa - reference side could not follow: nothing to send in the handshake space
                        ctx.case(("epochs", repr(case)), nontrivial=False, classes=["epochs:" + where, "epochs:no-handshake-keys"])
                        return
            else:
                peer = P.ServerPeer()
                peer.ref.receive_client_hello(peer.client_hello)
                sh = peer.ref.server_hello()
                peer.after_server_hello()
                if space == "handshake":
                    guard("receive_datagram", peer.send_crypto, "initial", sh, pad_to=1200, extra_frames=[{"name": "ack", "acked": [(0, 0)], "delay": 0}])
            guard("pump", peer.pump_sut)
            for payload in payloads:
                if len(payload) < 4:
                    payload = payload + bytes(4 - len(payload))
                try:
                    dg = peer.packet(space, payload, pad_to=1200 if (space == "initial") else 0)
                except Exception:  # noqa - reference-side builder refused (oversized)
                    continue
                guard("receive_datagram", peer.deliver, dg)
                n = len(peer.events)
                guard("pump", peer.pump_sut)
                if len(peer.events) > n:
                    state["progress"] = True
                if peer.terminated is not None:
                    state["terminated"] = True
            sut = peer.sut
            run_timers(sut, peer.now + 0.001)
    ctx.case(("epochs", repr(case)), nontrivial=True, classes=["epochs:" + where, "epochs:" + ("terminated" if state.get("terminated") else "alive")] + ["epochs:frame-" + spec["name"] for pkt in case["packets"] for spec, _ in pkt][:6])


def epochs_task(ctx, examples, shard):
    from vlib.harness import run_hypothesis

    def body(ctx, case):
        epochs_case(ctx, case)
        if ctx.want_sample():
            ctx.sample({"where": case["where"], "packets": [[spec["name"] for spec, _ in pkt] for pkt in case["packets"]]})

    run_hypothesis(ctx, body, epoch_strategy(), examples, shard=shard)


# ------------------------------------------------------------------------------------------------ G1 / G2


def record_flights(seed):
    """Run a lossless handshake + small transfer, recording every datagram; returns list of (sender, bytes)."""
    from vlib import endpoints as E
    from aioquic.quic.connection import QuicConnection

    out = []
    ccfg = E.client_config()
    scfg = E.server_config()
    c = QuicConnection(configuration=ccfg)
    c.connect(E.SERVER_ADDR, now=0.0)
    s = QuicConnection(configuration=scfg, original_destination_connection_id=c.original_destination_connection_id)
    now = 0.0
    for r in range(8):
        now += 0.001
        for d, _ in c.datagrams_to_send(now):
            out.append(("c", d))
            s.receive_datagram(d, E.CLIENT_ADDR, now)
        if r == 3:
            sid = c.get_next_available_stream_id()
            c.send_stream_data(sid, b"hello" * 100, end_stream=True)
        now += 0.001
        for d, _ in s.datagrams_to_send(now):
            out.append(("s", d))
            c.receive_datagram(d, E.SERVER_ADDR, now)
    return out


def make_state(state):
    """-> (sut, role, now, genuine datagrams for the SUT not yet delivered, flights)"""
    from vlib import endpoints as E
    from aioquic.quic.connection import QuicConnection

    flights = record_flights(0)
    ccfg = E.client_config()
    scfg = E.server_config()
    c = QuicConnection(configuration=ccfg)
    now = 0.0
    if state == "fresh-server":
        s = QuicConnection(configuration=scfg, original_destination_connection_id=bytes(8))
        return s, "server", now, [], flights
    c.connect(E.SERVER_ADDR, now=now)
    s = QuicConnection(configuration=scfg, original_destination_connection_id=c.original_destination_connection_id)
    if state == "client-connecting":
        c.datagrams_to_send(now)
        return c, "client", now, [], flights
    steps = {"server-after-initial": 1, "client-after-server-flight": 2, "server-after-client-finished": 3, "connected-server": 8, "connected-client": 8, "closing-server": 8, "closing-client": 8}[state]
    pending = {"c": [], "s": []}
    for r in range(steps):
        now += 0.001
        if r % 2 == 0:
            for d, _ in c.datagrams_to_send(now):
                s.receive_datagram(d, E.CLIENT_ADDR, now)
        else:
            for d, _ in s.datagrams_to_send(now):
                c.receive_datagram(d, E.SERVER_ADDR, now)
    if state.startswith("closing"):
        x = s if state.endswith("server") else c
        x.close(error_code=0)
        x.datagrams_to_send(now)
    role = "server" if state in ("server-after-initial", "server-after-client-finished", "connected-server", "closing-server") else "client"
    sut = s if role == "server" else c
    other = c if role == "server" else s
    # genuine datagrams the other side would send next
    nxt = [d for d, _ in other.datagrams_to_send(now + 0.001)]
    return sut, role, now, nxt, flights


STATES = ["fresh-server", "client-connecting", "server-after-initial", "client-after-server-flight", "server-after-client-finished", "connected-server", "connected-client", "closing-server", "closing-client"]


def mutate(data, muts):
    b = bytearray(data)
    for kind, pos, val in muts:
        if kind == "flip" and b:
            b[pos % len(b)] ^= 1 << (val % 8)
        elif kind == "set" and b:
            b[pos % len(b)] = val
        elif kind == "trunc":
            del b[pos % (len(b) + 1) :]
        elif kind == "extend":
            b += bytes([val]) * (pos % 300)
        elif kind == "cidlen" and len(b) > 6:
            b[5] = val
        elif kind == "version" and len(b) > 5:
            b[1:5] = [(0, 0, 0, 0), (0, 0, 0, 1), (0x6B, 0x33, 0x43, 0xCF), (0xFA, 0xFA, 0xFA, 0xFA)][val % 4]
        elif kind == "firstbyte" and b:
            b[0] = val
        elif kind == "pad1200":
            if len(b) < 1200:
                b += bytes(1200 - len(b))
    return bytes(b)


def build_special(sut, inp):
    """Retry / Version Negotiation packets with the connection IDs of the connection (anyone who saw one of its packets can write them)"""
    from vlib import refquic as R

    kind = inp[0]
    try:
        if kind == "retry":
            # valid integrity tag, token of any size
            dcid = sut.host_cid
            odcid = sut._peer_cid.cid if inp[2] else bytes(8)
            return R.build_retry(sut._version or R.V1, dcid, bytes([0x5A] * 8), bytes(inp[1]), odcid)
        cur = sut._version or R.V1
        other = R.V2 if cur == R.V1 else R.V1
        versions = {"current": [cur], "current+other": [cur, other], "other": [other], "none": [], "unknown": [0x1A2A3A4A], "many": [0x0A0A0A0A + i for i in range(300)]}[inp[1]]
        return R.build_version_negotiation(sut.host_cid, sut._peer_cid.cid if inp[2] else bytes(8), versions)
    except Exception:  # noqa
        return b""


def raw_case(ctx, case):
    from vlib import endpoints as E
    from vlib.harness import exc_signature

    with E.pinned(("c05raw", case["state"])):
        sut, role, now, nxt, flights = make_state(case["state"])
        src = E.CLIENT_ADDR if role == "server" else E.SERVER_ADDR
        dead = [False]

        def guard(what, fn, *a, **k):
            try:
                return fn(*a, **k)
            except Exception as e:
                dead[0] = True
                ctx.violation("api-raised-" + exc_signature(e), "%s raised %r in state %s" % (what, e, case["state"]), case)

        progressed = False
        terminated = False
        for inp in case["inputs"]:
            if dead[0] or terminated:
                break
            kind = inp[0]
            if kind == "bytes":
                data = bytes(inp[1])
            elif kind == "genuine":
                pool = nxt or [d for x, d in flights if x != ("s" if role == "server" else "c")]
                data = pool[inp[1] % len(pool)] if pool else b""
            elif kind == "mutated":
                pool = (nxt + [d for x, d in flights if x != ("s" if role == "server" else "c")]) or [b"\x00"]
                data = mutate(pool[inp[1] % len(pool)], inp[2])
            elif kind == "coalesce":
                pool = [d for x, d in flights] + nxt
                a, b = pool[inp[1] % len(pool)], pool[inp[2] % len(pool)]
                data = mutate(a, inp[3])[: inp[4] % 1500] + b
            elif kind in ("retry", "vn"):
                data = build_special(sut, inp)
            elif kind == "close":
                # the application closes; whatever the network did before, the transmit calls must keep working
                guard("close", sut.close, error_code=inp[1], reason_phrase=inp[2])
                data = None
            else:
                data = b""
            now += 0.001
            if data is not None:
                guard("receive_datagram", sut.receive_datagram, data, src if not inp[-1] == "othersrc" else ("8.8.8.8", 53), now)
            for _ in range(3):
                if dead[0]:
                    break
                while not dead[0]:
                    e = guard("next_event", sut.next_event)
                    if e is None:
                        break
                    progressed = True
                    if type(e).__name__ == "ConnectionTerminated":
                        terminated = True
                out = guard("datagrams_to_send", sut.datagrams_to_send, now)
                if out:
                    progressed = True
                t = guard("get_timer", sut.get_timer)
                if t is None or dead[0] or terminated:
                    break
                if t <= now + 0.0015:
                    now = max(now, t)
                    guard("handle_timer", sut.handle_timer, now)
                else:
                    break
        # run the timers to termination
        for _ in range(40):
            if dead[0] or terminated:
                break
            t = guard("get_timer", sut.get_timer)
            if t is None:
                break
            now = max(now, t)
            guard("handle_timer", sut.handle_timer, now)
            while not dead[0]:
                e = guard("next_event", sut.next_event)
                if e is None:
                    break
                if type(e).__name__ == "ConnectionTerminated":
                    terminated = True
            guard("datagrams_to_send", sut.datagrams_to_send, now)
        ctx.case(("raw", repr(case)), nontrivial=progressed, classes=["g12:" + case["state"], "g12:" + ("terminated" if terminated else "alive")] + ["g12:input-" + i[0] for i in case["inputs"]])


def raw_strategy():
    from hypothesis import strategies as st

    mut = st.lists(st.tuples(st.sampled_from(["flip", "flip", "set", "trunc", "extend", "cidlen", "version", "firstbyte", "pad1200"]), st.integers(0, 1500), st.integers(0, 255)), min_size=1, max_size=3)
    firsts = st.sampled_from([0x00, 0x40, 0x41, 0x7F, 0x80, 0xC0, 0xC3, 0xD0, 0xE0, 0xF0, 0xFF])
    rand = st.one_of(
        st.binary(max_size=64),
        st.tuples(firsts, st.sampled_from([b"\x00\x00\x00\x01", b"\x6b\x33\x43\xcf", b"\x00\x00\x00\x00", b"\x1a\x2a\x3a\x4a"]), st.binary(max_size=60), st.sampled_from([0, 1100, 1200, 1500, 4000, 65000])).map(lambda t: bytes([t[0]]) + t[1] + t[2] + bytes(t[3])),
    )
    inp = st.one_of(
        st.tuples(st.just("retry"), st.sampled_from([0, 16, 100, 1000, 1100, 1140, 1150, 1160, 1200, 3000]), st.booleans()),
        st.tuples(st.just("close"), st.sampled_from([0, 0x100]), st.sampled_from(["", "bye", "x" * 2000])),
        st.tuples(st.just("vn"), st.sampled_from(["current", "current+other", "other", "none", "unknown", "many"]), st.booleans()),
        st.tuples(st.just("bytes"), rand),
        st.tuples(st.just("genuine"), st.integers(0, 20)),
        st.tuples(st.just("mutated"), st.integers(0, 20), mut),
        st.tuples(st.just("mutated"), st.integers(0, 20), mut, st.just("othersrc")),
        st.tuples(st.just("coalesce"), st.integers(0, 20), st.integers(0, 20), mut, st.integers(0, 1500)),
    )
    return st.fixed_dictionaries({"kind": st.just("raw"), "state": st.sampled_from(STATES), "inputs": st.lists(inp, min_size=1, max_size=6)})


def raw_task(ctx, examples, shard):
    from vlib.harness import run_hypothesis

    strat = raw_strategy()

    def body(ctx, case):
        raw_case(ctx, case)
        if ctx.want_sample():
            ctx.sample({"state": case["state"], "inputs": [[i[0]] + [x if not isinstance(x, bytes) else x[:16] for x in i[1:]] for i in case["inputs"]][:4]})

    run_hypothesis(ctx, body, strat, examples, shard=shard)


# ------------------------------------------------------------------------------------------------


def tup(x):
    return tuple(tup(v) for v in x) if isinstance(x, list) else x


def replay(ctx, case):
    if case.get("kind") == "frames":
        case = dict(case, ops=[tup(o) for o in case["ops"]])
        frames_case(ctx, case)
    elif case.get("kind") == "raw":
        case = dict(case, inputs=[tup(i) for i in case["inputs"]])
        raw_case(ctx, case)
    elif case.get("kind") == "cid":
        from props import C18

        C18.run_history(ctx, dict(case, ops=[tup(o) for o in case["ops"]]), check=False)
    elif case.get("kind") == "epochs":
        epochs_case(ctx, dict(case, packets=[[tuple(x) for x in pkt] for pkt in case["packets"]]))
    else:
        from vlib import tlspeer

        tlspeer.replay(ctx, case)


def plan(tier, seed):
    q = tier == "quick"
    t = []
    for s in range(7 if q else 8):
        t.append(("frames-%d" % s, {"fn": "frames", "examples": 250 if q else 12000, "shard": s}))
    for s in range(4):
        t.append(("raw-%d" % s, {"fn": "raw", "examples": 400 if q else 15000, "shard": s}))
    for s in range(2):
        t.append(("cid-histories-%d" % s, {"fn": "cid", "examples": 250 if q else 8000, "shard": s}))
    for s in range(2):
        t.append(("epochs-%d" % s, {"fn": "epochs", "examples": 250 if q else 10000, "shard": s}))
    try:
        from vlib import tlspeer

        t += tlspeer.plan_for("C05", tier, seed)
    except ImportError:
        pass
    return t


def run_task(ctx, name, fn, **kw):
    if fn == "frames":
        frames_task(ctx, kw["examples"], kw["shard"])
    elif fn == "raw":
        raw_task(ctx, kw["examples"], kw["shard"])
    elif fn == "epochs":
        epochs_task(ctx, kw["examples"], kw["shard"])
    elif fn == "cid":
        from props import C18

        C18.histories(ctx, kw["examples"], kw["shard"], check=False)
    else:
        from vlib import tlspeer

        tlspeer.run_task(ctx, "C05", name, fn, **kw)
