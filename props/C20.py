"""C20 - logging is observationally transparent.

Every scenario is a deterministic function (all randomness, key generation and
the TLS clock are pinned).  It is run with logging off, with the qlog logger,
with the secrets log and with both, by injecting the logging arguments into
every QuicConfiguration the scenario creates; a tap on QuicConnection records
what each connection does.  Oracle: the observation (events, datagram bytes,
timers, exceptions, final state) is identical in all modes; the qlog document
is JSON-serialisable and its packet records match the packets actually sent
and received.
"""
import contextlib
import io
import json

PROPERTY = "C20"
LEVEL = "exploration"
RULE = (
    "one evaluation = one scenario executed in the four logging modes {off, qlog, secrets log, both} under pinned randomness. Scenarios: (sim) generated "
    "C01-profile simulator cases - two real endpoints, generated application scripts, loss / duplication / reordering / blackout / rebinding / key update / "
    "Retry / version negotiation; (frames) generated frame sequences from a key-holding peer in every epoch (C05 G3); (raw) arbitrary and mutated datagrams "
    "in nine endpoint states (C05 G1/G2); (tls) hostile TLS flights from a key-holding QUIC peer in both roles (C05 G4); (h3) generated HTTP/3 traffic "
    "(requests, responses, pushes, trailers, WebTransport, datagrams) produced by one H3Connection and delivered in generated chunkings, optionally mutated, "
    "to another (C14/C16 generators). The observation of a mode is the sequence of (connection, call, result) for every next_event, datagrams_to_send "
    "(datagram bytes), get_timer, every exception leaving an API call, and a final-state digest (state, close event, packet numbers, streams, flow-control "
    "counters, congestion window, RTT estimates, packet spaces); for h3 the events returned by handle_event, the bytes written to the transport and the "
    "close call. All modes must give the identical observation; a difference is re-run (baseline twice, mode twice) and reported only when the baseline "
    "repeats itself and the difference repeats. In qlog modes json.dumps(QuicLogger.to_dict()) must succeed, the packet_sent records must equal, in order, "
    "the packets in the datagrams returned by datagrams_to_send (type and length, count per call), every packet_received record must correspond to a "
    "packet in a datagram that was delivered, and in simulator scenarios every delivered datagram must add exactly one packet_received/packet_dropped "
    "record per packet it contains while the connection is open. Non-trivial = the scenario produced >= 20 qlog events and at least one datagram in both "
    "directions (or >= 3 H3 events); distinct by the scenario."
)
ASSUMPTIONS = [
    "the determinism pins of vlib/endpoints.py (DRBG for os.urandom, deterministic key generation, pinned TLS clock, stream hashing) make a scenario a pure function of its case; this is re-checked on every reported difference by running the baseline twice",
    "qlog timestamps come from time.time() and are not compared",
    "the harness's own key logs (the impersonated peer of a takeover scenario) are present in every mode and therefore cancel out",
]

MODES = ["off", "qlog", "keylog", "both"]


class NullCtx:
    """scenario functions of other properties report into this; their verdicts are not C20's business"""

    tier = "quick"
    seed = 0
    evaluations = 0

    def __init__(self):
        self.extra = {}

    def case(self, *a, **k):
        pass

    def cls(self, *a):
        pass

    def want_sample(self):
        return False

    def sample(self, *a, **k):
        pass

    def violation(self, *a, **k):
        return True

    def is_known(self, sig):
        return True


# ------------------------------------------------------------------------------------------------ tap


class Tap:
    """records what every QuicConnection created while active does"""

    def __init__(self):
        self.obs = []
        self.conns = []
        self.sent = {}  # idx -> list of per-call lists of (ptype, length)
        self.delivered = {}  # idx -> list of (datagram, records before, records after, open before)

    def __enter__(self):
        from aioquic.quic.connection import QuicConnection
        from vlib import refquic as R

        tap = self
        self.cls = QuicConnection
        self.saved = {k: QuicConnection.__dict__[k] for k in ("__init__", "next_event", "datagrams_to_send", "get_timer", "receive_datagram", "handle_timer")}
        s = self.saved

        def idx(c):
            i = getattr(c, "_verif_idx", None)
            if i is None:
                i = c._verif_idx = len(tap.conns)
                tap.conns.append(c)
            return i

        def wrap(name, record):
            orig = s[name]

            def f(self_, *a, **k):
                i = idx(self_)
                try:
                    r = orig(self_, *a, **k)
                except Exception as e:  # noqa
                    tap.obs.append((i, name + "-raised", type(e).__name__, str(e)[:200]))
                    raise
                record(i, self_, r, a, k)
                return r

            return f

        def rec_init(i, c, r, a, k):
            tap.obs.append((i, "init", bool(c._is_client)))
            c._verif_trace = getattr(c, "_quic_logger", None)  # (the connection forgets its trace when it terminates)

        def rec_event(i, c, r, a, k):
            if r is not None:
                tap.obs.append((i, "event", repr(r)))

        def rec_send(i, c, r, a, k):
            per_call = []
            for data, addr in r:
                tap.obs.append((i, "datagram", bytes(data), addr))
                try:
                    for info in R.split_datagram(bytes(data), c._configuration.connection_id_length, require_fixed_bit=False):
                        per_call.append((info.ptype, info.end - info.start))
                except Exception:  # noqa
                    per_call.append(("?", len(data)))
            tap.sent.setdefault(i, []).append(per_call)

        def rec_timer(i, c, r, a, k):
            tap.obs.append((i, "timer", r))

        def rec_none(i, c, r, a, k):
            pass

        orig_rx = s["receive_datagram"]

        def receive_datagram(self_, data, addr, now):
            i = idx(self_)
            tr = getattr(self_, "_verif_trace", None)
            before = len(tr._events) if tr is not None else None
            # (a connection that has decided to close - closing state entered, or a close waiting for the next transmit - handles no more packets)
            open_before = self_._state.name not in ("CLOSING", "DRAINING", "TERMINATED") and not getattr(self_, "_close_pending", False)
            try:
                r = orig_rx(self_, data, addr, now)
            except Exception as e:  # noqa
                tap.obs.append((i, "receive_datagram-raised", type(e).__name__, str(e)[:200]))
                raise
            if tr is not None:
                added = [e for e in list(tr._events)[before:] if e["name"] in ("transport:packet_received", "transport:packet_dropped")]
                tap.delivered.setdefault(i, []).append((bytes(data), added, open_before, self_._state.name))
            return r

        QuicConnection.__init__ = wrap("__init__", rec_init)
        QuicConnection.next_event = wrap("next_event", rec_event)
        QuicConnection.datagrams_to_send = wrap("datagrams_to_send", rec_send)
        QuicConnection.get_timer = wrap("get_timer", rec_timer)
        QuicConnection.handle_timer = wrap("handle_timer", rec_none)
        QuicConnection.receive_datagram = receive_datagram
        return self

    def __exit__(self, *a):
        for k, v in self.saved.items():
            setattr(self.cls, k, v)

    def finish(self):
        for i, c in enumerate(self.conns):
            self.obs.append((i, "final", final_state(c)))


def count_records(trace):
    n = {"transport:packet_received": 0, "transport:packet_dropped": 0}
    for e in trace._events:
        if e["name"] in n:
            n[e["name"]] += 1
    return (n["transport:packet_received"], n["transport:packet_dropped"])


def final_state(c):
    def g(o, name, default=None):
        return getattr(o, name, default)

    streams = []
    for sid, s in sorted(g(c, "_streams", {}).items()):
        r, w = s.receiver, s.sender
        streams.append((sid, r.highest_offset, r.is_finished, r._buffer_start, len(r._buffer), w.highest_offset, w.is_finished, w._buffer_start, w._buffer_stop, w.reset_pending, w.buffer_is_empty, list(w._pending), list(w._acked)))
    spaces = []
    for ep, sp in sorted(g(c, "_spaces", {}).items(), key=lambda kv: kv[0].value):
        spaces.append((ep.name, sp.discarded, sp.expected_packet_number, sp.largest_received_packet, list(sp.ack_queue), sp.ack_at, sp.largest_acked_packet, sorted(sp.sent_packets), sp.ack_eliciting_in_flight, sp.loss_time))
    loss = g(c, "_loss")
    cc = g(loss, "_cc") if loss is not None else None
    fc = []
    for name in ("_local_max_data", "_local_max_streams_bidi", "_local_max_streams_uni"):
        o = g(c, name)
        if o is not None:
            fc.append((name, g(o, "value"), g(o, "used"), g(o, "sent")))
    return (
        c._state.name, repr(g(c, "_close_event")), g(c, "_packet_number"), g(c, "_handshake_complete"), g(c, "_handshake_confirmed"), g(c, "_version"), tuple(streams), tuple(spaces),
        (g(cc, "congestion_window"), g(cc, "bytes_in_flight"), g(cc, "ssthresh")) if cc is not None else None,
        (g(loss, "_rtt_smoothed"), g(loss, "_rtt_min"), g(loss, "_rtt_variance"), g(loss, "_pto_count")) if loss is not None else None,
        tuple(fc), g(c, "_remote_max_data"), g(c, "_remote_max_data_used"), g(c, "_remote_max_streams_bidi"), g(c, "_remote_max_streams_uni"),
        tuple((x.cid, x.sequence_number, x.was_sent) for x in g(c, "_host_cids", [])), g(c, "_host_cid_seq"), g(g(c, "_peer_cid"), "cid"), g(g(c, "_peer_cid"), "sequence_number"),
        tuple(x.sequence_number for x in g(c, "_peer_cid_available", [])), tuple(g(c, "_retire_connection_ids", [])), g(c, "_close_at"), g(c, "_streams_blocked_bidi") and len(c._streams_blocked_bidi),
        tuple(sorted(g(c, "_streams_finished", ()))), g(g(c, "_cryptos", {}).get(max(g(c, "_cryptos", {1: None}), key=lambda k: getattr(k, "value", 0)), None), "key_phase", None) if g(c, "_cryptos") else None,
        tuple((p.addr, p.is_validated, p.bytes_received, p.bytes_sent, p.local_challenge_sent if hasattr(p, "local_challenge_sent") else None) for p in g(c, "_network_paths", [])),
    )


@contextlib.contextmanager
def logging_mode(mode):
    """inject logging arguments into every configuration created through vlib.endpoints / h3bench"""
    from aioquic.quic.logger import QuicLogger
    from vlib import endpoints as E, h3bench as B

    made = {"loggers": [], "keylogs": []}

    def extra(role):
        kw = {}
        if mode in ("qlog", "both"):
            lg = QuicLogger()
            made["loggers"].append(lg)
            kw["quic_logger"] = lg
        if mode in ("keylog", "both"):
            f = io.StringIO()
            made["keylogs"].append(f)
            kw["secrets_log_file"] = f
        return kw

    def h3_logger(is_client):
        if mode in ("qlog", "both"):
            lg = QuicLogger()
            made["loggers"].append(lg)
            return lg.start_trace(is_client=is_client, odcid=b"\x01" * 8)
        return None

    saved = (E.EXTRA, B.LOGGER_FACTORY)
    E.EXTRA = extra
    B.LOGGER_FACTORY = h3_logger
    try:
        yield made
    finally:
        E.EXTRA, B.LOGGER_FACTORY = saved


# ------------------------------------------------------------------------------------------------ scenarios


def scenario_fn(case):
    """-> callable running the scenario; returns extra observations (list) or None"""
    k = case["kind"]
    if k == "sim":
        from vlib import simnet

        def run():
            c = json.loads(json.dumps(case["case"]))
            c["cfg"] = dict(c["cfg"], keylog=False)
            c["cfg"].pop("c_keylog", None)
            sim = simnet.Sim(c, NullCtx(), monitors=[], observe=False, max_events=4000)
            sim.run()
            return [("sim-stats", tuple(sorted((k, v) for k, v in sim.stats.items())))]

        return run
    if k == "frames":
        from props import C05

        return lambda: C05.frames_case(NullCtx(), case["case"]) and None
    if k == "raw":
        from props import C05

        return lambda: C05.raw_case(NullCtx(), case["case"])
    if k == "epochs":
        # resumed connections with 0-RTT accepted by the server, and frames in Initial / Handshake packets
        from props import C05

        return lambda: C05.epochs_case(NullCtx(), case["case"])
    if k == "tls":
        from vlib import tlspeer

        def run():
            try:
                if case["case"]["kind"] == "g4s":
                    tlspeer.hostile_server_case(NullCtx(), case["case"])
                else:
                    tlspeer.hostile_client_case(NullCtx(), case["case"])
            except tlspeer.Skip:
                return [("skip",)]

        return run
    if k == "h3":
        return lambda: h3_scenario(case)
    if k == "bulk":
        return lambda: bulk_scenario(case)
    raise KeyError(k)


def bulk_scenario(case):
    """a long connection: megabytes in one direction over a lossless link (tens of thousands of qlog events)"""
    from aioquic.quic.connection import QuicConnection
    from vlib import endpoints as E

    with E.pinned(("c20-bulk", case["kb"], case["sender"])):
        big = dict(max_data=1 << 25, max_stream_data=1 << 25)
        c = QuicConnection(configuration=E.client_config(**big))
        c.connect(E.SERVER_ADDR, now=0.0)
        s = QuicConnection(configuration=E.server_config(**big), original_destination_connection_id=c.original_destination_connection_id)
        now = 0.0

        def rnd():
            nonlocal now
            now += 0.001
            a = E.transfer(c, s, now, E.CLIENT_ADDR)
            now += 0.001
            b = E.transfer(s, c, now, E.SERVER_ADDR)
            for x in (c, s):
                E.drain(x)
                t = x.get_timer()
                if t is not None and t <= now:
                    x.handle_timer(now)
            return a + b

        for _ in range(6):
            rnd()
        w = c if case["sender"] == "client" else s
        sid = w.get_next_available_stream_id()
        w.send_stream_data(sid, bytes(case["kb"] * 1024), end_stream=True)
        for _ in range(40000):
            if not rnd():
                break
        c.close()
        for _ in range(4):
            rnd()
    return None


def h3_scenario(case):
    """one H3Connection produces traffic, another receives it in chunks (optionally mutated)"""
    import random

    from props import C14
    from vlib import h3bench as B

    traffic = C14.make_traffic(case["seed"], case["direction"])
    obs = [("h3-sent", tuple(sorted((sid, d, fin) for sid, (d, fin) in traffic["streams"].items())), tuple(traffic["dgrams"]))]
    rnd = random.Random(case["seed"] * 31 + 7)
    plan = []
    queues = {}
    for sid, (d, fin) in traffic["streams"].items():
        d = bytes(d)
        if case["mutate"] and d and rnd.random() < 0.5:
            b = bytearray(d)
            for _ in range(rnd.randint(1, 3)):
                p = rnd.randrange(len(b))
                kind = rnd.choice(["flip", "set", "del", "trunc"])
                if kind == "flip":
                    b[p] ^= 1 << rnd.randrange(8)
                elif kind == "set":
                    b[p] = rnd.choice([0, 1, 0x3F, 0x40, 0xFF])
                elif kind == "del":
                    del b[p]
                elif kind == "trunc":
                    del b[p:]
                if not b:
                    break
            d = bytes(b)
        cuts = sorted(set(rnd.randrange(1, len(d)) for _ in range(rnd.randint(0, 4)))) if len(d) > 1 else []
        chunks = [d[a:b] for a, b in zip([0] + cuts, cuts + [len(d)])] or [b""]
        queues[sid] = [(sid, c, fin and i == len(chunks) - 1) for i, c in enumerate(chunks)]
    for i, d in enumerate(traffic["dgrams"]):
        queues[("dgram", i)] = [("dgram", d)]
    keys = sorted(queues, key=str)
    while keys:
        kx = keys[rnd.randrange(len(keys))]
        plan.append(queues[kx].pop(0))
        if not queues[kx]:
            keys.remove(kx)
    q = B.StubQuic(not traffic["sender_is_client"])
    from aioquic.h3.connection import H3Connection

    h3 = H3Connection(q, enable_webtransport=True)
    evs = []
    for item in plan:
        try:
            got, _, _ = B.deliver([item], not traffic["sender_is_client"], h3=h3, quic=q)
        except Exception as e:  # noqa
            evs.append(("raised", type(e).__name__, str(e)[:200]))
            break
        evs.extend(repr(e) for e in got)
    obs.append(("h3-received", tuple(evs), q.closed, q.close_calls, tuple(q.log), tuple(q.datagrams)))
    return obs


def observe(case, mode):
    """-> (observation list, made loggers/keylogs, tap)"""
    fn = scenario_fn(case)
    with logging_mode(mode) as made, Tap() as tap:
        try:
            extra = fn()
        except Exception as e:  # noqa - an exception leaving the scenario is part of the observation
            from vlib.harness import exc_signature

            extra = [("scenario-raised", exc_signature(e), str(e)[:300])]
        tap.finish()
    obs = list(tap.obs) + list(extra or [])
    return obs, made, tap


def first_difference(a, b):
    for i, (x, y) in enumerate(zip(a, b)):
        if x != y:
            return i, x, y
    if len(a) != len(b):
        i = min(len(a), len(b))
        return i, (a[i] if i < len(a) else "<end>"), (b[i] if i < len(b) else "<end>")
    return None


def brief(x):
    if isinstance(x, tuple) and len(x) > 2 and x[1] == "datagram":
        return "(conn %d sends %d-byte datagram %s...)" % (x[0], len(x[2]), x[2][:24].hex())
    if isinstance(x, tuple) and len(x) > 2 and x[1] == "final":
        return "(conn %d final state %s)" % (x[0], repr(x[2])[:300])
    return repr(x)[:400]


STOP_TRIGGERS = ("header_parse_error", "unknown_connection_id", "unsupported_version", "initial_packet_datagram_too_small")


def qlog_checks(ctx, case, mode, made, tap, strict_received):
    """serialisability and packet records"""
    from vlib import refquic as R

    names = {R.PT_INITIAL: "initial", R.PT_HANDSHAKE: "handshake", R.PT_ZERO_RTT: "0RTT", R.PT_ONE_RTT: "1RTT", R.PT_RETRY: "retry", getattr(R, "PT_VERSION_NEGOTIATION", "vn"): "version_negotiation"}
    nev = 0
    for lg in made["loggers"]:
        try:
            doc = json.dumps(lg.to_dict())
            json.loads(doc)
        except Exception as e:  # noqa
            ctx.violation("qlog-not-serialisable", "json.dumps(QuicLogger.to_dict()) raised %r (mode %s)" % (e, mode), case)
            continue
        for tr in lg._traces:
            nev += len(tr._events)
    for i, c in enumerate(tap.conns):
        tr = getattr(c, "_verif_trace", None)
        if tr is None:
            continue
        role = "client" if c._is_client else "server"
        # --- sent: records == packets, in order
        rec = [(e["data"]["header"]["packet_type"], e["data"]["raw"]["length"]) for e in tr._events if e["name"] == "transport:packet_sent"]
        real = [(names.get(p, str(p)), ln) for call in tap.sent.get(i, []) for p, ln in call]
        if any(p == "?" for p, _ in real):
            continue
        if rec != real:
            d = first_difference(rec, real)
            ctx.violation("qlog-packet-sent-records-differ-from-packets-sent", "%s (connection %d, mode %s): %d packet_sent records, %d packets in the datagrams returned by datagrams_to_send; first difference at #%d: record %r, packet %r" % (role, i, mode, len(rec), len(real), d[0], d[1], d[2]), case)
        # --- received: each record corresponds to a delivered packet; in simulator scenarios one record per packet
        got = [(e["data"]["header"]["packet_type"], e["data"]["raw"]["length"]) for e in tr._events if e["name"] == "transport:packet_received"]
        pool = {}
        for data, added, open_before, state_after in tap.delivered.get(i, []):
            try:
                infos = R.split_datagram(data, c._configuration.connection_id_length, require_fixed_bit=False)
                pk = [(names.get(x.ptype, str(x.ptype)), x.end - x.start) for x in infos]
            except Exception:  # noqa
                pk = None
            if pk is not None:
                for p in pk:
                    pool[p] = pool.get(p, 0) + 1
            if strict_received and pk is not None and open_before and state_after not in ("CLOSING", "DRAINING", "TERMINATED") and not any(p[0] in ("retry", "version_negotiation") for p in pk):
                # a record whose trigger makes the library abandon the rest of the datagram ends the accounting for that datagram
                stops = [k for k, e in enumerate(added) if e["name"] == "transport:packet_dropped" and e["data"].get("trigger") in STOP_TRIGGERS]
                per_packet = added[: stops[0]] if stops else added
                ok = (len(per_packet) == len(pk)) if not stops else (len(per_packet) <= len(pk) and stops[0] == len(added) - 1)
                if not ok:
                    ctx.violation(
                        "qlog-received-datagram-without-one-record-per-packet",
                        "%s (connection %d, mode %s): a delivered %d-byte datagram with %d packets %r added the records %r" % (role, i, mode, len(data), len(pk), pk, [(e["name"].split(":")[1], e["data"].get("trigger")) for e in added]), case,
                    )
            elif pk and open_before and state_after not in ("CLOSING", "DRAINING", "TERMINATED") and not added:
                # whatever the scenario: a datagram that holds at least one packet leaves at least one record (received or dropped)
                ctx.violation(
                    "qlog-received-datagram-without-any-record",
                    "%s (connection %d, mode %s): a delivered %d-byte datagram with packets %r added no packet_received / packet_dropped record" % (role, i, mode, len(data), pk[:4]), case,
                )
        if strict_received:
            for g in got:
                if g[0] in ("retry", "version_negotiation"):
                    continue
                if pool.get(g, 0) <= 0:
                    ctx.violation("qlog-packet-received-record-without-packet", "%s (connection %d, mode %s): packet_received record %r matches no delivered packet" % (role, i, mode, g), case)
                    break
                pool[g] -= 1
    return nev


def pair_case(ctx, case):
    base, _, tap0 = observe(case, "off")
    n_dgram = {}
    for o in base:
        if len(o) > 2 and o[1] == "datagram":
            n_dgram[o[0]] = n_dgram.get(o[0], 0) + 1
    nev_total = 0
    differs = False
    for mode in MODES[1:]:
        obs, made, tap = observe(case, mode)
        d = first_difference(base, obs)
        if d is not None:
            # is the scenario deterministic at all, and does the difference repeat?
            base2, _, _ = observe(case, "off")
            if first_difference(base, base2) is not None:
                ctx.cls("pair:nondeterministic-scenario")
                return
            obs2, _, _ = observe(case, mode)
            d2 = first_difference(base, obs2)
            if d2 is None or d2[0] != d[0]:
                ctx.cls("pair:difference-did-not-repeat")
                return
            differs = True
            what = "raises" if (isinstance(d[2], tuple) and len(d[2]) > 1 and str(d[2][1]).endswith("raised")) else "behaves differently"
            sig = "logging-raises" if what == "raises" else "behaviour-differs-with-" + {"qlog": "qlog", "keylog": "secrets-log", "both": "qlog"}[mode]
            ctx.violation(sig, "mode %s %s from logging off at observation #%d of %d: off: %s | %s: %s" % (mode, what, d[0], len(base), brief(d[1]), mode, brief(d[2])), case)
        if mode in ("qlog", "both"):
            nev_total = max(nev_total, qlog_checks(ctx, case, mode, made, tap, strict_received=case["kind"] == "sim"))
        if mode in ("keylog", "both"):
            for f in made["keylogs"]:
                for line in f.getvalue().splitlines():
                    parts = line.split(" ")
                    if len(parts) != 3 or not parts[0].isupper() or len(parts[1]) != 64:
                        ctx.violation("secrets-log-malformed-line", "line %r" % line[:120], case)
                        break
    h3 = case["kind"] == "h3"
    nt = (nev_total >= 20 and len(n_dgram) >= (2 if case["kind"] == "sim" else 1)) or (h3 and any(o[0] == "h3-received" and len(o[1]) >= 3 for o in base))
    ctx.case((case["kind"], repr(case)), nontrivial=nt, classes=["pair:" + case["kind"], "pair:qlog-events>=20" if nev_total >= 20 else "pair:qlog-events<20"] + (["pair:scenario-raises-in-all-modes"] if any(o[0] == "scenario-raised" for o in base if isinstance(o[0], str)) else []))
    return nev_total


def strategy(kind):
    from hypothesis import strategies as st

    if kind == "sim":
        from vlib import simchecks

        prof = st.sampled_from(["C01", "C01", "C09", "C13"])
        quantum = st.sampled_from([False, False, False, True])
        return st.tuples(prof.flatmap(lambda p: simchecks.case_strategy(simchecks.PROFILES[p])), quantum).map(lambda t: {"kind": "sim", "case": dict(t[0], cfg=dict(t[0]["cfg"], quantum=t[1]))})
    if kind == "frames":
        from props import C05

        return C05.frames_strategy().map(lambda c: {"kind": "frames", "case": c})
    if kind == "raw":
        from props import C05

        # (plus: a client in its first flight receiving Version Negotiation / Retry packets that carry its connection IDs)
        special = st.lists(st.one_of(st.tuples(st.just("vn"), st.sampled_from(["current", "current+other", "other", "none", "unknown"]), st.just(True)), st.tuples(st.just("retry"), st.sampled_from([0, 16, 100]), st.booleans()), st.tuples(st.just("genuine"), st.integers(0, 3))), min_size=1, max_size=4)
        directed = special.map(lambda inputs: {"kind": "raw", "state": "client-connecting", "inputs": inputs})
        return st.one_of(C05.raw_strategy(), C05.raw_strategy(), directed).map(lambda c: {"kind": "raw", "case": c})
    if kind == "bulk":
        return st.fixed_dictionaries({"kind": st.just("bulk"), "kb": st.sampled_from([300, 4600, 4600, 9000]), "sender": st.sampled_from(["client", "server"])})
    if kind == "epochs":
        from props import C05

        return C05.epoch_strategy().map(lambda c: {"kind": "epochs", "case": c})
    if kind == "tls":
        from vlib import tlspeer

        s, c = tlspeer.g4_strategies()
        return st.one_of(s, c).map(lambda x: {"kind": "tls", "case": x})
    if kind == "h3":
        return st.fixed_dictionaries({"kind": st.just("h3"), "seed": st.integers(0, 1 << 30), "direction": st.sampled_from(["c2s", "s2c"]), "mutate": st.sampled_from([False, False, True])})
    raise KeyError(kind)


def pairs_task(ctx, kind, examples, shard):
    from vlib.harness import run_hypothesis

    def body(ctx, case):
        n = pair_case(ctx, case)
        if ctx.want_sample():
            c = case["case"] if "case" in case else case
            ctx.sample({"kind": case["kind"], "qlog_events": n, "case": {k: (v if not isinstance(v, list) else v[:4]) for k, v in c.items()} if isinstance(c, dict) else c})

    run_hypothesis(ctx, body, strategy(kind), examples, shard=shard)


def replay(ctx, case):
    ctx.case(None, True)
    pair_case(ctx, case)


def plan(tier, seed):
    q = tier == "quick"
    t = []
    for kind, nq, nt, shards in (("sim", 40, 4000, 5), ("frames", 60, 5000, 3), ("raw", 120, 8000, 2), ("tls", 300, 6000, 2), ("epochs", 60, 4000, 2), ("bulk", 2, 8, 2), ("h3", 200, 15000, 2)):
        for s in range(shards):
            t.append(("%s-%d" % (kind, s), {"kind": kind, "examples": nq if q else nt, "shard": s}))
    return t


def run_task(ctx, name, kind, examples, shard):
    pairs_task(ctx, kind, examples, shard)
