"""C17 - wire codecs round-trip and agree with an independent codec.

Oracles: round trip (pull(push(x)) == x), byte equality with the independent
encoders of vlib/refquic.py and vlib/reftls.py (written from the RFCs, they
import nothing from aioquic), cross decoding in both directions,
decode(encode(decode(b))) == decode(b) for arbitrary bytes, and
"no read past the declared length of an enclosing field".
"""
import itertools

PROPERTY = "C17"
LEVEL = "exploration"
RULE = (
    "one evaluation = one value pushed/pulled through an aioquic codec and through the independent codec, or one byte string decoded. "
    "Integers: all of 0..300 plus the neighbourhoods of 2^6, 2^8, 2^14, 2^16, 2^30, 2^32, 2^62, 2^64 and random 62/64-bit values, including "
    "out-of-range values which must raise. ACK frames: every non-empty range set over [0,12) (exhaustive) plus sparse random sets up to 2^62-1. "
    "Headers: both versions x long packet types x CID lengths 0..20 x token lengths x pn lengths; Retry and Version Negotiation. Transport "
    "parameters: generated subsets of the 20 known parameters with boundary values, unknown ids, preferred_address, version_information. TLS: "
    "generated ClientHello .. NewSessionTicket with every optional extension present/absent and unknown extensions; understated extension "
    "lengths. Arbitrary / mutated bytes for every decoder. Non-trivial = a value at or adjacent to an encoding boundary, a message with >= 3 "
    "optional fields, or a byte string that decodes successfully; distinct by the value/bytes."
)
ASSUMPTIONS = [
    "vlib/refquic.py reproduces the published packets and keys of RFC 9001 App. A and RFC 9369 App. A (self-test); vlib/reftls.py is anchored by interoperating with an unmodified aioquic in both roles and by the captured messages of the repository (self-test)",
    "aioquic's emission order of transport parameters and TLS extensions is a parameter of the reference encoders (order is not part of the statement)",
    "documented parse errors: ValueError (incl. BufferReadError) for QUIC codecs; those or a tls.Alert for TLS codecs",
]

BOUNDARIES = [1 << 6, 1 << 8, 1 << 14, 1 << 16, 1 << 30, 1 << 32, 1 << 62, 1 << 64]


def int_values():
    vals = set(range(0, 301))
    for b in BOUNDARIES:
        for d in range(-3, 4):
            vals.add(b + d)
    vals.update([-1, -2, -(1 << 63), (1 << 63), (1 << 63) - 1, (1 << 64) + 7, 1 << 70, (1 << 32) + 7])
    return sorted(vals)


# ---------------------------------------------------------------- integers


def ints(ctx, extra_random):
    from aioquic.buffer import Buffer, BufferReadError, encode_uint_var, size_uint_var
    from vlib import refquic as R
    import random

    rnd = random.Random(ctx.seed * 7919 + 17)
    vals = int_values() + [rnd.getrandbits(62) for _ in range(extra_random)] + [rnd.getrandbits(64) for _ in range(extra_random)]
    widths = {"uint8": 8, "uint16": 16, "uint32": 32, "uint64": 64}
    for v in vals:
        near = any(abs(v - b) <= 3 for b in BOUNDARIES) or v < 2
        for name, bits in widths.items():
            buf = Buffer(capacity=16)
            case = {"kind": "int", "codec": name, "value": v}
            ctx.case((name, v), nontrivial=near, classes=["int:" + name])
            try:
                getattr(buf, "push_" + name)(v)
                ok = True
            except (ValueError, OverflowError, TypeError):
                ok = False
            if 0 <= v < (1 << bits):
                want = v.to_bytes(bits // 8, "big")
                if not ok:
                    ctx.violation("int-encode-refused", "push_%s(%d) raised" % (name, v), case)
                elif buf.data != want:
                    ctx.violation("int-encode-bytes-differ", "push_%s(%d) wrote %s, expected %s" % (name, v, buf.data.hex(), want.hex()), case)
                else:
                    rb = Buffer(data=want + b"\xaa")
                    got = getattr(rb, "pull_" + name)()
                    if got != v or rb.tell() != bits // 8:
                        ctx.violation("int-roundtrip-differs", "pull_%s(%s) = %r" % (name, want.hex(), got), case)
            else:
                if ok:
                    ctx.violation("int-out-of-range-encoded", "push_%s(%d) did not raise and wrote %s" % (name, v, buf.data.hex()), case)
        # varint
        case = {"kind": "int", "codec": "uint_var", "value": v}
        ctx.case(("var", v), nontrivial=near, classes=["int:uint_var"])
        buf = Buffer(capacity=16)
        try:
            buf.push_uint_var(v)
            ok = True
        except (ValueError, OverflowError, TypeError):
            ok = False
        if 0 <= v < (1 << 62):
            want = R.enc_varint(v)
            if not ok:
                ctx.violation("varint-encode-refused", "push_uint_var(%d) raised" % v, case)
                continue
            if buf.data != want:
                ctx.violation("varint-encode-bytes-differ", "push_uint_var(%d) wrote %s, reference %s" % (v, buf.data.hex(), want.hex()), case)
            if encode_uint_var(v) != want:
                ctx.violation("varint-encode-bytes-differ", "encode_uint_var(%d) = %s, reference %s" % (v, encode_uint_var(v).hex(), want.hex()), case)
            if size_uint_var(v) != len(want):
                ctx.violation("varint-size-differs", "size_uint_var(%d) = %d, encoded length %d" % (v, size_uint_var(v), len(want)), case)
            # all (also non-minimal) encodings decode to the value, consuming exactly their length
            for n in (1, 2, 4, 8):
                if v < (1 << (8 * n - 2)):
                    enc = R.enc_varint_n(v, n)
                    rb = Buffer(data=enc + b"\x55\x55")
                    got = rb.pull_uint_var()
                    if got != v or rb.tell() != n:
                        ctx.violation("varint-decode-differs", "pull_uint_var(%s) = %r (consumed %d)" % (enc.hex(), got, rb.tell()), case)
                    # truncations must raise
                    for cut in range(n):
                        tb = Buffer(data=enc[:cut])
                        try:
                            tb.pull_uint_var()
                            ctx.violation("varint-truncated-accepted", "pull_uint_var(%s) did not raise" % enc[:cut].hex(), case)
                        except BufferReadError:
                            pass
        else:
            if ok:
                ctx.violation("varint-out-of-range-encoded", "push_uint_var(%d) did not raise and wrote %s" % (v, buf.data.hex()), case)
            try:
                size_uint_var(v)
                if v >= (1 << 62):
                    ctx.violation("varint-size-out-of-range", "size_uint_var(%d) did not raise" % v, case)
            except ValueError:
                pass
        if ctx.want_sample():
            ctx.sample(case)
    ctx.extra["exhaustive"] = True


# ---------------------------------------------------------------- ACK frames


def ack_check(ctx, ranges, delay, max_ranges=None):
    """ranges: ascending list of (start, stop) half-open, disjoint, non-adjacent.  With max_ranges the encoder keeps the ranges with the highest
    packet numbers only; the frame must then be the encoding of exactly those."""
    from aioquic.buffer import Buffer
    from aioquic.quic.packet import pull_ack_frame, push_ack_frame
    from aioquic.quic.rangeset import RangeSet
    from vlib import refquic as R

    rs = RangeSet([range(a, b) for a, b in ranges])
    case = {"kind": "ack", "ranges": ranges, "delay": delay, "max_ranges": max_ranges}
    buf = Buffer(capacity=16 + 16 * len(ranges) + 16)
    try:
        n = push_ack_frame(buf, rs, delay) if max_ranges is None else push_ack_frame(buf, rs, delay, max_ranges)
    except Exception as e:
        ctx.violation("ack-encode-raised", "push_ack_frame(%r, %d, max_ranges=%r) raised %r" % (ranges, delay, max_ranges, e), case)
        return
    if max_ranges is not None:
        ranges = ranges[-max_ranges:]
    body = buf.data
    if n != len(ranges):
        ctx.violation("ack-range-count", "push_ack_frame returned %d for %d ranges" % (n, len(ranges)), case)
    desc = [(b - 1, a) for a, b in reversed(ranges)]  # (hi, lo) inclusive, descending
    ref = R.encode_frame(R.ack_frame_from_ranges([(lo, hi) for hi, lo in desc], delay))
    if ref[1:] != body:
        ctx.violation("ack-bytes-differ", "push_ack_frame wrote %s, reference %s" % (body.hex(), ref[1:].hex()), case)
    rb = Buffer(data=body + b"\x01\x02")
    try:
        got, gdelay = pull_ack_frame(rb)
    except Exception as e:
        ctx.violation("ack-decode-raised", "pull_ack_frame(%s) raised %r" % (body.hex(), e), case)
        return
    if [(r.start, r.stop) for r in got] != [tuple(x) for x in ranges] or gdelay != delay or rb.tell() != len(body):
        ctx.violation("ack-roundtrip-differs", "pull(push(%r, %d)) = %r, %d (consumed %d of %d)" % (ranges, delay, list(got), gdelay, rb.tell(), len(body)), case)
    # the reference decoder agrees
    pf = R.parse_frames(b"\x02" + body)
    acked = sorted((lo, hi + 1) for lo, hi in [tuple(sorted(x)) for x in pf[0]["acked"]])
    if acked != [tuple(x) for x in ranges] or pf[0]["delay"] != delay:
        ctx.violation("ack-reference-decode-differs", "reference decodes %s as %r delay %r" % (body.hex(), acked, pf[0]["delay"]), case)


def ranges_from_mask(mask, n, base=0):
    out = []
    i = 0
    while i < n:
        if mask >> i & 1:
            j = i
            while j < n and mask >> j & 1:
                j += 1
            out.append((base + i, base + j))
            i = j
        else:
            i += 1
    return out


def acks_exhaustive(ctx, U, part, nparts):
    for mask in range(1, 1 << U):
        if mask % nparts != part:
            continue
        ranges = ranges_from_mask(mask, U)
        delay = (0, 1, 63, 64, 16383, 16384)[mask % 6]
        ctx.case(("ack", mask), nontrivial=len(ranges) > 1, classes=["ack:exhaustive"])
        ack_check(ctx, ranges, delay)
        if len(ranges) >= 2:
            for mr in sorted({1, len(ranges) - 1, len(ranges)}):
                ack_check(ctx, ranges, delay, mr)
        if ctx.want_sample():
            ctx.sample({"ack_ranges": ranges, "delay": delay})
    ctx.extra["exhaustive"] = True


def acks_random(ctx, examples, shard):
    from hypothesis import strategies as st
    from vlib.harness import run_hypothesis

    V = (1 << 62) - 1
    gap = st.one_of(st.integers(1, 3), st.sampled_from([63, 64, 65, 16383, 16384, (1 << 30) - 1, 1 << 30]), st.integers(1, 1 << 40))
    strat = st.tuples(
        st.one_of(st.integers(0, 100), st.sampled_from([0, 62, 63, 64, 16382, 16383, 16384, (1 << 30) - 2, 1 << 30, V - 5]), st.integers(0, 1 << 61)),
        st.lists(st.tuples(gap, gap), min_size=0, max_size=40),
        gap,
        st.sampled_from([0, 1, 63, 64, 16383, 16384, (1 << 30) - 1, 1 << 30, V]),
    )

    def body(ctx, v):
        start, segs, firstlen, delay = v
        ranges = []
        pos = start
        ln = firstlen
        for g, l in [(0, firstlen)] + segs:
            a = pos + g
            b = a + l
            if b > V + 1:
                break
            if ranges and a == ranges[-1][1]:
                a += 1
                b += 1
            ranges.append((a, b))
            pos = b
        if not ranges:
            ranges = [(0, 1)]
        ctx.case(("ackr", tuple(ranges), delay), nontrivial=len(ranges) > 1 or ranges[0][0] > 16383, classes=["ack:random"])
        ack_check(ctx, ranges, delay)
        if len(ranges) >= 2:
            ack_check(ctx, ranges, delay, 1 + (delay + len(ranges)) % len(ranges))
        if ctx.want_sample():
            ctx.sample({"ack_ranges": ranges[:6], "n": len(ranges), "delay": delay})

    run_hypothesis(ctx, body, strat, examples, shard=shard)


# ---------------------------------------------------------------- packet headers, Retry, Version Negotiation


def headers(ctx, part, nparts):
    from aioquic.buffer import Buffer
    from aioquic.quic.packet import (
        QuicPacketType,
        QuicProtocolVersion,
        encode_long_header_first_byte,
        encode_quic_retry,
        encode_quic_version_negotiation,
        get_retry_integrity_tag,
        pull_quic_header,
    )
    from vlib import refquic as R

    PT = {R.PT_INITIAL: QuicPacketType.INITIAL, R.PT_ZERO_RTT: QuicPacketType.ZERO_RTT, R.PT_HANDSHAKE: QuicPacketType.HANDSHAKE}
    i = 0
    for version in (R.V1, R.V2):
        for ptype in (R.PT_INITIAL, R.PT_ZERO_RTT, R.PT_HANDSHAKE):
            for dlen in range(0, 21):
                for slen in (0, 1, 8, 19, 20) if dlen % 3 else range(0, 21, 4):
                    for tlen in ((0, 1, 63, 64, 300) if ptype == R.PT_INITIAL else (0,)):
                        for pn_len in (1, 2, 3, 4):
                            i += 1
                            if i % nparts != part:
                                continue
                            for plen, lsize in ((0, None), (20, 2), (1200, None), (63 - 16 - pn_len, None), (64 - 16 - pn_len, 2)):
                                if plen < 0:
                                    continue
                                dcid = bytes(range(1, dlen + 1))
                                scid = bytes(range(101, 101 + slen))
                                token = bytes((7 * k) & 0xFF for k in range(tlen))
                                pn = (0x01020304 >> (8 * (4 - pn_len))) & ((1 << (8 * pn_len)) - 1)
                                hdr = R.build_long_header(version, ptype, dcid, scid, pn, pn_len, plen, token=token, length_size=lsize)
                                pkt = hdr + bytes(plen + 16)
                                case = {"kind": "header", "version": version, "ptype": ptype, "dcid": dcid, "scid": scid, "token_len": tlen, "pn_len": pn_len, "payload_len": plen}
                                ctx.case((version, ptype, dlen, slen, tlen, pn_len, plen), nontrivial=dlen in (0, 20) or slen in (0, 20) or tlen in (63, 64) or plen != 20, classes=["header:" + ptype])
                                buf = Buffer(data=pkt + b"\xee" * 5)
                                try:
                                    h = pull_quic_header(buf, host_cid_length=8)
                                except Exception as e:
                                    ctx.violation("header-decode-raised", "pull_quic_header raised %r on a reference-built %s header" % (e, ptype), case)
                                    continue
                                want = (version, PT[ptype], len(pkt), dcid, scid, token)
                                got = (h.version, h.packet_type, h.packet_length, h.destination_cid, h.source_cid, h.token)
                                if got != want or buf.tell() != len(hdr) - pn_len:
                                    ctx.violation("header-decode-differs", "pull_quic_header gave %r (pos %d), reference fields %r (pn offset %d)" % (got, buf.tell(), want, len(hdr) - pn_len), case)
                                fb = encode_long_header_first_byte(version, PT[ptype], pn_len - 1)
                                if fb != hdr[0]:
                                    ctx.violation("header-first-byte-differs", "encode_long_header_first_byte=%02x reference %02x" % (fb, hdr[0]), case)
                                # the reference walker finds the same packet boundary
                                info = R.split_datagram(pkt + bytes(3), 8)
                                if info[0].end != len(pkt) or info[0].dcid != dcid:
                                    ctx.violation("header-reference-walk-differs", "reference parser: %r" % (info[0],), case)
                            if ctx.want_sample():
                                ctx.sample(case)
    # Retry
    for version in (R.V1, R.V2):
        for dlen, slen, tlen, olen, unused in itertools.product((0, 1, 8, 20), (0, 8, 20), (0, 1, 16, 200), (0, 8, 20), (0, 0xF)):
            i += 1
            if i % nparts != part:
                continue
            dcid, scid, token, odcid = bytes(range(dlen)), bytes(range(50, 50 + slen)), bytes(range(tlen % 256))[:tlen] + bytes(max(0, tlen - 256)), bytes(range(200, 200 + olen))
            case = {"kind": "retry", "version": version, "dcid": dcid, "scid": scid, "token": token, "odcid": odcid, "unused": unused}
            ctx.case(("retry", version, dlen, slen, tlen, olen, unused), nontrivial=True, classes=["retry"])
            ref = R.build_retry(version, dcid, scid, token, odcid, unused)
            try:
                got = encode_quic_retry(version=version, source_cid=scid, destination_cid=dcid, original_destination_cid=odcid, retry_token=token, unused=unused)
            except Exception as e:
                ctx.violation("retry-encode-raised", "encode_quic_retry raised %r" % (e,), case)
                continue
            if got != ref:
                ctx.violation("retry-bytes-differ", "encode_quic_retry %s, reference %s" % (got.hex(), ref.hex()), case)
                continue
            if get_retry_integrity_tag(ref[:-16], odcid, version=version) != ref[-16:]:
                ctx.violation("retry-tag-differs", "get_retry_integrity_tag differs from the reference tag", case)
            h = pull_quic_header(Buffer(data=ref), host_cid_length=8)
            if (h.packet_type, h.version, h.destination_cid, h.source_cid, h.token, h.integrity_tag) != (QuicPacketType.RETRY, version, dcid, scid, token, ref[-16:]):
                ctx.violation("retry-decode-differs", "pull_quic_header(retry) = %r" % (h,), case)
    # Version Negotiation
    for dlen, slen, nver in itertools.product((0, 8, 20), (0, 8, 20), (0, 1, 2, 7)):
        i += 1
        if i % nparts != part:
            continue
        dcid, scid = bytes(range(dlen)), bytes(range(90, 90 + slen))
        versions = [0x1A2A3A4A, 1, R.V2, 0xFF00001D, 0xFFFFFFFF, 2, 3][:nver]
        case = {"kind": "vn", "dcid": dcid, "scid": scid, "versions": versions}
        ctx.case(("vn", dlen, slen, nver), nontrivial=True, classes=["version-negotiation"])
        got = encode_quic_version_negotiation(source_cid=scid, destination_cid=dcid, supported_versions=versions)
        ref = R.build_version_negotiation(dcid, scid, versions, first_byte=got[0])
        if got != ref or not got[0] & 0x80:
            ctx.violation("vn-bytes-differ", "encode_quic_version_negotiation %s, reference %s" % (got.hex(), ref.hex()), case)
        h = pull_quic_header(Buffer(data=ref), host_cid_length=8)
        if (h.packet_type, h.version, h.destination_cid, h.source_cid, h.supported_versions) != (QuicPacketType.VERSION_NEGOTIATION, 0, dcid, scid, versions):
            ctx.violation("vn-decode-differs", "pull_quic_header(vn) = %r" % (h,), case)
    ctx.extra["exhaustive"] = True


def builder_headers(ctx, examples, shard):
    """Packets built by QuicPacketBuilder are parsed by the reference walker and unprotected by the reference."""
    from hypothesis import strategies as st
    from aioquic.quic.crypto import CryptoPair
    from aioquic.quic.packet import QuicPacketType
    from aioquic.quic.packet_builder import QuicPacketBuilder
    from vlib import refquic as R
    from vlib.harness import run_hypothesis

    strat = st.tuples(
        st.sampled_from([R.V1, R.V2]),
        st.booleans(),
        st.integers(0, 20),
        st.integers(0, 20),
        st.one_of(st.integers(0, 300), st.sampled_from([0, 255, 256, 65535, 65536, (1 << 32) - 1, 1 << 32, (1 << 62) - 10])),
        st.lists(st.tuples(st.sampled_from(["initial", "handshake", "0rtt", "1rtt"]), st.integers(0, 1100)), min_size=1, max_size=3),
        st.binary(max_size=40),
        st.sampled_from([1200, 1280, 1350, 1452]),
    )

    def body(ctx, v):
        version, is_client, hl, pl, pn0, packets, token, mds = v
        host, peer = bytes(range(hl)), bytes(range(30, 30 + pl))
        odcid = b"\x83\x94\xc8\xf0\x3e\x51\x57\x08"
        pair = CryptoPair()
        pair.setup_initial(odcid, is_client=is_client, version=version)
        if not is_client:
            token = b""  # only clients hold a token (QuicConnection never gives one to a server-side builder)
        b = QuicPacketBuilder(host_cid=host, peer_cid=peer, version=version, is_client=is_client, packet_number=pn0, peer_token=token, max_datagram_size=mds)
        from aioquic.quic.packet import QuicFrameType
        from aioquic.quic.packet_builder import QuicPacketBuilderStop

        PT = {"initial": QuicPacketType.INITIAL, "handshake": QuicPacketType.HANDSHAKE, "0rtt": QuicPacketType.ZERO_RTT, "1rtt": QuicPacketType.ONE_RTT}
        built = []
        for kind, n in packets:
            try:
                b.start_packet(PT[kind], pair)
                if b.remaining_flight_space < n + 4:
                    n = max(0, b.remaining_flight_space - 4)
                buf = b.start_frame(QuicFrameType.PING, capacity=n + 1)
                buf.push_bytes(bytes([0x01] * n))  # PING frames as filler
                built.append(kind)
            except QuicPacketBuilderStop:
                break
            if kind == "1rtt":
                break
        datagrams, sent = b.flush()
        case = {"kind": "builder", "version": version, "is_client": is_client, "host_cid": host, "peer_cid": peer, "pn": pn0, "packets": packets, "token": token, "mds": mds}
        ctx.case((version, is_client, hl, pl, pn0, tuple(packets), token, mds), nontrivial=len(built) > 1 or pn0 > 255, classes=["builder"])
        ck, sk = R.initial_keys(version, odcid)
        keys = ck if is_client else sk
        seen = 0
        for d in datagrams:
            if len(d) > mds:
                ctx.violation("builder-datagram-too-large", "datagram of %d bytes for max_datagram_size %d" % (len(d), mds), case)
            try:
                infos = R.split_datagram(d, pl)
            except R.ParseError as e:
                ctx.violation("builder-output-unparseable", "reference parser rejects builder output: %s" % e, case)
                return
            for info in infos:
                sp = sent[seen]
                seen += 1
                if info.ptype != {"initial": R.PT_INITIAL, "handshake": R.PT_HANDSHAKE, "0rtt": R.PT_ZERO_RTT, "1rtt": R.PT_ONE_RTT}[built[seen - 1]]:
                    ctx.violation("builder-packet-type-differs", "reference sees %s for packet %d (%s)" % (info.ptype, seen - 1, built[seen - 1]), case)
                if info.dcid != peer or (info.is_long and info.scid != host):
                    ctx.violation("builder-cids-differ", "reference sees dcid=%s scid=%s" % (info.dcid.hex(), (info.scid or b"").hex()), case)
                if info.ptype == R.PT_INITIAL and info.token != (token if is_client else b""):
                    ctx.violation("builder-token-differs", "reference sees token %r" % (info.token,), case)
                try:
                    hdr, pn, payload = R.unprotect(keys, d[info.start : info.end], info.pn_offset_rel, sp.packet_number)
                except R.AuthError as e:
                    ctx.violation("builder-packet-not-recoverable", "reference cannot unprotect packet %d of the builder output: %s" % (seen - 1, e), case)
                    continue
                if pn != sp.packet_number:
                    ctx.violation("builder-packet-number-differs", "reference decodes pn %d, builder says %d" % (pn, sp.packet_number), case)
                try:
                    R.parse_frames(payload)
                except R.ParseError as e:
                    ctx.violation("builder-payload-unparseable", "reference frame parser: %s" % e, case)
        if ctx.want_sample():
            ctx.sample({k: case[k] for k in ("version", "is_client", "pn", "packets", "mds")})

    run_hypothesis(ctx, body, strat, examples, shard=shard)


# ---------------------------------------------------------------- transport parameters

TP_ORDER = [
    (0x00, "original_destination_connection_id", "bytes"), (0x01, "max_idle_timeout", "int"), (0x02, "stateless_reset_token", "bytes"),
    (0x03, "max_udp_payload_size", "int"), (0x04, "initial_max_data", "int"), (0x05, "initial_max_stream_data_bidi_local", "int"),
    (0x06, "initial_max_stream_data_bidi_remote", "int"), (0x07, "initial_max_stream_data_uni", "int"), (0x08, "initial_max_streams_bidi", "int"),
    (0x09, "initial_max_streams_uni", "int"), (0x0A, "ack_delay_exponent", "int"), (0x0B, "max_ack_delay", "int"),
    (0x0C, "disable_active_migration", "bool"), (0x0D, "preferred_address", "pa"), (0x0E, "active_connection_id_limit", "int"),
    (0x0F, "initial_source_connection_id", "bytes"), (0x10, "retry_source_connection_id", "bytes"), (0x11, "version_information", "vi"),
    (0x20, "max_datagram_frame_size", "int"), (0x0C37, "quantum_readiness", "bytes"),
]


def transport_params(ctx, examples, shard):
    from hypothesis import strategies as st
    from aioquic.buffer import Buffer
    from aioquic.quic.packet import (
        QuicPreferredAddress,
        QuicTransportParameters,
        QuicVersionInformation,
        pull_quic_transport_parameters,
        push_quic_transport_parameters,
    )
    from vlib import refquic as R
    from vlib.harness import run_hypothesis

    V = (1 << 62) - 1
    intv = st.one_of(st.sampled_from([0, 1, 2, 63, 64, 16383, 16384, (1 << 30) - 1, 1 << 30, V]), st.integers(0, V))
    bytesv = st.one_of(st.binary(max_size=20), st.sampled_from([b"", bytes(16), bytes(range(20))]))
    pa = st.tuples(
        st.one_of(st.none(), st.tuples(st.sampled_from(["1.2.3.4", "255.255.255.255", "10.0.0.1"]), st.integers(0, 65535))),
        st.one_of(st.none(), st.tuples(st.sampled_from(["2001:db8::1", "::1", "ffff:ffff:ffff:ffff:ffff:ffff:ffff:ffff"]), st.integers(0, 65535))),
        st.binary(max_size=20),
        st.binary(min_size=16, max_size=16),
    )
    vi = st.tuples(st.integers(1, 0xFFFFFFFF), st.lists(st.integers(1, 0xFFFFFFFF), max_size=5))

    def val(kind):
        return {"int": intv, "bytes": bytesv, "bool": st.just(True), "pa": pa, "vi": vi}[kind]

    entry = st.one_of(*[st.tuples(st.just(i), val(k)) for i, (_, _, k) in enumerate(TP_ORDER)])
    strat = st.tuples(st.lists(entry, max_size=20, unique_by=lambda e: e[0]), st.lists(st.tuples(st.sampled_from([0x12, 0x1F, 0x21, 0x3F, 0x40, 0x2AB2, 0x3FFF, 0x4000, V]), st.binary(max_size=10)), max_size=3, unique_by=lambda e: e[0]))

    def body(ctx, v):
        entries, unknown = v
        entries = sorted(entries, key=lambda e: e[0])
        params = QuicTransportParameters()
        ref_list = []
        for idx, value in entries:
            pid, name, kind = TP_ORDER[idx]
            if kind == "pa":
                v4, v6, cid, tok = value
                setattr(params, name, QuicPreferredAddress(ipv4_address=v4, ipv6_address=v6, connection_id=cid, stateless_reset_token=tok))
                import ipaddress

                raw = (ipaddress.IPv4Address(v4[0]).packed + v4[1].to_bytes(2, "big") if v4 else bytes(6)) + (ipaddress.IPv6Address(v6[0]).packed + v6[1].to_bytes(2, "big") if v6 else bytes(18)) + bytes([len(cid)]) + cid + tok
                ref_list.append((pid, raw))
            elif kind == "vi":
                setattr(params, name, QuicVersionInformation(chosen_version=value[0], available_versions=list(value[1])))
                ref_list.append((pid, b"".join(x.to_bytes(4, "big") for x in [value[0]] + list(value[1]))))
            elif kind == "int":
                setattr(params, name, value)
                ref_list.append((pid, R.enc_varint(value)))
            elif kind == "bool":
                setattr(params, name, True)
                ref_list.append((pid, b""))
            else:
                setattr(params, name, value)
                ref_list.append((pid, value))
        case = {"kind": "tp", "entries": [(TP_ORDER[i][1], val) for i, val in entries], "unknown": unknown}
        nt = len(entries) >= 3 or any(TP_ORDER[i][2] in ("pa", "vi") for i, _ in entries)
        ctx.case(("tp", tuple(entries), tuple(unknown)), nontrivial=nt, classes=["tp"])
        buf = Buffer(capacity=4096)
        try:
            push_quic_transport_parameters(buf, params)
        except Exception as e:
            ctx.violation("tp-encode-raised", "push_quic_transport_parameters raised %r" % (e,), case)
            return
        enc = buf.data
        ref = R.encode_transport_parameters(ref_list)
        if enc != ref:
            ctx.violation("tp-bytes-differ", "aioquic %s, reference %s" % (enc.hex(), ref.hex()), case)
            return
        # decode own output (+ unknown parameters appended by the reference encoder, which must be skipped)
        withunk = ref + R.encode_transport_parameters(list(unknown))
        for data in (enc, withunk):
            try:
                got = pull_quic_transport_parameters(Buffer(data=data))
            except Exception as e:
                ctx.violation("tp-decode-raised", "pull_quic_transport_parameters raised %r on %s" % (e, data.hex()), case)
                return
            if got != params:
                ctx.violation("tp-roundtrip-differs", "decoded %r, pushed %r" % (got, params), case)
                return
        # reference decodes the same raw values
        rd = R.decode_transport_parameters(enc)
        if [(i, bytes(b)) for i, b in rd] != [(i, bytes(b)) for i, b in ref_list]:
            ctx.violation("tp-reference-decode-differs", "reference decodes %r" % (rd,), case)
        if ctx.want_sample():
            ctx.sample(case)

    run_hypothesis(ctx, body, strat, examples, shard=shard)


# ---------------------------------------------------------------- TLS messages

KNOWN_EXT = {0, 10, 13, 16, 41, 42, 43, 45, 51}


def tls_strategies():
    from hypothesis import strategies as st
    import aioquic.tls as T

    u16 = st.one_of(st.sampled_from([0, 1, 0x0303, 0x0304, 0x1301, 0x1302, 0x1303, 0xFFFF, 0x0A0A]), st.integers(0, 0xFFFF))
    u16l = st.lists(u16, min_size=1, max_size=6)
    u8l = st.lists(st.integers(0, 255), min_size=1, max_size=4)
    ascii_s = st.text(alphabet="abcdefghijklmnopqrstuvwxyz0123456789-.", min_size=1, max_size=20)
    unk_ext = st.lists(st.tuples(st.sampled_from([1, 5, 0x39, 0xFFA5, 0x0A0A, 57, 44, 47, 65535]), st.binary(max_size=30)), max_size=3, unique_by=lambda e: e[0])
    key_share = st.tuples(st.sampled_from([23, 24, 29, 30, 0x0A0A]), st.binary(min_size=1, max_size=70))
    psk = st.one_of(st.none(), st.builds(T.OfferedPsks, identities=st.lists(st.tuples(st.binary(min_size=1, max_size=40), st.integers(0, 0xFFFFFFFF)), min_size=1, max_size=2), binders=st.lists(st.binary(min_size=32, max_size=48), min_size=1, max_size=2)))
    ch = st.builds(
        T.ClientHello,
        random=st.binary(min_size=32, max_size=32),
        legacy_session_id=st.binary(max_size=32),
        cipher_suites=u16l,
        legacy_compression_methods=u8l,
        alpn_protocols=st.one_of(st.none(), st.lists(ascii_s, min_size=1, max_size=3)),
        early_data=st.booleans(),
        key_share=st.lists(key_share, min_size=0, max_size=3),
        pre_shared_key=psk,
        psk_key_exchange_modes=st.one_of(st.none(), u8l),
        server_name=st.one_of(st.none(), ascii_s),
        signature_algorithms=u16l,
        supported_groups=u16l,
        supported_versions=u16l,
        other_extensions=unk_ext,
    )
    sh = st.builds(
        T.ServerHello,
        random=st.binary(min_size=32, max_size=32),
        legacy_session_id=st.binary(max_size=32),
        cipher_suite=u16,
        compression_method=st.integers(0, 255),
        key_share=st.one_of(st.none(), key_share),
        pre_shared_key=st.one_of(st.none(), st.sampled_from([0, 0, 1, 0xFFFF]), st.integers(0, 0xFFFF)),  # 0 = present but falsy
        supported_version=st.one_of(st.none(), u16),
        other_extensions=unk_ext,
    )
    ee = st.builds(T.EncryptedExtensions, alpn_protocol=st.one_of(st.none(), ascii_s), early_data=st.booleans(), other_extensions=unk_ext)
    cert_ext = st.lists(st.tuples(st.sampled_from([5, 18, 0xFFA5]), st.binary(max_size=6)), max_size=2).map(lambda xs: b"".join(t.to_bytes(2, "big") + len(b).to_bytes(2, "big") + b for t, b in xs))
    cert = st.builds(T.Certificate, request_context=st.binary(max_size=8), certificates=st.lists(st.tuples(st.binary(min_size=1, max_size=300), cert_ext), max_size=3))
    cr = st.builds(T.CertificateRequest, request_context=st.binary(max_size=8), signature_algorithms=u16l, other_extensions=unk_ext)
    cv = st.builds(T.CertificateVerify, algorithm=u16, signature=st.binary(max_size=300))
    fin = st.builds(T.Finished, verify_data=st.binary(max_size=48))
    nst = st.builds(
        T.NewSessionTicket,
        ticket_lifetime=st.one_of(st.sampled_from([0, 1, 0xFFFFFFFF]), st.integers(0, 0xFFFFFFFF)),
        ticket_age_add=st.one_of(st.sampled_from([0, 1, 0xFFFFFFFF]), st.integers(0, 0xFFFFFFFF)),
        ticket_nonce=st.binary(max_size=8),
        ticket=st.binary(min_size=1, max_size=100),
        max_early_data_size=st.one_of(st.none(), st.sampled_from([0, 0, 1, 0xFFFFFFFF]), st.integers(0, 0xFFFFFFFF)),  # 0 = present but falsy
        other_extensions=unk_ext,
    )
    return {"client_hello": ch, "server_hello": sh, "encrypted_extensions": ee, "certificate": cert, "certificate_request": cr, "certificate_verify": cv, "finished": fin, "new_session_ticket": nst}


def tls_codec(name):
    import aioquic.tls as T

    return getattr(T, "push_" + name), getattr(T, "pull_" + name)


def to_ref(name, m):
    """Reference-side description (dict for vlib.reftls.encode_message) of an aioquic message, extensions in aioquic's emission order."""
    from vlib import reftls as L

    def a(s):
        return s.encode("ascii")

    if name == "client_hello":
        ext = [(51, L.build_key_share(m.key_share)), (43, L.build_supported_versions(m.supported_versions)), (13, L.build_signature_algorithms(m.signature_algorithms)), (10, L.build_supported_groups(m.supported_groups))]
        if m.psk_key_exchange_modes is not None:
            ext.append((45, L.build_psk_key_exchange_modes(m.psk_key_exchange_modes)))
        if m.server_name is not None:
            ext.append((0, L.build_server_name(m.server_name)))
        if m.alpn_protocols is not None:
            ext.append((16, L.build_alpn([a(p) for p in m.alpn_protocols])))
        ext += list(m.other_extensions)
        if m.early_data:
            ext.append((42, L.build_early_data()))
        if m.pre_shared_key is not None:
            ext.append((41, L.build_pre_shared_key(list(m.pre_shared_key.identities), list(m.pre_shared_key.binders))))
        return {"type": 1, "legacy_version": 0x0303, "random": m.random, "legacy_session_id": m.legacy_session_id, "cipher_suites": list(m.cipher_suites), "compression_methods": list(m.legacy_compression_methods), "extensions": ext}
    if name == "server_hello":
        ext = []
        if m.supported_version is not None:
            ext.append((43, L.build_supported_versions(m.supported_version, server=True)))
        if m.key_share is not None:
            ext.append((51, L.build_key_share(m.key_share, server=True)))
        if m.pre_shared_key is not None:
            ext.append((41, L.build_pre_shared_key(selected=m.pre_shared_key)))
        ext += list(m.other_extensions)
        return {"type": 2, "legacy_version": 0x0303, "random": m.random, "legacy_session_id_echo": m.legacy_session_id, "cipher_suite": m.cipher_suite, "compression_method": m.compression_method, "extensions": ext}
    if name == "encrypted_extensions":
        ext = []
        if m.alpn_protocol is not None:
            ext.append((16, L.build_alpn([a(m.alpn_protocol)])))
        if m.early_data:
            ext.append((42, L.build_early_data()))
        ext += list(m.other_extensions)
        return {"type": 8, "extensions": ext}
    if name == "certificate":
        return {"type": 11, "request_context": m.request_context, "certificates": [(d, L.parse_extensions(e) if e else []) for d, e in m.certificates]}
    if name == "certificate_request":
        return {"type": 13, "request_context": m.request_context, "extensions": [(13, L.build_signature_algorithms(m.signature_algorithms))] + list(m.other_extensions)}
    if name == "certificate_verify":
        return {"type": 15, "algorithm": m.algorithm, "signature": m.signature}
    if name == "finished":
        return {"type": 20, "verify_data": m.verify_data}
    if name == "new_session_ticket":
        ext = []
        if m.max_early_data_size is not None:
            ext.append((42, L.build_early_data(m.max_early_data_size)))
        ext += list(m.other_extensions)
        return {"type": 4, "ticket_lifetime": m.ticket_lifetime, "ticket_age_add": m.ticket_age_add, "ticket_nonce": m.ticket_nonce, "ticket": m.ticket, "extensions": ext}
    raise KeyError(name)


TLS_ERRORS = None


def tls_errors():
    global TLS_ERRORS
    if TLS_ERRORS is None:
        import aioquic.tls as T

        TLS_ERRORS = (ValueError, T.Alert)
    return TLS_ERRORS


def tls_messages(ctx, examples, shard):
    from hypothesis import strategies as st
    from aioquic.buffer import Buffer
    from vlib import reftls as L
    from vlib.harness import run_hypothesis

    S = tls_strategies()
    names = sorted(S)
    strat = st.sampled_from(names).flatmap(lambda n: st.tuples(st.just(n), S[n]))

    def body(ctx, v):
        name, m = v
        push, pull = tls_codec(name)
        case = {"kind": "tls", "message": name, "value": repr(m)}
        nopt = sum(1 for k, x in vars(m).items() if x not in (None, False, [], b""))
        buf = Buffer(capacity=16384)
        try:
            push(buf, m)
        except Exception as e:
            ctx.violation("tls-encode-raised", "push_%s raised %r" % (name, e), case)
            return
        enc = buf.data
        case["bytes"] = enc
        ctx.case((name, enc), nontrivial=nopt >= 5, classes=["tls:" + name])
        # independent encoder: same bytes
        try:
            ref = L.encode_message(to_ref(name, m))
        except L.EncodeError as e:
            ref = None
            ctx.cls("tls:reference-encoder-declined")
        if ref is not None and ref != enc:
            ctx.violation("tls-bytes-differ-" + name, "push_%s wrote %s, reference encoder %s" % (name, enc.hex(), ref.hex()), case)
            return
        # round trip, with bytes after the message that must not be touched
        rb = Buffer(data=enc + b"\x16\x03\x03")
        try:
            got = pull(rb)
        except Exception as e:
            ctx.violation("tls-decode-raised-" + name, "pull_%s raised %r on its own encoding %s" % (name, e, enc.hex()), case)
            return
        if got != m:
            ctx.violation("tls-roundtrip-differs-" + name, "pull(push(m)) = %r, m = %r" % (got, m), case)
        if rb.tell() != len(enc):
            ctx.violation("tls-decode-consumed-wrong-length", "pull_%s consumed %d of %d bytes" % (name, rb.tell(), len(enc)), case)
        # independent decoder agrees structurally
        try:
            d = L.decode_message(enc, strict=False)
        except L.ParseError as e:
            ctx.violation("tls-reference-decode-rejects-" + name, "reference decoder rejects aioquic's encoding: %s" % e, case)
            return
        if L.encode_message(d) != enc:
            ctx.violation("tls-reference-reencode-differs", "reference decode/encode of aioquic's %s is not the identity" % name, case)
        # cross: extensions in a different (reversed) order from the reference encoder decode to the same value
        rd = to_ref(name, m)
        if "extensions" in rd and len(rd["extensions"]) > 1 and name != "client_hello":
            rd["extensions"] = list(reversed(rd["extensions"]))
            try:
                alt = L.encode_message(rd)
                got2 = pull(Buffer(data=alt))
                if hasattr(got2, "other_extensions"):
                    got2.other_extensions = list(reversed(got2.other_extensions))
                if got2 != m:
                    ctx.violation("tls-cross-decode-differs-" + name, "pull_%s of the reference encoding with reordered extensions = %r, expected %r" % (name, got2, m), case)
            except L.EncodeError:
                pass
            except Exception as e:
                ctx.violation("tls-cross-decode-raised-" + name, "pull_%s raised %r on a reference encoding %s" % (name, e, alt.hex()), case)
        # understated extension length: a decoder that honours declared lengths must refuse
        understate_extension(ctx, name, m, enc, pull, case)
        if ctx.want_sample():
            ctx.sample({"message": name, "bytes": enc[:80]})

    run_hypothesis(ctx, body, strat, examples, shard=shard)


def ext_block_offset(name, enc):
    """offset of the 2-byte extensions length inside a message produced by the reference/aioquic encoder"""
    p = 4
    if name == "client_hello":
        p += 2 + 32
        p += 1 + enc[p]
        p += 2 + int.from_bytes(enc[p : p + 2], "big")
        p += 1 + enc[p]
        return p
    if name == "server_hello":
        p += 2 + 32
        p += 1 + enc[p]
        p += 3
        return p
    if name == "encrypted_extensions":
        return p
    if name == "certificate_request":
        return p + 1 + enc[p]
    if name == "new_session_ticket":
        p += 8
        p += 1 + enc[p]
        p += 2 + int.from_bytes(enc[p : p + 2], "big")
        return p
    return None


def understate_extension(ctx, name, m, enc, pull, case):
    """Declare one known extension shorter than its content (the bytes stay in place): reading its content then
    necessarily runs past the declared end of the extension."""
    from aioquic.buffer import Buffer

    off = ext_block_offset(name, enc)
    if off is None:
        return
    total = int.from_bytes(enc[off : off + 2], "big")
    p = off + 2
    end = p + total
    while p + 4 <= end:
        et = int.from_bytes(enc[p : p + 2], "big")
        el = int.from_bytes(enc[p + 2 : p + 4], "big")
        if et in KNOWN_EXT and el >= 1 and not (name == "certificate_request" and et != 13) and not (name == "new_session_ticket" and et != 42) and not (name == "encrypted_extensions" and et not in (16,)) and not (name == "server_hello" and et not in (43, 51, 41)):
            for k in (1, el):
                mut = bytearray(enc)
                mut[p + 2 : p + 4] = (el - k).to_bytes(2, "big")
                ctx.case((name, "understate", bytes(mut)), nontrivial=True, classes=["tls:understated-extension-length"])
                try:
                    got = pull(Buffer(data=bytes(mut)))
                except tls_errors():
                    continue
                except Exception as e:
                    ctx.violation("tls-decode-undocumented-error", "pull_%s raised %r" % (name, e), dict(case, mutated=bytes(mut)))
                    continue
                ctx.violation(
                    "tls-extension-read-past-declared-length",
                    "pull_%s accepted a message in which extension 0x%04x declares %d bytes but its %d-byte content was consumed (read past the declared length of the enclosing extension)" % (name, et, el - k, el),
                    dict(case, mutated=bytes(mut)),
                )
                return
        p += 4 + el


# ---------------------------------------------------------------- arbitrary bytes


def arbitrary(ctx, examples, shard):
    from hypothesis import strategies as st
    from aioquic.buffer import Buffer
    from aioquic.quic.packet import pull_ack_frame, pull_quic_header, pull_quic_transport_parameters, push_ack_frame, push_quic_transport_parameters
    from vlib.harness import run_hypothesis

    S = tls_strategies()
    names = sorted(S)

    def mutate(data, ops):
        b = bytearray(data)
        for kind, pos, val in ops:
            if not b:
                break
            pos %= len(b)
            if kind == 0:
                b[pos] ^= 1 << (val % 8)
            elif kind == 1:
                b[pos] = val
            elif kind == 2:
                del b[pos:]
            elif kind == 3:
                b[pos:pos] = bytes([val])
            else:
                del b[pos : pos + 1]
        return bytes(b)

    ops = st.lists(st.tuples(st.integers(0, 4), st.integers(0, 4000), st.integers(0, 255)), min_size=1, max_size=3)
    tls_case = st.sampled_from(names).flatmap(lambda n: st.tuples(st.just("tls:" + n), S[n], ops))
    strat = st.one_of(
        tls_case,
        st.tuples(st.just("tp"), st.binary(max_size=60), st.just(None)),
        st.tuples(st.just("ack"), st.binary(max_size=24), st.just(None)),
        st.tuples(st.just("header"), st.binary(max_size=60), st.integers(0, 20)),
        st.tuples(st.just("tlsraw"), st.binary(max_size=50), st.sampled_from(names)),
    )

    def body(ctx, v):
        kind = v[0]
        if kind.startswith("tls:"):
            name = kind[4:]
            push, pull = tls_codec(name)
            b0 = Buffer(capacity=16384)
            push(b0, v[1])
            data = mutate(b0.data, v[2])
            if not data or data[0] != b0.data[0]:
                return  # pull_* is only called by the library after it looked at the type byte
            decode_twice(ctx, "tls-" + name, data, pull, push, tls_errors(), 16384)
        elif kind == "tlsraw":
            name = v[2]
            push, pull = tls_codec(name)
            T = {"client_hello": 1, "server_hello": 2, "new_session_ticket": 4, "encrypted_extensions": 8, "certificate": 11, "certificate_request": 13, "certificate_verify": 15, "finished": 20}[name]
            data = bytes([T]) + len(v[1]).to_bytes(3, "big") + v[1]
            decode_twice(ctx, "tls-" + name, data, pull, push, tls_errors(), 16384)
        elif kind == "tp":
            decode_twice(ctx, "tp", v[1], pull_quic_transport_parameters, push_quic_transport_parameters, (ValueError,), 4096)
        elif kind == "ack":
            def pull(buf):
                return pull_ack_frame(buf)

            def push(buf, val):
                push_ack_frame(buf, val[0], val[1])

            decode_twice(ctx, "ack", v[1], pull, push, (ValueError, AssertionError), 4096, suffix_ok=True)
        else:
            data = v[1]
            try:
                h = pull_quic_header(Buffer(data=data), host_cid_length=v[2])
                ok = True
            except ValueError:
                ok = False
            except Exception as e:
                ctx.violation("header-decode-undocumented-error", "pull_quic_header(%s) raised %r" % (data.hex(), e), {"kind": "bytes", "codec": "header", "data": data, "cid_len": v[2]})
                return
            ctx.case(("hdr", data, v[2]), nontrivial=ok, classes=["bytes:header"])
            if ok and h.packet_length > len(data):
                ctx.violation("header-length-beyond-input", "packet_length %d > %d bytes given" % (h.packet_length, len(data)), {"kind": "bytes", "codec": "header", "data": data, "cid_len": v[2]})

    run_hypothesis(ctx, body, strat, examples, shard=shard)


def decode_twice(ctx, codec, data, pull, push, errors, cap, suffix_ok=False):
    from aioquic.buffer import Buffer

    case = {"kind": "bytes", "codec": codec, "data": data}
    buf = Buffer(data=data)
    try:
        v1 = pull(buf)
    except errors:
        ctx.case((codec, data), nontrivial=False, classes=["bytes:" + codec + ":rejected"])
        return
    except Exception as e:
        ctx.case((codec, data), nontrivial=False, classes=["bytes:" + codec + ":undocumented-error"])
        ctx.violation("decode-undocumented-error-" + codec + "-" + type(e).__name__, "decoding %s raised %r instead of a documented parse error" % (data.hex(), e), case)
        return
    used = buf.tell()
    ctx.case((codec, data), nontrivial=True, classes=["bytes:" + codec + ":accepted"])
    # the result must not depend on bytes after what was consumed
    b2 = Buffer(data=data[:used] + b"\xa5\x5a\xa5")
    try:
        v1b = pull(b2)
        if not suffix_ok and codec.startswith("tls") and b2.tell() != used:
            ctx.violation("decode-depends-on-suffix-" + codec, "consumed %d bytes, with other trailing bytes %d" % (used, b2.tell()), case)
        if v1b != v1:
            ctx.violation("decode-depends-on-suffix-" + codec, "value changes with bytes after the consumed region", case)
    except errors:
        if codec != "tp":
            ctx.violation("decode-depends-on-suffix-" + codec, "decoding raises when unrelated bytes follow the consumed region", case)
    if codec.startswith("tls"):
        declared = 4 + int.from_bytes(data[1:4], "big")
        if used > declared:
            ctx.violation("decode-read-past-declared-length-" + codec, "consumed %d bytes of a message declaring %d" % (used, declared), case)
    out = Buffer(capacity=max(cap, 2 * len(data) + 64))
    try:
        push(out, v1)
    except Exception as e:
        # values such as non-minimal or out-of-range fields may not be re-encodable; that is not a decode defect
        ctx.cls("bytes:" + codec + ":not-reencodable")
        return
    try:
        v2 = pull(Buffer(data=out.data))
    except Exception as e:
        ctx.violation("reencoded-value-not-decodable-" + codec, "decode(encode(decode(b))) raised %r; b=%s" % (e, data.hex()), case)
        return
    if v2 != v1:
        ctx.violation("reencode-not-equivalent-" + codec, "decode(encode(v)) = %r differs from v = %r" % (v2, v1), case)



def fuzz_task(ctx, runs, seconds, shard):
    """coverage-guided byte-level fuzzing of the decoders (atheris / libFuzzer, vlib/fuzz_codec.py) under the decode_twice oracle"""
    import glob
    import os
    import re
    import shutil
    import subprocess
    import sys
    import tempfile

    from vlib import build, fuzz_codec
    from vlib.harness import VERIF

    if not os.path.isdir(os.path.join(VERIF, ".deps", "atheris")):
        ctx.cls("fuzz:atheris-not-installed")
        ctx.extra["skipped"] = "atheris is not installed (setup.sh installs it from the offline wheelhouse)"
        return
    root = build.shadow("plain", os.environ.get("VERIF_REPO"))
    out = os.path.join(os.environ.get("VERIF_OUT") or os.path.join(VERIF, "out"), "fuzz")
    os.makedirs(out, exist_ok=True)
    work = tempfile.mkdtemp(prefix="codec-%d-" % shard, dir=out)
    corpus = os.path.join(work, "corpus")
    os.makedirs(corpus)
    try:
        # seeds: one valid message per TLS codec (from the strategies' simplest example), a transport parameter block, an ACK frame, two headers
        from aioquic.buffer import Buffer

        S = tls_strategies()
        n = 0
        for i, (name, t) in enumerate(fuzz_codec.TLS):
            try:
                push, pull = tls_codec(name)
                b = Buffer(capacity=16384)
                from hypothesis import strategies as st  # noqa

                push(b, S[name].example() if False else _simplest(S[name]))
                body = b.data[4:]
                for sel in (i, i + len(fuzz_codec.TLS)):
                    with open(os.path.join(corpus, "seed%d" % n), "wb") as f:
                        f.write(bytes([sel]) + (body if sel == i else b.data[1:]))
                    n += 1
            except Exception:  # noqa - a seed less
                pass
        extra = [bytes([2 * len(fuzz_codec.TLS)]) + bytes.fromhex("0104800075300408ffffffffffffffff"), bytes([2 * len(fuzz_codec.TLS) + 1]) + bytes([5, 0, 1, 2, 1, 0]), bytes([2 * len(fuzz_codec.TLS) + 2, 8]) + bytes.fromhex("c000000001088394c8f03e5157080000449e00000002"), bytes([2 * len(fuzz_codec.TLS) + 2, 8]) + bytes.fromhex("408394c8f03e5157081234")]
        for sd in extra:
            with open(os.path.join(corpus, "seed%d" % n), "wb") as f:
                f.write(sd)
            n += 1
        cmd = [sys.executable, "-B", os.path.join(VERIF, "vlib", "fuzz_codec.py"), root, corpus, "-seed=%d" % (ctx.seed * 137 + shard + 1), "-max_len=600", "-print_final_stats=1"]
        cmd += ["-runs=%d" % runs] if runs else ["-max_total_time=%d" % seconds]
        env = dict(os.environ, PYTHONHASHSEED="0")
        p = subprocess.run(cmd, cwd=work, env=env, stdout=subprocess.PIPE, stderr=subprocess.STDOUT, timeout=(seconds or 60) + 600)
        text = p.stdout.decode("utf-8", "replace")
        m = re.search(r"stat::number_of_executed_units:\s*(\d+)", text) or re.search(r"Done (\d+) runs", text)
        nexec = int(m.group(1)) if m else 0
        ncorp = len(os.listdir(corpus))
        ctx.evaluations += nexec
        for fn in sorted(os.listdir(corpus))[:5000]:
            ctx.nontrivial.add(hash(fn) & 0xFFFFFFFFFFFF)
        ctx.classes["fuzz:executions"] += nexec
        ctx.classes["fuzz:coverage-increasing-inputs"] += ncorp
        ctx.extra["fuzz"] = {"executions": nexec, "corpus": ncorp, "exit": p.returncode}
        for fn in sorted(os.listdir(corpus))[:3]:
            with open(os.path.join(corpus, fn), "rb") as f:
                d = fuzz_codec.decode(f.read())
            if d is not None:
                ctx.sample({"kind": "fuzz", "codec": d[0], "data": d[1][:64]})
        crashes = sorted(glob.glob(os.path.join(work, "crash-*")))
        if crashes:
            with open(crashes[0], "rb") as f:
                data = f.read()
            d = fuzz_codec.decode(data)
            vm = re.search(r"FuzzViolation: ([\w-]+): (.*)", text)
            em = re.search(r"=== Uncaught Python exception: ===\n(\w+)", text)
            if vm:
                sig, detail = vm.group(1), vm.group(2)[:400]
            else:
                sig, detail = "decode-undocumented-error-%s-%s" % (d[0] if d else "?", em.group(1) if em else "Exception"), text[-1200:]
            ctx.violation(sig, "coverage-guided fuzzing of the %s decoder: %s" % (d[0] if d else "?", detail), {"kind": "fuzz", "data": data}, soft=True)
        elif p.returncode != 0:
            raise RuntimeError("harness: the fuzzer exited %d without a crash file:\n%s" % (p.returncode, text[-2000:]))
    finally:
        shutil.rmtree(work, ignore_errors=True)


def _simplest(strategy):
    """the minimal example of a strategy, deterministically"""
    from hypothesis import find

    return find(strategy, lambda x: True)


# ---------------------------------------------------------------- replay / plan


def replay(ctx, case):
    k = case.get("kind")
    ctx.case(None, True)
    if k == "fuzz":
        from vlib import fuzz_codec

        d = fuzz_codec.decode(bytes(case["data"]))
        if d is not None:
            try:
                fuzz_codec.run_one(*d)
            except fuzz_codec.FuzzViolation as e:
                sig, _, text = str(e).partition(": ")
                ctx.violation(sig, text, case)
            except Exception as e:  # noqa
                ctx.violation("decode-undocumented-error-%s-%s" % (d[0], type(e).__name__), repr(e), case)
        return
    if k == "ack":
        ack_check(ctx, [tuple(x) for x in case["ranges"]], case["delay"], case.get("max_ranges"))
    elif k == "bytes":
        import aioquic.quic.packet as P
        from aioquic.buffer import Buffer

        codec = case["codec"]
        if codec.startswith("tls-"):
            push, pull = tls_codec(codec[4:])
            decode_twice(ctx, codec, case["data"], pull, push, tls_errors(), 16384)
        elif codec == "tp":
            decode_twice(ctx, "tp", case["data"], P.pull_quic_transport_parameters, P.push_quic_transport_parameters, (ValueError,), 4096)
        elif codec == "header":
            try:
                P.pull_quic_header(Buffer(data=case["data"]), host_cid_length=case["cid_len"])
            except ValueError:
                pass
            except Exception as e:
                ctx.violation("header-decode-undocumented-error", "raised %r" % (e,), case)
    elif k == "tls" and "mutated" in case:
        push, pull = tls_codec(case["message"])
        from aioquic.buffer import Buffer

        try:
            pull(Buffer(data=case["mutated"]))
        except tls_errors():
            return
        ctx.violation("tls-extension-read-past-declared-length", "accepted a message with an understated extension length", case)
    elif k == "int":
        ints(ctx, 0)
    else:
        # the enumerations are cheap: re-run the family
        if k in ("header", "retry", "vn"):
            headers(ctx, 0, 1)


def plan(tier, seed):
    t = []
    q = tier == "quick"
    t.append(("ints", {"fn": "ints", "extra": 300 if q else 20000}))
    U = 12 if q else 14
    for p in range(2):
        t.append(("acks-exhaustive-U%d-%d" % (U, p), {"fn": "acks", "U": U, "part": p, "nparts": 2}))
    t.append(("acks-random", {"fn": "acksr", "examples": 1500 if q else 40000, "shard": 0}))
    for p in range(3):
        t.append(("headers-%d" % p, {"fn": "headers", "part": p, "nparts": 3}))
    t.append(("builder-headers", {"fn": "builder", "examples": 600 if q else 20000, "shard": 0}))
    t.append(("transport-params", {"fn": "tp", "examples": 1500 if q else 40000, "shard": 0}))
    for s in range(3):
        t.append(("tls-messages-%d" % s, {"fn": "tls", "examples": 700 if q else 25000, "shard": s}))
    for s in range(3):
        t.append(("arbitrary-bytes-%d" % s, {"fn": "arb", "examples": 3000 if q else 80000, "shard": s}))
    if q:
        t.append(("atheris-codec-0", {"fn": "fuzz", "runs": 60000, "seconds": 0, "shard": 0}))
    else:
        for sh in range(4):
            t.append(("atheris-codec-%d" % sh, {"fn": "fuzz", "runs": 0, "seconds": 600, "shard": sh}))
    return t


def run_task(ctx, name, fn, **kw):
    if fn == "fuzz":
        return fuzz_task(ctx, kw["runs"], kw["seconds"], kw["shard"])
    if fn == "ints":
        ints(ctx, kw["extra"])
    elif fn == "acks":
        acks_exhaustive(ctx, kw["U"], kw["part"], kw["nparts"])
    elif fn == "acksr":
        acks_random(ctx, kw["examples"], kw["shard"])
    elif fn == "headers":
        headers(ctx, kw["part"], kw["nparts"])
    elif fn == "builder":
        builder_headers(ctx, kw["examples"], kw["shard"])
    elif fn == "tp":
        transport_params(ctx, kw["examples"], kw["shard"])
    elif fn == "tls":
        tls_messages(ctx, kw["examples"], kw["shard"])
    else:
        arbitrary(ctx, kw["examples"], kw["shard"])
