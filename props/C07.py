"""C07 - receive-side limits are enforced and buffering stays bounded.

A key-holding peer sends STREAM / RESET_STREAM / CRYPTO / PATH_CHALLENGE /
NEW_CONNECTION_ID histories at limit-1, limit, limit+1, 2*limit, 2^62-1 against
a connected SUT whose advertised limits are small; a reference model of the
advertised credit (transport parameters recovered from the wire + every MAX_*
frame the SUT emits) judges both directions: beyond => matching close code,
within => never accused.
"""
PROPERTY = "C07"
LEVEL = "exploration"
RULE = (
    "one evaluation = one history of frames from a key-holding peer against a connected SUT (client and server) advertising small limits "
    "(max_data, max_stream_data in {0, 1, 1000, 65536}): STREAM frames with offset+length at limit-1, limit, limit+1, 2*limit, 2^62-1 relative to "
    "the stream and connection credit currently advertised, with/without FIN, duplicates and overlaps; RESET_STREAM with final sizes likewise; on "
    "bidirectional / unidirectional, peer- and self-initiated streams and stream ids around the stream-count limit; interleaved with reading what "
    "the SUT sends (its MAX_DATA / MAX_STREAM_DATA / MAX_STREAMS raise the model's limits); repeated CRYPTO at growing offsets, PATH_CHALLENGE "
    "(up to 500), NEW_CONNECTION_ID with increasing retire_prior_to. Oracle: a frame that breaks a rule must close the connection with the code "
    "of one of the broken rules (FLOW_CONTROL_ERROR 0x3, STREAM_LIMIT_ERROR 0x4, FINAL_SIZE_ERROR 0x6); a history that breaks none never ends in "
    "one of those codes; measured after every step: bytes buffered for reassembly <= advertised connection credit, CRYPTO reassembly <= 512 KiB, "
    "queued path challenges <= 32, pending connection-ID retirements bounded. Non-trivial = a frame exactly at a limit that had been raised at "
    "least once, or a violation on a stream that is not client-initiated bidirectional; distinct by the history."
)
ASSUMPTIONS = [
    "a first FIN / RESET whose final size lies below data already received may be refused (FINAL_SIZE_ERROR) or accepted: the statement is silent",
    "frames on a stream whose receive side the SUT has already finished and discarded carry no obligation",
    "buffer sizes are measured on the object graph (attribute reads); the advertised credit is read from the decrypted wire only",
]

V62 = (1 << 62) - 1
FLOW, STREAM_LIMIT, FINAL = 0x3, 0x4, 0x6


def ops_strategy():
    from hypothesis import strategies as st

    rel = st.sampled_from(["lim-1", "lim", "lim+1", "2lim", "half", "small", "max", "hi", "hi-1", "zero"])
    which = st.sampled_from(["stream", "stream", "conn"])
    sref = st.sampled_from(["p-bidi0", "p-bidi0", "p-bidi1", "p-uni0", "p-uni1", "s-bidi0", "s-bidi0", "s-bidi0", "p-bidi-last", "p-bidi-over", "p-uni-last", "p-uni-over"])
    stream = st.tuples(st.just("stream"), sref, which, rel, st.sampled_from([0, 1, 1, 10, 500, 1200]), st.booleans())
    reset = st.tuples(st.just("reset"), sref, which, rel)
    simple = st.sampled_from([("ack",), ("ack",), ("timer",), ("sut_open",), ("sut_open",), ("sut_open",), ("sut_write",), ("challenges", 40), ("challenges", 500), ("challenges_offpath", 40), ("challenges_offpath", 200), ("crypto_far",), ("crypto_grow",), ("crypto_beyond",), ("ncid_churn",), ("ncid_churn_quiet",), ("ncid_rotate", 1), ("ncid_rotate", 12), ("dup_last",), ("never_finished", 30)])
    # an empty FIN at offset 0 fixes the final size at 0 (a falsy value): whatever follows on that stream exceeds it
    fin0 = st.tuples(st.just("stream"), st.sampled_from(["p-bidi0", "p-bidi0", "p-bidi1", "p-uni0"]), st.just("stream"), st.just("zero"), st.just(0), st.just(True))
    follow = st.tuples(st.just("stream"), st.sampled_from(["p-bidi0", "p-bidi0", "p-bidi1", "p-uni0"]), st.just("stream"), st.sampled_from(["small", "half", "lim"]), st.sampled_from([1, 10]), st.booleans())
    # the peer's acknowledgement leaves out the packets in which the SUT raised a limit (they count as lost and the SUT owes a retransmission), and
    # the same packet goes on with a frame that relies on the raised limit: the limit was advertised, losing its packet does not take it back
    lossy = st.tuples(st.just("lossy_ack"), st.one_of(stream, reset, reset))
    # ... both on the same stream, one after the other
    fin0_then = st.tuples(st.sampled_from(["p-bidi0", "p-bidi1", "p-uni0"]), st.sampled_from(["small", "half", "lim", "lim+1"]), st.sampled_from([1, 10]), st.booleans(), st.booleans()).map(
        lambda t: ("seq", ("stream", t[0], "stream", "zero", 0, True), ("stream", t[0], "stream", t[1], t[2], t[3]) if not t[4] else ("reset", t[0], "stream", t[1]))
    )
    return st.lists(st.one_of(stream, stream, stream, reset, simple, fin0, follow, lossy, fin0_then), min_size=2, max_size=16)


class Credit:
    """advertised credit as visible on the SUT's wire"""

    def __init__(self, tp, sut_is_client):
        self.sut_is_client = sut_is_client
        self.conn = tp.get("initial_max_data", 0)
        self.bidi_local = tp.get("initial_max_stream_data_bidi_local", 0)  # streams the SUT opens
        self.bidi_remote = tp.get("initial_max_stream_data_bidi_remote", 0)  # streams the peer opens
        self.uni = tp.get("initial_max_stream_data_uni", 0)
        self.streams_bidi = tp.get("initial_max_streams_bidi", 0)
        self.streams_uni = tp.get("initial_max_streams_uni", 0)
        self.stream = {}
        self.raised = set()

    def stream_limit(self, sid):
        if sid in self.stream:
            return self.stream[sid]
        uni = sid % 4 in (2, 3)
        sut_initiated = (sid % 2 == 0) == self.sut_is_client
        if uni:
            return self.uni
        return self.bidi_local if sut_initiated else self.bidi_remote

    def see(self, frames):
        for f in frames:
            n = f["name"]
            if n == "max_data" and f["maximum"] > self.conn:
                self.conn = f["maximum"]
                self.raised.add("conn")
            elif n == "max_stream_data":
                if f["maximum"] > self.stream_limit(f["stream_id"]):
                    self.stream[f["stream_id"]] = f["maximum"]
                    self.raised.add(f["stream_id"])
            elif n == "max_streams_bidi":
                self.streams_bidi = max(self.streams_bidi, f["maximum"])
            elif n == "max_streams_uni":
                self.streams_uni = max(self.streams_uni, f["maximum"])


def run_history(ctx, case):
    from vlib import endpoints as E
    from vlib import refquic as R
    from vlib.harness import exc_signature
    from vlib.takeover import Takeover, sut_transport_parameters

    role = case["role"]
    lim_c, lim_s = case["max_data"], case["max_stream_data"]
    with E.pinned(("c07", role, lim_c, lim_s)):
        kw = {"max_data": lim_c, "max_stream_data": lim_s}
        other = {"max_data": 1 << 20, "max_stream_data": 1 << 20}
        tk = Takeover(role, client_kw=kw if role == "client" else other, server_kw=kw if role == "server" else other)
        tp = sut_transport_parameters(tk)
        if tp is None:
            raise RuntimeError("harness: cannot recover the SUT's transport parameters from the wire")
        sut_is_client = role == "client"
        cr = Credit(tp, sut_is_client)
        for v in tk.handshake_views[tk.X]:
            cr.see(v.frames or [])
        hi = {}  # sid -> highest offset received so far (model)
        final = {}  # sid -> fixed final size
        done = set()  # streams whose receive side is complete (all bytes + fin, or reset)
        inconsistent = set()
        have = {}  # sid -> set of received byte offsets (small histories only) - used for 'done'
        opened_by_sut = []
        broken_any = []
        cls = set()
        dead = [False]
        nontrivial = [False]
        last_pkt = [None]
        prefix = []  # frames that go in front of the next STREAM / RESET_STREAM frame, in the same packet
        p_bidi = 0 if not sut_is_client else 1  # first stream id the peer P can open (bidi)
        p_uni = 2 if not sut_is_client else 3

        def sut_call(what, fn, *a, **k):
            try:
                return fn(*a, **k)
            except Exception as e:
                dead[0] = True
                ctx.violation("api-raised-" + exc_signature(e), "%s raised %r (SUT is the %s)" % (what, e, role), case)

        def observe():
            if dead[0]:
                return []
            sut_call("next_event", tk.drain_events)
            pk = sut_call("datagrams_to_send", tk.collect) or []
            for v in pk:
                cr.see(v.frames or [])
            return pk

        def close_code():
            ev = tk.sut._close_event
            return None if ev is None else ev.error_code

        def bounds(step):
            sut = tk.sut
            buffered = sum(len(s.receiver._buffer) for s in sut._streams.values())
            if buffered > cr.conn:
                ctx.violation("stream-reassembly-buffer-exceeds-advertised-credit", "after %r the SUT buffers %d bytes for reassembly, advertised connection credit is %d" % (step, buffered, cr.conn), case)
            for epoch, st in sut._crypto_streams.items():
                if len(st.receiver._buffer) > 524288 + 2048:
                    ctx.violation("crypto-reassembly-buffer-exceeds-bound", "after %r the SUT buffers %d bytes of CRYPTO data in %s" % (step, len(st.receiver._buffer), epoch), case)
            for path in sut._network_paths:
                if len(path.remote_challenges) > 32:
                    ctx.violation("queued-path-challenges-exceed-bound", "after %r %d path challenges are queued" % (step, len(path.remote_challenges)), case)
            if len(sut._retire_connection_ids) > 32 + 16:
                ctx.violation("pending-retirements-exceed-bound", "after %r %d connection-ID retirements are pending" % (step, len(sut._retire_connection_ids)), case)
            if 1 + len(sut._peer_cid_available) > 8 and close_code() is None:
                ctx.violation("peer-connection-ids-exceed-advertised-limit", "after %r the SUT holds %d peer connection IDs" % (step, 1 + len(sut._peer_cid_available)), case)

        def resolve_stream(ref):
            if ref == "p-bidi0":
                return p_bidi
            if ref == "p-bidi1":
                return p_bidi + 4
            if ref == "p-uni0":
                return p_uni
            if ref == "p-uni1":
                return p_uni + 4
            if ref == "s-bidi0":
                return opened_by_sut[0] if opened_by_sut else p_bidi
            if ref == "p-bidi-last":
                return p_bidi + 4 * (cr.streams_bidi - 1)
            if ref == "p-bidi-over":
                return p_bidi + 4 * cr.streams_bidi
            if ref == "p-uni-last":
                return p_uni + 4 * (cr.streams_uni - 1)
            return p_uni + 4 * cr.streams_uni

        def target(sid, which, rel):
            used = sum(hi.values())
            if which == "stream":
                lim = cr.stream_limit(sid)
            else:
                lim = hi.get(sid, 0) + max(0, cr.conn - used)
            return {
                "lim-1": max(0, lim - 1), "lim": lim, "lim+1": min(V62, lim + 1), "2lim": min(V62, 2 * lim + 2), "half": lim // 2, "small": min(lim, 7),
                "max": V62, "hi": hi.get(sid, 0), "hi-1": max(0, hi.get(sid, 0) - 1), "zero": 0,
            }[rel]

        def judge(step, sid, end, fin, is_reset, before_close):
            """-> (set of codes one of which must be reported, silent)"""
            broken = set()
            silent = False
            sut_initiated = (sid % 2 == 0) == sut_is_client
            if sid in inconsistent or (sid in done and sid not in tk.sut._streams):
                silent = True  # the peer contradicted itself earlier on this stream, or the SUT has discarded it (both directions finished): no obligation
            if not sut_initiated and sid not in hi:
                count = sid // 4 + 1
                if count > (cr.streams_uni if sid % 4 in (2, 3) else cr.streams_bidi):
                    broken.add(STREAM_LIMIT)
            if end > cr.stream_limit(sid):
                broken.add(FLOW)
            newly = max(0, end - hi.get(sid, 0))
            if sum(hi.values()) + newly > cr.conn:
                broken.add(FLOW)
            if sid in final:
                if end > final[sid] or ((fin or is_reset) and end != final[sid]):
                    broken.add(FINAL)
            elif (fin or is_reset) and end < hi.get(sid, 0):
                silent = True
            return broken, silent

        def send_and_check(step, frame, sid, end, fin, is_reset, data_len=0, offset=0):
            broken, silent = judge(step, sid, end, fin, is_reset, None)
            pn = sut_call("receive_datagram", tk.send_frames, prefix + [frame])
            del prefix[:]
            last_pkt[0] = frame
            if dead[0]:
                return
            observe()
            code = close_code()
            at_limit = end in (cr.stream_limit(sid), cr.stream_limit(sid) - 1) and (sid in cr.raised or "conn" in cr.raised)
            if at_limit or (broken and sid % 4 != 0):
                nontrivial[0] = True
            if silent and broken and code is None:
                cls.add("optional-violation-not-refused")
                return
            if broken:
                broken_any.append((step, sorted(broken)))
                cls.add("violation:" + "+".join("0x%x" % b for b in sorted(broken)))
                if code is None:
                    if not silent:
                        ctx.violation(
                            "limit-violation-not-refused",
                            "%r breaks %s (stream limit %d, connection credit %d, used %d, final %r) but the SUT (%s) did not close the connection" % (step, ["0x%x" % b for b in sorted(broken)], cr.stream_limit(sid), cr.conn, sum(hi.values()), final.get(sid), role),
                            case,
                        )
                elif code not in broken and not (silent and code == FINAL):
                    ctx.violation("limit-violation-wrong-error-code", "%r breaks %s but the SUT closed with 0x%x" % (step, ["0x%x" % b for b in sorted(broken)], code), case)
                dead[0] = True
                return
            if code is not None:
                if code in (FLOW, STREAM_LIMIT, FINAL) and not (silent and code == FINAL):
                    ctx.violation(
                        "peer-within-limits-accused",
                        "%r stays within the advertised limits (stream limit %d, connection credit %d, used %d, final %r, streams bidi/uni %d/%d) but the SUT (%s) closed with 0x%x (%s)" % (step, cr.stream_limit(sid), cr.conn, sum(hi.values()), final.get(sid), cr.streams_bidi, cr.streams_uni, role, code, tk.sut._close_event.reason_phrase),
                        case,
                    )
                dead[0] = True
                return
            # accepted: update the model
            if silent:
                inconsistent.add(sid)  # inconsistent peer: no further obligations on this stream
                return
            hi[sid] = max(hi.get(sid, 0), end)
            if fin or is_reset:
                final.setdefault(sid, end)
            if is_reset:
                done.add(sid)
            elif data_len or fin:
                s = have.setdefault(sid, set())
                if end - offset <= 5000:
                    s.update(range(offset, end))
                if sid in final and len(s) >= final[sid] and all(i in s for i in range(final[sid])):
                    done.add(sid)

        flat = []
        for op in case["ops"]:
            flat.extend(op[1:] if op[0] == "seq" else [op])
        for op in flat:
            if dead[0] or close_code() is not None:
                break
            kind = op[0]
            cls.add("op:" + kind)
            if kind == "lossy_ack":
                for _ in range(8):
                    sut_call("receive_datagram", tk.send_frames, [{"name": "ping"}])
                    observe()
                if dead[0] or close_code() is not None:
                    break
                app = [v for v in tk.sut_packets if v.space == "app" and v.pn is not None]
                raising = {v.pn for v in app if any(f["name"] in ("max_data", "max_stream_data", "max_streams_bidi", "max_streams_uni") for f in v.frames or [])}
                f = tk.ack_frame([v.pn for v in app if v.pn not in raising])
                if f is not None:
                    prefix.append(f)
                    if raising and max(raising) + 3 <= max(v.pn for v in app):
                        cls.add("lossy-ack:limit-raising-packet-declared-lost")
                op = op[1]
                kind = op[0]
            if kind == "stream":
                _, ref, which, rel, ln, fin = op
                sid = resolve_stream(ref)
                if sid > V62:
                    continue
                end = target(sid, which, rel)
                ln = min(ln, end, 1200)
                off = end - ln
                frame = {"name": "stream", "stream_id": sid, "offset": off, "data": bytes(ln), "fin": fin}
                send_and_check(("stream", sid, off, ln, fin), frame, sid, end, fin, False, ln, off)
            elif kind == "reset":
                _, ref, which, rel = op
                sid = resolve_stream(ref)
                if sid > V62:
                    continue
                end = target(sid, which, rel)
                if (sid % 2 == 0) == sut_is_client and sid % 4 in (2, 3):
                    continue
                frame = {"name": "reset_stream", "stream_id": sid, "error_code": 5, "final_size": end}
                send_and_check(("reset", sid, end), frame, sid, end, False, True)
            elif kind == "ack":
                sut_call("receive_datagram", tk.ack)
            elif kind == "timer":
                sut_call("timer", tk.fire_timer, max_wait=5.0)
            elif kind == "sut_open":
                try:
                    sid = tk.sut.get_next_available_stream_id()
                    tk.sut.send_stream_data(sid, b"q" * 10)
                    opened_by_sut.append(sid)
                except Exception:
                    pass
            elif kind == "sut_write":
                if opened_by_sut:
                    try:
                        tk.sut.send_stream_data(opened_by_sut[0], b"w" * 100)
                    except Exception:
                        pass
            elif kind == "challenges":
                for i in range(op[1]):
                    if dead[0]:
                        break
                    sut_call("receive_datagram", tk.send_frames, [{"name": "path_challenge", "data": i.to_bytes(8, "big")}], ("7.7.7.%d" % (i % 3), 7) if role == "server" and i % 5 == 4 else None)
                    if i % 16 == 0:
                        bounds(("challenges", i))
            elif kind == "challenges_offpath":
                # probing packets (PATH_CHALLENGE only) from one other address: that path is never promoted, its queue must stay bounded all the same
                for i in range(op[1]):
                    if dead[0]:
                        break
                    sut_call("receive_datagram", tk.send_frames, [{"name": "path_challenge", "data": (0x5000 + i).to_bytes(8, "big")}], ("7.7.8.8", 78))
                    if i % 8 == 0:
                        bounds(("challenges_offpath", i))
                bounds(("challenges_offpath", op[1]))
            elif kind == "crypto_far":
                sut_call("receive_datagram", tk.send_frames, [{"name": "crypto", "offset": 524288 - 10, "data": bytes(5)}])
            elif kind == "crypto_grow":
                for i in range(30):
                    if dead[0] or close_code() is not None:
                        break
                    sut_call("receive_datagram", tk.send_frames, [{"name": "crypto", "offset": 1000 + i * 17000, "data": bytes(1000)}])
                    bounds(("crypto_grow", i))
            elif kind == "crypto_beyond":
                for off in (600000, 1200000, 5000000):
                    if dead[0] or close_code() is not None:
                        break
                    sut_call("receive_datagram", tk.send_frames, [{"name": "crypto", "offset": off, "data": bytes(100)}])
                    bounds(("crypto_beyond", off))
            elif kind == "ncid_churn_quiet":
                # the SUT gets no opportunity to send its RETIRE_CONNECTION_ID frames
                for i in range(120):
                    if dead[0] or close_code() is not None:
                        break
                    seq = 8 + i
                    sut_call("receive_datagram", tk.send_frames, [{"name": "new_connection_id", "seq": seq, "retire_prior_to": seq, "cid": bytes([0xD1, i]) + bytes(6), "reset_token": bytes(16)}])
                    bounds(("ncid_churn_quiet", i))
            elif kind == "ncid_churn":
                for i in range(40):
                    if dead[0] or close_code() is not None:
                        break
                    seq = 8 + i
                    sut_call("receive_datagram", tk.send_frames, [{"name": "new_connection_id", "seq": seq, "retire_prior_to": seq, "cid": bytes([0xD0, i]) + bytes(6), "reset_token": bytes(16)}])
                    bounds(("ncid_churn", i))
                    if i % 7 == 6:
                        observe()
            elif kind == "ncid_rotate":
                # the peer replaces exactly as many connection IDs as it retires: never more than the advertised 8 are active
                for i in range(op[1]):
                    if dead[0] or close_code() is not None:
                        break
                    seq = 8 + i
                    sut_call("receive_datagram", tk.send_frames, [{"name": "new_connection_id", "seq": seq, "retire_prior_to": i + 1, "cid": bytes([0xD2, i]) + bytes(6), "reset_token": bytes([i]) * 16}])
                    if close_code() == 0x9:
                        ctx.violation("peer-within-limits-accused", "NEW_CONNECTION_ID(seq=%d, retire_prior_to=%d) after the 8 connection IDs of the handshake keeps 8 active, the SUT (%s) advertised active_connection_id_limit 8 but closed with CONNECTION_ID_LIMIT_ERROR (%s)" % (seq, i + 1, role, tk.sut._close_event.reason_phrase), case)
                        dead[0] = True
                    bounds(("ncid_rotate", i))
                    if i % 3 == 2:
                        observe()
            elif kind == "dup_last":
                if last_pkt[0] is not None and close_code() is None:
                    sut_call("receive_datagram", tk.send_frames, [last_pkt[0]])
            elif kind == "never_finished":
                # many streams opened and never finished, each within its limits
                for i in range(op[1]):
                    if dead[0] or close_code() is not None:
                        break
                    sid = p_uni + 4 * (2 + i)
                    if sid // 4 + 1 > cr.streams_uni or 1 > cr.stream_limit(sid) or sum(hi.values()) + 1 > cr.conn:
                        break
                    send_and_check(("stream", sid, 0, 1, False), {"name": "stream", "stream_id": sid, "offset": 0, "data": b"z", "fin": False}, sid, 1, False, False, 1, 0)
            observe()
            if not dead[0]:
                bounds(op)
        # a history that broke no rule never ends in one of the three codes
        code = close_code()
        if not dead[0] and not broken_any and code in (FLOW, STREAM_LIMIT, FINAL):
            ctx.violation("peer-within-limits-accused", "no frame of the history broke a limit but the SUT (%s) closed with 0x%x (%s)" % (role, code, tk.sut._close_event.reason_phrase), case)
        ctx.case(("c07", repr(case)), nontrivial=nontrivial[0], classes=sorted(cls) + ["c07:" + role, "c07:conn%d" % lim_c, "c07:stream%d" % lim_s, "c07:" + ("closed-0x%x" % code if code is not None else "alive")])


def histories(ctx, examples, shard):
    from hypothesis import strategies as st
    from vlib.harness import run_hypothesis

    strat = st.fixed_dictionaries(
        {"kind": st.just("c07"), "role": st.sampled_from(["server", "client"]), "max_data": st.sampled_from([0, 1, 1000, 1000, 65536, 65536]), "max_stream_data": st.sampled_from([0, 1, 1000, 1000, 65536]), "ops": ops_strategy()}
    )

    def body(ctx, case):
        run_history(ctx, case)
        if ctx.want_sample():
            ctx.sample(case)

    run_hypothesis(ctx, body, strat, examples, shard=shard)


def tup(x):
    return tuple(tup(v) for v in x) if isinstance(x, list) else x


def replay(ctx, case):
    run_history(ctx, dict(case, ops=[tup(o) for o in case["ops"]]))


def plan(tier, seed):
    q = tier == "quick"
    return [("limit-histories-%d" % s, {"examples": 200 if q else 8000, "shard": s}) for s in range(12 if q else 16)]


def run_task(ctx, name, **kw):
    histories(ctx, kw["examples"], kw["shard"])
