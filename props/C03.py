"""C03 - the handshake completes only with the authentic peer and both sides agree.

(1) every byte x mask of every handshake message in either direction, on
    tls.Context pairs (as QuicConnection wires them), for several handshake
    variants: the receiving context must never complete;
(2) authentication matrix: wrong name, expired, not yet valid, foreign CA,
    self-signed, CertificateVerify by another key, resumption with a wrong PSK;
(3) agreement at QUIC level (network simulator, lossless and lossy): all
    combinations of certificate key type, cipher-suite lists, version lists,
    ALPN lists, resumption, Retry: both complete => identical secrets, version,
    suite, ALPN, resumption status; nothing in common => neither completes.
"""
PROPERTY = "C03"
LEVEL = "exploration"
RULE = (
    "(1) one evaluation = one (handshake variant, message, byte position, mask in {0x01, 0x80, 0xff}) on a pair of tls.Context objects: the altered "
    "message is fed to its receiver, everything else flows normally; the receiver must never reach POST_HANDSHAKE. Variants: full, with client "
    "certificate, PSK resumption; 3 cipher suites; Ed25519 / RSA / P-256 / P-384 leaves. Positions are sampled in quick and exhaustive in thorough. "
    "(2) one evaluation = one bad-credential scenario against an aioquic client. "
    "(3) one evaluation = one simulated QUIC connection for a generated pair of configurations (certificate key type, ordered cipher-suite sub-lists, "
    "version lists and original version, ALPN lists, resumption, Retry, max_datagram_size) under generated datagram fates: if both endpoints report "
    "HandshakeCompleted their NSS key-log secrets are equal and version / cipher suite / ALPN / resumption / early-data status are equal and lie "
    "in both configured lists; when the configurations share no cipher suite, no version or no ALPN, neither ever reports completion. "
    "Non-trivial = (1) the alteration is inside a message body and the control run completes; (3) the pair differs in >= 2 option lists and "
    "completes, or is incompatible. Distinct by the case."
)
ASSUMPTIONS = [
    "any exception or stall of the receiving context counts as 'does not complete' (exceptions are C05's subject)",
    "determinism pins of vlib/endpoints.py make the altered run replay the control run up to the alteration",
    "completion of compatible pairs is reported, not asserted",
]


# ------------------------------------------------------------------ (1) byte alterations


VARIANTS = [
    {"name": "full-ed25519", "leaf": "ed25519", "suites": None, "client_cert": False, "psk": False},
    {"name": "full-rsa-aes128", "leaf": "rsa", "suites": [0x1301], "client_cert": False, "psk": False},
    {"name": "full-p256-chacha", "leaf": "p256", "suites": [0x1303], "client_cert": False, "psk": False},
    {"name": "full-p384-aes256", "leaf": "p384", "suites": [0x1302], "client_cert": False, "psk": False},
    {"name": "clientcert-ed25519", "leaf": "ed25519", "suites": None, "client_cert": True, "psk": False},
    {"name": "psk-ed25519", "leaf": "ed25519", "suites": None, "client_cert": False, "psk": True},
]


def split(data):
    out = []
    p = 0
    while p + 4 <= len(data):
        ln = int.from_bytes(data[p + 1 : p + 4], "big")
        out.append(data[p : p + 4 + ln])
        p += 4 + ln
    return out


def run_handshake(variant, alter=None):
    """Full handshake between two aioquic contexts; `alter` = (direction, message index, position, mask).
    -> (messages list of (direction, bytes), client Ctx, server Ctx, receiver-of-altered or None)"""
    import aioquic.tls as T
    from vlib import endpoints as E, tlsbench as B

    suites = [T.CipherSuite(s) for s in variant["suites"]] if variant["suites"] else None
    store = {}
    ticket = None
    if variant["psk"]:
        with E.pinned(("c03-ticket", variant["name"])):
            c0 = B.Ctx(True, cipher_suites=suites)
            s0 = B.Ctx(False, leaf_name=variant["leaf"], cipher_suites=suites, ticket_store=store)
            a = s0.feed(c0.feed(b"")["INITIAL"])
            b = c0.feed(a["INITIAL"] + a["HANDSHAKE"])
            s0.feed(b["HANDSHAKE"])
            c0.feed(a["ONE_RTT"])
            ticket = c0.tickets[0] if c0.tickets else None
            if ticket is None:
                raise RuntimeError("harness: no session ticket obtained")
    with E.pinned(("c03", variant["name"])):
        c = B.Ctx(True, cipher_suites=suites, client_cert=variant["client_cert"], session_ticket=ticket)
        s = B.Ctx(False, leaf_name=variant["leaf"], cipher_suites=suites, request_client_cert=variant["client_cert"], ticket_store=store if variant["psk"] else None)
        msgs = []
        target = [None]

        def deliver(direction, data, receiver):
            out = {}
            for m in split(data):
                idx = len(msgs)
                msgs.append((direction, m))
                if alter is not None and alter[0] == idx:
                    m = bytearray(m)
                    m[alter[1] % len(m)] ^= alter[2]
                    m = bytes(m)
                    target[0] = receiver
                try:
                    o = receiver.feed(m)
                except Exception:
                    o = {}
                    receiver.failed = True
                for k, v in o.items():
                    out[k] = out.get(k, b"") + v
            return out

        c.failed = s.failed = False
        ch = c.feed(b"")["INITIAL"]
        a = deliver("c2s", ch, s)
        b = deliver("s2c", a.get("INITIAL", b"") + a.get("HANDSHAKE", b""), c)
        deliver("c2s", b.get("HANDSHAKE", b""), s)
        return msgs, c, s, target[0]


def alteration_task(ctx, variant_index, thorough, part, nparts):
    variant = VARIANTS[variant_index]
    msgs, c, s, _ = run_handshake(variant)
    if not (c.done() and s.done()):
        raise RuntimeError("harness: control handshake %s does not complete (%s / %s)" % (variant["name"], c.state, s.state))
    if variant["psk"] and not c.ctx.session_resumed:
        raise RuntimeError("harness: PSK variant did not resume")
    import random

    rnd = random.Random(ctx.seed * 1000003 + variant_index)
    n = 0
    for idx, (direction, m) in enumerate(msgs):
        positions = range(len(m)) if thorough else sorted(set(list(range(0, min(8, len(m)))) + [rnd.randrange(len(m)) for _ in range(40)] + [len(m) - 1]))
        for pos in positions:
            # the four header bytes (type, 24-bit length) decide how the byte stream is cut into messages: every bit of them, and every
            # shorter / longer length that differs in the low byte; elsewhere three masks
            masks = (0x01, 0x80, 0xFF) if pos >= 4 else ((0x01, 0x02, 0x04, 0x08, 0x10, 0x20, 0x40, 0x80, 0xFF) if (pos < 3 or not thorough) else tuple(range(1, 256)))
            if pos == 3 and not thorough:
                masks = tuple(sorted(set(masks + (0x03, 0x0F, 0x18, 0x30, 0x3F, 0x60, 0x7F))))
            for mask in masks:
                n += 1
                if n % nparts != part:
                    continue
                _, c2, s2, receiver = run_handshake(variant, alter=(idx, pos, mask))
                mt = m[0]
                case = {"kind": "alter", "variant": variant["name"], "message_index": idx, "message_type": mt, "direction": direction, "position": pos, "mask": mask}
                ctx.case((variant["name"], idx, pos, mask), nontrivial=pos >= 4, classes=["alter:" + variant["name"], "alter:type%d:%s" % (mt, direction)])
                if receiver is None:
                    raise RuntimeError("harness: alteration was not applied")
                if receiver.done():
                    ctx.violation(
                        "altered-handshake-message-accepted",
                        "%s: byte %d of message %d (type %d, %s, %d bytes) xor 0x%02x: the receiving %s still completed the handshake" % (variant["name"], pos, idx, mt, direction, len(m), mask, "client" if receiver is c2 else "server"),
                        case,
                    )
                if ctx.want_sample():
                    ctx.sample(case)
    ctx.extra["exhaustive"] = bool(thorough)
    ctx.extra["messages"] = [(d, m[0], len(m)) for d, m in msgs]


# ------------------------------------------------------------------ (2) authentication matrix


def auth_matrix(ctx):
    import aioquic.tls as T
    from vlib import endpoints as E, tlsbench as B, reftls as L

    def client_vs_ref(name, leaf, server_name="localhost", ca="ca.pem", cv_key=None, expect_complete=False, c_suites=None, c_alpn=None, sh_kw=None, ee_kw=None, s_alpn=None, skip_cert=False, empty_cert=None, verify=True):
        with E.pinned(("c03-auth", name)):
            c = B.Ctx(True, verify=verify, server_name=server_name, ca=ca, cipher_suites=[T.CipherSuite(x) for x in c_suites] if c_suites else None, alpn=c_alpn)
            s = B.ref_server(leaf_name=leaf, alpn=s_alpn, strict=False)
            s.receive_client_hello(c.feed(b"")["INITIAL"])
            err = None
            try:
                c.feed(s.server_hello(**(sh_kw or {})))
                c.feed(s.encrypted_extensions(**(ee_kw or {})))
                if empty_cert is not None:
                    # a Certificate message with an empty list, with or without a CertificateVerify made with some key
                    c.feed(s.certificate(chain=[]))
                    if empty_cert == "with-verify":
                        c.feed(s.certificate_verify())
                elif not skip_cert:
                    c.feed(s.certificate())
                    c.feed(s.certificate_verify(private_key=cv_key) if cv_key is not None else s.certificate_verify())
                c.feed(s.finished())
            except Exception as e:
                err = e
            case = {"kind": "auth", "scenario": name}
            ctx.case(("auth", name), nontrivial=True, classes=["auth:" + name])
            if c.done() != expect_complete:
                if c.done():
                    ctx.violation("client-completed-with-unauthentic-server", "scenario %s: the client reported handshake completion" % name, case)
                else:
                    ctx.violation("client-refused-authentic-server", "scenario %s (control): the client did not complete: %r" % (name, err), case)

    client_vs_ref("control", "ed25519", expect_complete=True)
    client_vs_ref("control-chain3", "chain3", expect_complete=True)
    client_vs_ref("control-rsa", "rsa", expect_complete=True)
    client_vs_ref("wrong-name", "wrongname")
    client_vs_ref("requested-other-name", "ed25519", server_name="example.org")
    # names that are IP address literals (what connect() passes for an address): the certificate is for "localhost" only
    client_vs_ref("requested-ipv4-literal", "ed25519", server_name="192.0.2.7")
    client_vs_ref("requested-ipv6-literal", "ed25519", server_name="2001:db8::7")
    client_vs_ref("requested-ipv4-loopback-literal", "ed25519", server_name="127.0.0.1")
    client_vs_ref("expired", "expired")
    client_vs_ref("not-yet-valid", "notyet")
    client_vs_ref("foreign-ca", "foreign")
    client_vs_ref("self-signed", "selfsigned")
    client_vs_ref("client-trusts-other-ca", "ed25519", ca="foreign_ca.pem")
    client_vs_ref("cv-by-another-key", "ed25519", cv_key=E.load_key("client.key"))
    client_vs_ref("cv-by-another-key-rsa-leaf", "rsa", cv_key=E.load_key("leaf_p256.key"))
    client_vs_ref("chain-missing-intermediate", "chain3-noica")
    # verify_mode CERT_OPTIONAL on a client validates like CERT_REQUIRED
    client_vs_ref("control-cert-optional", "ed25519", verify="optional", expect_complete=True)
    client_vs_ref("self-signed-cert-optional", "selfsigned", verify="optional")
    client_vs_ref("foreign-ca-cert-optional", "foreign", verify="optional")
    client_vs_ref("wrong-name-cert-optional", "wrongname", verify="optional")
    client_vs_ref("empty-certificate-list-no-verify", "ed25519", empty_cert="no-verify")
    client_vs_ref("empty-certificate-list-with-verify", "ed25519", empty_cert="with-verify")
    # a server that answers outside what the client is configured for shares no option with it
    client_vs_ref("control-alpn", "ed25519", c_alpn=["h3", "hq-interop"], s_alpn=b"hq-interop", expect_complete=True)
    client_vs_ref("control-suite", "ed25519", c_suites=[0x1303, 0x1301], sh_kw={"cipher_suite": 0x1301}, expect_complete=True)
    client_vs_ref("suite-not-offered", "ed25519", c_suites=[0x1301], sh_kw={"cipher_suite": 0x1303})
    client_vs_ref("suite-not-offered-256", "ed25519", c_suites=[0x1301, 0x1303], sh_kw={"cipher_suite": 0x1302})
    client_vs_ref("alpn-not-offered", "ed25519", c_alpn=["h3"], s_alpn=b"foo")
    client_vs_ref("alpn-unsolicited", "ed25519", c_alpn=None, s_alpn=b"foo")
    client_vs_ref("tls-version-not-offered", "ed25519", sh_kw={"version": 0x0303})
    client_vs_ref("psk-selected-but-none-offered", "ed25519", sh_kw={"extra_extensions": [(L.EXT_PRE_SHARED_KEY, L.build_pre_shared_key(selected=0))]}, skip_cert=True)
    # resumption: the server does not know the resumption secret
    with E.pinned(("c03-auth", "psk-wrong-secret")):
        c0 = B.Ctx(True)
        s0 = B.ref_server()
        s0.receive_client_hello(c0.feed(b"")["INITIAL"])
        c0.feed(s0.server_hello())
        out = c0.feed(s0.encrypted_extensions() + s0.certificate() + s0.certificate_verify() + s0.finished())
        s0.check_client_finished(out["HANDSHAKE"])
        c0.feed(s0.new_session_ticket())
        ticket = c0.tickets[0]
        for name, psk, index in (("psk-control", None, 0), ("psk-wrong-secret", bytes(32), 0), ("psk-identity-not-offered", None, 1)):
            c = B.Ctx(True, session_ticket=ticket)
            issued = dict(s0.issued_tickets)
            s = B.ref_server(psk_lookup=lambda ident: (issued.get(bytes(ident)) if psk is None else psk), strict=False)
            s.receive_client_hello(c.feed(b"")["INITIAL"])
            try:
                c.feed(s.server_hello(select_psk=True, selected_identity=index))
                c.feed(s.encrypted_extensions())
                c.feed(s.finished())
            except Exception:
                pass
            ctx.case(("auth", name), nontrivial=True, classes=["auth:" + name])
            if name == "psk-control" and not c.done():
                ctx.violation("client-refused-authentic-server", "PSK control handshake did not complete", {"kind": "auth", "scenario": name})
            if name != "psk-control" and c.done():
                ctx.violation("client-completed-with-unauthentic-server", "the client resumed a session with a server that does not hold the resumption secret", {"kind": "auth", "scenario": name})


# ------------------------------------------------------------------ (4) transport parameters authenticate the connection IDs and the version



# ------------------------------------------------------------------ (2b) certificate chain compositions

CHAIN_LEAVES = ["leaf_ed25519.pem", "leaf_ica.pem", "leaf_chain.pem", "leaf_foreign.pem", "leaf_selfsigned.pem"]
CHAIN_POOL = ["ica.pem", "ica2.pem", "foreign_ca.pem", "leaf_selfsigned.pem", "ca.pem", "leaf_foreign.pem"]


def chain_expected(leaf, extras, anchor):
    """independent oracle: is there a path leaf -> ... -> anchor in which every certificate is signed by the next, using only the certificates the
    server sent as (untrusted) intermediates?  The trust anchor is the one certificate the client configured."""
    frontier = [leaf]
    seen = set()
    while frontier:
        c = frontier.pop()
        if c.fingerprint_key in seen:
            continue
        seen.add(c.fingerprint_key)
        for issuer in [anchor] + extras:
            try:
                c.cert.verify_directly_issued_by(issuer.cert)
            except Exception:
                continue
            if not is_ca(issuer.cert):
                continue  # only a CA certificate (basicConstraints CA:TRUE) can issue
            if issuer is anchor:
                return True
            frontier.append(issuer)
    return False


def is_ca(cert):
    from cryptography import x509

    try:
        return bool(cert.extensions.get_extension_for_class(x509.BasicConstraints).value.ca)
    except x509.ExtensionNotFound:
        return False


class _C:
    def __init__(self, name, cert):
        from cryptography.hazmat.primitives import hashes

        self.name = name
        self.cert = cert
        self.fingerprint_key = cert.fingerprint(hashes.SHA256())


def chain_compositions(ctx, max_extras):
    import itertools
    from cryptography.hazmat.primitives.serialization import Encoding
    from vlib import endpoints as E, tlsbench as B, reftls as L

    load = lambda n: _C(n, E.load_cert(n)[0])
    key = E.load_key("leaf_ed25519.key")
    for ca in ("ca.pem", "foreign_ca.pem"):
        anchor = load(ca)
        for leaf_name in CHAIN_LEAVES:
            leaf = load(leaf_name)
            for k in range(max_extras + 1):
                for combo in itertools.permutations(CHAIN_POOL, k):
                    extras = [load(n) for n in combo]
                    expect = chain_expected(leaf, extras, anchor)
                    case = {"kind": "chain", "ca": ca, "leaf": leaf_name, "extras": list(combo)}
                    with E.pinned(("c03-chain", ca, leaf_name, combo)):
                        c = B.Ctx(True, ca=ca)
                        s = L.RefServer([x.cert.public_bytes(Encoding.DER) for x in [leaf] + extras], key, alpn=None, transport_parameters=B.TP, rng=E.os.urandom, strict=False)
                        s.receive_client_hello(c.feed(b"")["INITIAL"])
                        err = None
                        try:
                            c.feed(s.server_hello())
                            c.feed(s.encrypted_extensions())
                            c.feed(s.certificate())
                            c.feed(s.certificate_verify())
                            c.feed(s.finished())
                        except Exception as e:
                            err = e
                    ctx.case(("chain", ca, leaf_name, combo), nontrivial=bool(combo), classes=["chain:expected-" + ("valid" if expect else "invalid"), "chain:extras-%d" % k])
                    if c.done() and not expect:
                        ctx.violation(
                            "client-completed-with-unauthentic-server",
                            "the client trusts only %s; the server sent %s followed by %s: no path to the trusted CA exists (certificates the peer sends are not trust anchors) but the client reported handshake completion" % (ca, leaf_name, list(combo)),
                            case,
                        )
                    elif not c.done() and expect:
                        ctx.violation("client-refused-authentic-server", "the client trusts %s; the server sent %s followed by %s, which contains a valid path: the client did not complete: %r" % (ca, leaf_name, list(combo), err), case)
                    if ctx.want_sample():
                        ctx.sample(dict(case, expected_valid=expect))


def tp_auth(ctx):
    """An honest TLS handshake from a key-holding QUIC peer whose transport parameters misstate the connection IDs or the
    version: the endpoint must not report HandshakeCompleted."""
    from vlib import endpoints as E, refquic as R, reftls as L, tlspeer as P

    V1, V2 = R.V1, R.V2

    def vinfo(chosen, available):
        return (0x11, chosen.to_bytes(4, "big") + b"".join(v.to_bytes(4, "big") for v in available))

    def completed(peer):
        return any(type(e).__name__ == "HandshakeCompleted" for e in peer.events)

    def why(peer):
        return peer.terminated.reason_phrase if peer.terminated is not None else "no termination"

    def client_case(name, version, leaf, overrides, expect):
        with E.pinned(("c03-tp", name, version, leaf)):
            kw = {"original_version": version, "supported_versions": [version] + [v for v in (V1, V2) if v != version]}
            sp = P.ServerPeer(client_kw=kw, leaf=leaf, tp_overrides=list(overrides))
            ref = sp.ref
            ref.receive_client_hello(sp.client_hello)
            sh = ref.server_hello()
            sp.after_server_hello()
            sp.send_crypto("initial", sh, pad_to=1200, extra_frames=[{"name": "ack", "acked": [(0, 0)], "delay": 0}])
            sp.pump_sut()
            flight = ref.encrypted_extensions() + ref.certificate() + ref.certificate_verify() + ref.finished()
            try:
                sp.send_crypto("handshake", flight)
                sp.pump_sut()
                sp.after_finished()
                sp.reopen()
                sp.send_crypto("app", b"", extra_frames=[{"name": "handshake_done"}])
                sp.pump_sut()
            except Exception as e:
                if "aioquic" in type(e).__module__ or isinstance(e, (AssertionError, AttributeError, TypeError, KeyError, IndexError)):
                    pass  # the SUT raising is C05's subject; here it counts as not completing
                else:
                    raise
            done = completed(sp)
            case = {"kind": "tp", "scenario": name, "sut": "client", "version": version, "leaf": leaf}
            ctx.case(("tp", "client", name, version, leaf), nontrivial=True, classes=["tp:client:" + name, "tp:" + ("completed" if done else "refused")])
            if done and not expect:
                ctx.violation("completed-with-unauthenticated-transport-parameters", "client, %s (version 0x%x, %s leaf): HandshakeCompleted was reported" % (name, version, leaf), case)
            if not done and expect:
                ctx.violation("client-refused-authentic-server", "transport-parameter control %s (version 0x%x, %s leaf) did not complete: %s" % (name, version, leaf, why(sp)), case)
            if ctx.want_sample():
                ctx.sample(case)

    def server_case(name, version, leaf, overrides, expect):
        with E.pinned(("c03-tp-s", name, version, leaf)):
            cp = P.ClientPeer(leaf=leaf, version=version, server_kw={"supported_versions": [V1, V2]}, tp_overrides=[(k, v) for k, v in overrides])
            ch = cp.ref.client_hello()
            try:
                cp.send_crypto("initial", ch, pad_to=1200)
                cp.pump_sut()
                sh, hs = cp.server_flight()
                if sh:
                    cp.ref.receive_server_flight(sh)
                    cp.after_server_hello()
                    cp.reopen()
                    sh, hs = cp.server_flight()
                    cp.ref.receive_server_flight(hs)
                    cp.after_server_finished()
                    cp.send_crypto("handshake", cp.ref.client_flight())
                    cp.pump_sut()
            except (L.HandshakeError, L.ParseError):
                pass
            done = completed(cp)
            case = {"kind": "tp", "scenario": name, "sut": "server", "version": version, "leaf": leaf}
            ctx.case(("tp", "server", name, version, leaf), nontrivial=True, classes=["tp:server:" + name, "tp:" + ("completed" if done else "refused")])
            if done and not expect:
                ctx.violation("completed-with-unauthenticated-transport-parameters", "server, %s (version 0x%x, %s leaf): HandshakeCompleted was reported" % (name, version, leaf), case)
            if not done and expect:
                ctx.violation("server-refused-authentic-client", "transport-parameter control %s (version 0x%x, %s leaf) did not complete: %s" % (name, version, leaf, why(cp)), case)
            if ctx.want_sample():
                ctx.sample(case)

    for version in (V1, V2):
        other = V2 if version == V1 else V1
        for leaf in ("ed25519", "rsa", "p256"):
            client_case("control", version, leaf, [], True)
            client_case("control-version-information", version, leaf, [vinfo(version, [version, other])], True)
            client_case("odcid-missing", version, leaf, [("original_destination_connection_id", None)], False)
            client_case("odcid-wrong", version, leaf, [("original_destination_connection_id", b"\x01" * 8)], False)
            client_case("odcid-empty", version, leaf, [("original_destination_connection_id", b"")], False)
            client_case("iscid-missing", version, leaf, [("initial_source_connection_id", None)], False)
            client_case("iscid-wrong", version, leaf, [("initial_source_connection_id", b"\x02" * 8)], False)
            client_case("iscid-prefix", version, leaf, [("initial_source_connection_id", P.HARNESS_CID[:-1])], False)
            client_case("rscid-without-retry", version, leaf, [("retry_source_connection_id", b"\x03" * 8)], False)
            client_case("version-information-other-chosen", version, leaf, [vinfo(other, [version, other])], False)
            server_case("control", version, leaf, [], True)
            server_case("control-version-information", version, leaf, [vinfo(version, [version, other])], True)
            server_case("iscid-missing", version, leaf, [("initial_source_connection_id", None)], False)
            server_case("iscid-wrong", version, leaf, [("initial_source_connection_id", b"\x02" * 8)], False)
            server_case("iscid-prefix", version, leaf, [("initial_source_connection_id", P.HARNESS_CID[:-1])], False)
            server_case("version-information-other-chosen", version, leaf, [vinfo(other, [version, other])], False)
            server_case("version-information-chosen-not-available", version, leaf, [vinfo(version, [other])], False)


# ------------------------------------------------------------------ (3) agreement at QUIC level


def agreement_task(ctx, examples, shard):
    from hypothesis import strategies as st
    from vlib import endpoints as E, refquic as R, simnet, simchecks
    from vlib.harness import run_hypothesis
    import aioquic.tls as T

    V1, V2 = R.V1, R.V2
    suites = [0x1301, 0x1302, 0x1303]
    suite_list = st.lists(st.sampled_from(suites), min_size=1, max_size=3, unique=True)
    alpn_list = st.one_of(st.none(), st.lists(st.sampled_from(["h3", "hq-interop", "foo"]), min_size=1, max_size=3, unique=True))
    ver_list = st.lists(st.sampled_from([V1, V2]), min_size=1, max_size=2, unique=True)
    fate = st.tuples(st.sampled_from(["deliver"] * 8 + ["drop", "drop", "dup"]), st.floats(0, 0.2).map(lambda f: round(f, 4)), st.floats(0, 0.2).map(lambda f: round(f, 4))).map(list)
    strat = st.fixed_dictionaries(
        {
            "kind": st.just("agree"), "leaf": st.sampled_from(["ed25519", "rsa", "p256", "p384", "ed448", "chain2"]), "c_suites": suite_list, "s_suites": suite_list, "c_versions": ver_list, "s_versions": ver_list,
            "c_original": st.sampled_from([None, V1, V2]), "c_alpn": alpn_list, "s_alpn": alpn_list, "resume": st.booleans(), "t_suites": st.one_of(st.none(), suite_list), "retry": st.sampled_from([False, False, True]),
            "mds": st.sampled_from([1200, 1350]), "fates": st.one_of(st.just([]), st.lists(fate, max_size=30)),
        }
    )

    def body(ctx, case):
        agreement_case(ctx, case)
        if ctx.want_sample():
            ctx.sample({k: v for k, v in case.items() if k != "fates"})

    run_hypothesis(ctx, body, strat, examples, shard=shard)


def agreement_case(ctx, case):
    import io
    from vlib import endpoints as E, refquic as R, simnet
    import aioquic.tls as T
    from aioquic.quic.connection import QuicConnection

    if case["c_original"] is not None and case["c_original"] not in case["c_versions"]:
        case = dict(case, c_original=case["c_versions"][0])
    common_suite = [x for x in case["c_suites"] if x in case["s_suites"]]
    cv = case["c_original"] or case["c_versions"][0]
    # version: the client's first version must be supported by the server, or Version Negotiation finds a common one
    common_ver = [v for v in case["c_versions"] if v in case["s_versions"]]
    if case["s_alpn"] is None:
        alpn_ok = True
    else:
        alpn_ok = case["c_alpn"] is not None and any(a in case["s_alpn"] for a in case["c_alpn"])
    compatible = bool(common_suite) and bool(common_ver) and alpn_ok
    tickets = {}
    client_tickets = []

    class Mon(simnet.Monitor):
        def start(self, sim):
            self.hs = {}

        def on_event(self, sim, x, e, now):
            if type(e).__name__ == "HandshakeCompleted":
                self.hs[x] = e

    def build_hook(sim):
        pass

    sim_case = {
        "cfg": {
            "leaf": case["leaf"], "mds": case["mds"], "retry": case["retry"], "c_keylog": True, "client_versions": case["c_versions"], "server_versions": case["s_versions"],
            "client_version": cv, "c_suites": case["c_suites"], "s_suites": case["s_suites"], "c_alpn": case["c_alpn"], "s_alpn": case["s_alpn"], "resume": case["resume"], "t_suites": case.get("t_suites"),
        },
        "script": [{"t": 0.3, "who": "c", "op": "ping"}], "fates": case["fates"], "jitter": [0.0], "adv_end": 2.0, "fair": 6.0,
    }
    mon = Mon()
    sim = AgreementSim(sim_case, ctx, monitors=[mon], observe=False, max_events=3000)
    sim.run()
    c_done, s_done = "c" in mon.hs, "s" in mon.hs
    diff = sum([case["c_suites"] != case["s_suites"], case["c_versions"] != case["s_versions"], case["c_alpn"] != case["s_alpn"]])
    cls = ["agree:" + ("compatible" if compatible else "incompatible"), "agree:" + ("both-complete" if c_done and s_done else "one-complete" if c_done or s_done else "none-complete")]
    if sim.resumed_attempt:
        cls.append("agree:resumption-attempted")
    ctx.case(("agree", repr(case)), nontrivial=(not compatible) or (diff >= 2 and c_done and s_done), classes=cls)
    rcase = dict(case)
    if not compatible and (c_done or s_done):
        ctx.violation(
            "handshake-completed-without-common-option",
            "configurations share no %s but %s reported HandshakeCompleted" % ("cipher suite" if not common_suite else "QUIC version" if not common_ver else "ALPN protocol", "both endpoints" if c_done and s_done else ("the client" if c_done else "the server")),
            rcase,
        )
        return
    if compatible and not case["fates"] and not (c_done and s_done):
        ctx.violation(
            "compatible-configurations-do-not-complete-on-a-lossless-network",
            "suites %r/%r, versions %r/%r (original %r), ALPN %r/%r, leaf %s, resume=%s, retry=%s: client completed=%s, server completed=%s; client close %r, server close %r"
            % (case["c_suites"], case["s_suites"], case["c_versions"], case["s_versions"], case["c_original"], case["c_alpn"], case["s_alpn"], case["leaf"], case["resume"], case["retry"], c_done, s_done,
               getattr(sim.ep["c"].conn, "_close_event", None), getattr(sim.ep["s"].conn, "_close_event", None)),
            rcase,
        )
        return
    if c_done and s_done:
        cl = R.parse_keylog(sim.c_keylog.getvalue())
        sl = R.parse_keylog(sim.keylog.getvalue())
        # the early traffic secret only exists on both sides when the server accepted the client's PSK: compare it when both logged it
        early_labels = ("CLIENT_EARLY_TRAFFIC_SECRET",)
        both = set(cl) & set(sl)
        cl2 = {k: v for k, v in cl.items() if k[0] not in early_labels or k in both}
        sl2 = {k: v for k, v in sl.items() if k[0] not in early_labels or k in both}
        if cl2 != sl2:
            ctx.violation("endpoints-hold-different-secrets", "key logs differ: client-only %r, server-only %r, different values %r" % (sorted(k[0] for k in set(cl2) - set(sl2)), sorted(k[0] for k in set(sl2) - set(cl2)), sorted(k[0] for k in set(cl2) & set(sl2) if cl2[k] != sl2[k])), rcase)
        if len(cl2) < 4:
            ctx.violation("endpoints-hold-different-secrets", "the client's key log has only %r" % sorted(k[0] for k in cl2), rcase)
        c, s = sim.ep["c"].conn, sim.ep["s"].conn
        ver = (c._version, s._version)
        suite = (int(c.tls.key_schedule.cipher_suite), int(s.tls.key_schedule.cipher_suite))
        alpn = (mon.hs["c"].alpn_protocol, mon.hs["s"].alpn_protocol)
        resumed = (mon.hs["c"].session_resumed, mon.hs["s"].session_resumed)
        early = (mon.hs["c"].early_data_accepted, mon.hs["s"].early_data_accepted)
        for name, pair in (("version", ver), ("cipher-suite", suite), ("alpn", alpn), ("session-resumed", resumed), ("early-data-accepted", early)):
            if pair[0] != pair[1]:
                ctx.violation("endpoints-disagree-on-" + name, "client reports %r, server reports %r" % pair, rcase)
        if ver[0] not in case["c_versions"] or ver[0] not in case["s_versions"]:
            ctx.violation("negotiated-version-not-configured", "version 0x%x, client list %r, server list %r" % (ver[0], case["c_versions"], case["s_versions"]), rcase)
        if suite[0] not in case["c_suites"] or suite[0] not in case["s_suites"]:
            ctx.violation("negotiated-cipher-suite-not-configured", "suite 0x%x, client list %r, server list %r" % (suite[0], case["c_suites"], case["s_suites"]), rcase)
        if alpn[0] is not None and (case["c_alpn"] is None or alpn[0] not in case["c_alpn"] or (case["s_alpn"] is not None and alpn[0] not in case["s_alpn"])):
            ctx.violation("negotiated-alpn-not-configured", "ALPN %r, client list %r, server list %r" % (alpn[0], case["c_alpn"], case["s_alpn"]), rcase)
        if resumed[0]:
            ctx.cls("agree:resumed")


from vlib import simnet as _simnet  # noqa: E402


class AgreementSim(_simnet.Sim):
    """simnet.Sim with per-side cipher suites / ALPN and optional resumption from a prior connection"""

    resumed_attempt = False

    def build(self):
        import aioquic.tls as T
        from vlib import endpoints as E
        from aioquic.quic.connection import QuicConnection

        super().build()
        cfg = self.cfg
        self.ccfg.cipher_suites = [T.CipherSuite(x) for x in cfg["c_suites"]]
        self.scfg.cipher_suites = [T.CipherSuite(x) for x in cfg["s_suites"]]
        self.ccfg.alpn_protocols = cfg["c_alpn"]
        self.scfg.alpn_protocols = cfg["s_alpn"]
        self.tickets = {}
        self.server_kwargs = {}
        if cfg.get("resume"):
            got = []
            store = self.tickets
            # a prior, lossless connection with the same configurations provides the ticket
            # ... except, sometimes, for the client's cipher suites: the ticket may then belong to a suite the new connection does not negotiate
            c0cfg = self._copy_cfg(self.ccfg)
            if cfg.get("t_suites"):
                c0cfg.cipher_suites = [T.CipherSuite(x) for x in cfg["t_suites"]]
            c0 = QuicConnection(configuration=c0cfg, session_ticket_handler=got.append)
            c0.connect(E.SERVER_ADDR, now=0.0)
            s0 = QuicConnection(configuration=self._copy_cfg(self.scfg), original_destination_connection_id=c0.original_destination_connection_id, session_ticket_fetcher=lambda k: store.pop(k, None), session_ticket_handler=lambda t: store.__setitem__(t.ticket, t))
            now = 0.0
            for _ in range(8):
                now += 0.001
                a = E.transfer(c0, s0, now, E.CLIENT_ADDR)
                now += 0.001
                b = E.transfer(s0, c0, now, E.SERVER_ADDR)
                if s0._version is not None and s0._version != c0._version and not a and not b:
                    break
                if not a and not b:
                    break
            if got:
                self.ccfg.session_ticket = got[0]
                self.resumed_attempt = True
            self.server_kwargs = {"session_ticket_fetcher": lambda k: store.pop(k, None), "session_ticket_handler": lambda t: store.__setitem__(t.ticket, t)}
            self.ep["c"].conn = QuicConnection(configuration=self.ccfg)

    def _copy_cfg(self, cfg):
        import copy

        c = copy.copy(cfg)
        c.secrets_log_file = None
        c.quic_logger = None
        return c

    def server_receive(self, data, src, now):
        created_before = self.ep["s"].conn is not None
        ok = super().server_receive(data, src, now)
        if ok and not created_before and self.server_kwargs:
            from aioquic.quic.connection import QuicConnection

            old = self.ep["s"].conn
            self.ep["s"].conn = QuicConnection(
                configuration=self.scfg, original_destination_connection_id=old._original_destination_connection_id, retry_source_connection_id=old._retry_source_connection_id, **self.server_kwargs
            )
        return ok


def replay(ctx, case):
    k = case.get("kind")
    ctx.case(None, True)
    if k == "alter":
        idx = [i for i, v in enumerate(VARIANTS) if v["name"] == case["variant"]][0]
        _, c2, s2, receiver = run_handshake(VARIANTS[idx], alter=(case["message_index"], case["position"], case["mask"]))
        if receiver is not None and receiver.done():
            ctx.violation("altered-handshake-message-accepted", "byte %d of message %d xor 0x%02x accepted" % (case["position"], case["message_index"], case["mask"]), case)
    elif k == "auth":
        auth_matrix(ctx)
    elif k == "tp":
        tp_auth(ctx)
    elif k == "chain":
        chain_compositions(ctx, 2 if len(case["extras"]) <= 2 else len(case["extras"]))
    elif k == "agree":
        agreement_case(ctx, case)


def plan(tier, seed):
    q = tier == "quick"
    t = []
    for i, v in enumerate(VARIANTS):
        parts = 1 if q else 3
        for p in range(parts):
            t.append(("alter-%s-%d" % (v["name"], p), {"fn": "alter", "variant": i, "thorough": not q, "part": p, "nparts": parts}))
    t.append(("auth-matrix", {"fn": "auth"}))
    t.append(("tp-auth", {"fn": "tp"}))
    t.append(("chain-compositions", {"fn": "chains", "max_extras": 2 if q else 6}))
    for s in range(6 if q else 8):
        t.append(("agreement-%d" % s, {"fn": "agree", "examples": 120 if q else 5000, "shard": s}))
    return t


def run_task(ctx, name, fn, **kw):
    if fn == "alter":
        alteration_task(ctx, kw["variant"], kw["thorough"], kw["part"], kw["nparts"])
    elif fn == "auth":
        auth_matrix(ctx)
    elif fn == "tp":
        tp_auth(ctx)
    elif fn == "chains":
        chain_compositions(ctx, kw["max_extras"])
    else:
        agreement_task(ctx, kw["examples"], kw["shard"])
