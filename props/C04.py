"""C04 - the native helpers never access memory out of bounds.

Every task runs in a child interpreter that loads the clang ASan+UBSan build of
the *current* _buffer.c / _crypto.c (vlib/asanrun.py).  Three observers:
  (i)   the sanitizers (any report stops the child; the parent turns it into a violation);
  (ii)  an access contract evaluated in Python from the arguments of each call
        (needed where ASan is blind: overflow from one struct member into the
        next, reads done inside uninstrumented libcrypto);
  (iii) usability: a known-answer seal / open / mask on the same object after
        rejected calls, and a bytearray model for Buffer.
"""
import os
import re

PROPERTY = "C04"
LEVEL = "exploration"
RULE = (
    "one evaluation = one call (or, for Buffer, one generated sequence of <= 40 calls on one object; for datagrams, one endpoint state fed 1-6 generated "
    "datagrams; for built packets, one connection run with one max_datagram_size) executed against the ASan+UBSan build of the current C sources. "
    "AEAD.encrypt: plaintext 0..1600 x AAD {1,20,60} x 3 ciphers; AEAD.decrypt: 0..1600 (garbage and genuine ciphertexts); HeaderProtection.apply: "
    "header 0..70 and 1400..1510 x pn-length bits x payload 0..40 and 1380..1600; HeaderProtection.remove: packet 0..1600 x offset 0..len+8 and "
    "{-1, 2^31-1, 2^31, 2^32-1, 2^32} (quick: boundary neighbourhoods; thorough: every value). Buffer: capacities 0..64 / data= constructors, all 18 "
    "methods with integers from a boundary set and bytes 0..80 long against a bytearray model. Datagrams: long headers with CID lengths 0..255, "
    "truthful/lying/huge token and Length varints, genuine Initial packets sealed with the reference implementation at sizes around 1500, short headers "
    "shorter than CID+20, total sizes up to 65535, delivered to fresh servers, clients in first flight, endpoints in handshake and connected endpoints, with "
    "contract-checking proxies around every AEAD/HeaderProtection call the library makes. Built packets: handshake + bulk transfer + DATAGRAM frames for "
    "max_datagram_size from 1200 upwards under the same proxies. A call violates the contract when it returns normally although a byte range it must touch "
    "lies outside its argument or the fixed scratch storage. Non-trivial = a length/offset within 32 of a boundary (0, 16, 20, scratch size, capacity), a "
    "Buffer sequence with a rejected or end-crossing op, a datagram that reached header-protection removal, a connection that sealed >= 10 packets. "
    "Distinct by the arguments."
)
ASSUMPTIONS = [
    "AddressSanitizer cannot see reads inside libcrypto nor intra-object overflow; the Python-side contract covers those two for the four C entry points",
    "the scratch size is read from `#define PACKET_LENGTH_MAX` of the current _crypto.c",
    "-fsanitize=pointer-overflow is excluded: forming `pos + len` without dereferencing it is not an access",
    "any Python exception is an acceptable rejection; the helper must behave normally afterwards",
]

VERIF = os.path.dirname(os.path.dirname(os.path.abspath(__file__)))


def scratch_size():
    repo = os.environ.get("VERIF_REPO") or "/repo"
    with open(os.path.join(repo, "src", "aioquic", "_crypto.c")) as f:
        m = re.search(r"#define\s+PACKET_LENGTH_MAX\s+(\d+)", f.read())
    return int(m.group(1)) if m else 1500


# ---------------------------------------------------------------------------------------------- parent side


def plan(tier, seed):
    q = tier == "quick"
    t = []
    for c in ("aes-128", "aes-256", "chacha20"):
        t.append(("aead-%s" % c, {"fn": "aead", "cipher": c, "thorough": not q}))
        t.append(("hp-apply-%s" % c, {"fn": "hp-apply", "cipher": c, "thorough": not q}))
        if q:
            t.append(("hp-remove-%s" % c, {"fn": "hp-remove", "cipher": c, "thorough": False, "part": 0, "nparts": 1}))
        else:
            for p in range(3):
                t.append(("hp-remove-%s-%d" % (c, p), {"fn": "hp-remove", "cipher": c, "thorough": True, "part": p, "nparts": 3}))
    t.append(("buffer-args", {"fn": "buffer-args"}))
    for s in range(2 if q else 4):
        t.append(("buffer-machine-%d" % s, {"fn": "buffer", "examples": 400 if q else 40000, "shard": s}))
    for s in range(3 if q else 6):
        t.append(("datagrams-%d" % s, {"fn": "datagrams", "examples": 70 if q else 6000, "shard": s}))
    mds = sorted(set([1200, 1201, 1252, 1280, 1350, 1400, 1452, 1472] + list(range(1480, 1521, 4 if q else 1)) + [1500, 1501, 1516, 1517, 1600, 2048, 4096, 9000, 65535] + ([] if q else list(range(1200, 1700, 7)))))
    n = 4 if q else 8
    for i in range(n):
        t.append(("built-packets-%d" % i, {"fn": "built", "sizes": mds[i::n]}))
    return t


def run_task(ctx, name, **kw):
    from vlib import asanrun

    asanrun.run_child(ctx, PROPERTY, name, kw, timeout=float(os.environ.get("VERIF_TASK_TIMEOUT", "1400" if ctx.tier == "quick" else "14000")))


def replay(ctx, case):
    from vlib import asanrun

    ctx.case(None, True)
    asanrun.run_child(ctx, PROPERTY, "replay", {"fn": "replay", "case": case}, timeout=600)


# ---------------------------------------------------------------------------------------------- child side


def child_task(ctx, name, fn, **kw):
    if fn == "replay":
        return child_replay(ctx, kw["case"])
    {"aead": aead_grid, "hp-apply": hp_apply_grid, "hp-remove": hp_remove_grid, "buffer-args": buffer_args, "buffer": buffer_machine, "datagrams": datagrams_task, "built": built_task}[fn](ctx, **kw)


def child_replay(ctx, case):
    k = case.get("kind")
    if k == "crash":
        cur = case.get("current") or {}
        if cur.get("kind") in (None, "crash"):
            return
        return child_replay(ctx, cur)
    if k == "call":
        obj = Objects(case["cipher"])
        one_call(ctx, obj, case["op"], case["args"], scratch_size())
    elif k == "buffer":
        buffer_case(ctx, case)
    elif k == "buffer-arg":
        buffer_arg_case(ctx, case["ctor"], case["pos"], case["method"], case["arg"])
    elif k == "datagrams":
        with Proxies(ctx) as px:
            datagrams_case(ctx, case, px)
    elif k == "built":
        with Proxies(ctx) as px:
            built_case(ctx, case["mds"], px)


CIPHERS = {"aes-128": (0x1301, b"aes-128-ecb", b"aes-128-gcm", 16), "aes-256": (0x1302, b"aes-256-ecb", b"aes-256-gcm", 32), "chacha20": (0x1303, b"chacha20", b"chacha20-poly1305", 32)}
SUITE_NAME = {"aes-128": "AES128", "aes-256": "AES256", "chacha20": "CHACHA"}
_POOL = None


def pool_bytes(n, salt=0):
    """deterministic filler bytes"""
    global _POOL
    if _POOL is None:
        import hashlib

        _POOL = b"".join(hashlib.sha256(b"c04-pool-%d" % i).digest() for i in range(3000))
    o = (salt * 131) % 4096
    while len(_POOL) < o + n:
        _POOL += _POOL
    return _POOL[o : o + n]


class Objects:
    """one AEAD + one HeaderProtection object of the build under test, and their independent reference"""

    def __init__(self, cipher):
        from aioquic import _crypto
        from vlib import refquic as R

        self.cipher = cipher
        suite, hp_name, aead_name, klen = CIPHERS[cipher]
        secret = bytes(range(48 if suite == 0x1302 else 32))
        self.keys = R.derive_keys(getattr(R, SUITE_NAME[cipher]), R.V1, secret)
        self.aead = _crypto.AEAD(aead_name, self.keys.key, self.keys.iv)
        self.hp = _crypto.HeaderProtection(hp_name, self.keys.hp)
        self.CryptoError = _crypto.CryptoError
        self.R = R
        self.kat_header = b"\x43" + bytes(range(8)) + b"\x00\x00\x12\x34"
        self.kat_payload = b"known answer " * 3
        self.kat_packet = R.protect(self.keys, self.kat_header, 0x1234, self.kat_payload)
        # usability is judged against the object's own behaviour before any rejected call (functional correctness is C02's subject)
        self.baseline = None
        self.baseline = self._kat()

    def kat(self):
        """-> None or a description of what no longer works (compared with the fresh object)"""
        now = self._kat()
        return None if now == self.baseline else (now or "known-answer operations work again although they did not on the fresh object")

    def _kat(self):
        try:
            sealed = self.aead.encrypt(self.kat_payload, self.kat_header, 0x1234)
            pkt = self.hp.apply(self.kat_header, sealed)
            if pkt != self.kat_packet:
                return "seal + header protection of the known packet differs from the reference"
            hdr, pn = self.hp.remove(self.kat_packet, 9)
            if hdr != self.kat_header or pn != 0x1234:
                return "header protection removal of the known packet gives %r, %r" % (hdr, pn)
            pt = self.aead.decrypt(self.kat_packet[len(hdr) :], hdr, 0x1234)
            if pt != self.kat_payload:
                return "opening the known packet gives different plaintext"
        except Exception as e:  # noqa
            return "known-answer operation raised %r" % (e,)
        return None


def contract(op, args, scratch):
    """-> None when a normal return is memory safe, else the reason"""
    if op == "encrypt":
        data, aad, pn = args
        if len(data) + 16 > scratch:
            return "writes %d ciphertext+tag bytes into the %d-byte scratch" % (len(data) + 16, scratch)
    elif op == "decrypt":
        data, aad, pn = args
        if len(data) < 16:
            return "reads a 16-byte tag from %d bytes" % len(data)
        if len(data) - 16 > scratch:
            return "writes %d plaintext bytes into the %d-byte scratch" % (len(data) - 16, scratch)
    elif op == "apply":
        header, payload = args
        if len(header) < 1:
            return "reads the first byte of an empty header"
        pnl = (header[0] & 3) + 1
        if len(header) - pnl < 0:
            return "packet number offset %d is negative" % (len(header) - pnl)
        if len(payload) < 4 - pnl + 16:
            return "samples payload[%d:%d] of a %d-byte payload" % (4 - pnl, 4 - pnl + 16, len(payload))
        if len(header) + len(payload) > scratch:
            return "copies %d bytes into the %d-byte scratch" % (len(header) + len(payload), scratch)
    elif op == "remove":
        packet, off = args
        if off < 0:
            return "negative offset"
        if off + 4 + 16 > len(packet):
            return "samples packet[%d:%d] of a %d-byte packet" % (off + 4, off + 20, len(packet))
        if off + 4 > scratch:
            return "copies %d bytes into the %d-byte scratch" % (off + 4, scratch)
    return None


def one_call(ctx, obj, op, args, scratch, kat_every=False):
    """call, judge by the contract, check usability after a rejection; -> 'ok' | 'raised'"""
    target = obj.aead if op in ("encrypt", "decrypt") else obj.hp
    try:
        res = getattr(target, op)(*args)
        raised = None
    except Exception as e:  # noqa - any Python exception is a rejection
        raised = e
        res = None
    case = {"kind": "call", "cipher": obj.cipher, "op": op, "args": list(args)}
    if raised is None:
        why = contract(op, args, scratch)
        if why is not None:
            ctx.violation("%s-accepts-unsafe-arguments" % op, "%s(%s) returned normally although it %s" % (op, ", ".join(("%d bytes" % len(a)) if isinstance(a, bytes) else str(a) for a in args), why), case)
        # functional cross-check of accepted calls against the reference
        if op == "encrypt":
            want = obj.R.protect(obj.keys, b"\x40" + args[1][1:] + b"\x00\x00\x00\x00", args[2], args[0], strict=False) if False else None
            del want
    if raised is not None or kat_every:
        bad = obj.kat()
        if bad is not None:
            ctx.violation("%s-leaves-helper-unusable" % op, "after %s(%s) -> %r: %s" % (op, ", ".join(("%d bytes" % len(a)) if isinstance(a, bytes) else str(a) for a in args), raised, bad), case)
    return "raised" if raised is not None else "ok"


def near(v, bounds, d=32):
    return any(abs(v - b) <= d for b in bounds)


def aead_grid(ctx, cipher, thorough):
    from cryptography.hazmat.primitives.ciphers.aead import AESGCM, ChaCha20Poly1305

    S = scratch_size()
    obj = Objects(cipher)
    ref = (ChaCha20Poly1305 if cipher == "chacha20" else AESGCM)(obj.keys.key)

    def nonce(pn):
        return bytes(a ^ b for a, b in zip(obj.keys.iv, pn.to_bytes(12, "big")))

    lens = range(0, S + 101) if thorough else sorted(set(list(range(0, 48)) + list(range(S - 60, S + 41)) + [100, 600, 1200, 1350, 4096, 70000]))
    bounds = (0, 16, S - 16, S)
    n = 0
    for L in lens:
        for A in (1, 20, 60):
            n += 1
            pn = (L * 2654435761 + A) & 0x3FFFFFFF
            data, aad = pool_bytes(L, L), pool_bytes(A, A + 7)
            # --- seal
            ctx.current.set('{"kind":"call","cipher":"%s","op":"encrypt","args":[{"hex":"%s"},{"hex":"%s"},%d]}' % (cipher, data.hex(), aad.hex(), pn))
            ctx.case(("enc", cipher, L, A), nontrivial=near(L, bounds), classes=["aead:encrypt"])
            try:
                out = obj.aead.encrypt(data, aad, pn)
                raised = None
            except Exception as e:  # noqa
                out, raised = None, e
            case = {"kind": "call", "cipher": cipher, "op": "encrypt", "args": [data, aad, pn]}
            if raised is None:
                ctx.cls("aead:encrypt:accepted")
                why = contract("encrypt", (data, aad, pn), S)
                if why:
                    ctx.violation("encrypt-accepts-unsafe-arguments", "encrypt(%d bytes, %d bytes AAD) returned normally although it %s" % (L, A, why), case)
                elif out != ref.encrypt(nonce(pn), data, aad):
                    ctx.cls("functional:encrypt-output-differs-from-reference")  # C02's subject
            else:
                ctx.cls("aead:encrypt:rejected")
            if raised is not None or n % 16 == 0:
                bad = obj.kat()
                if bad:
                    ctx.violation("encrypt-leaves-helper-unusable", "after encrypt(%d bytes) -> %r: %s" % (L, raised, bad), case)
            # --- open: genuine ciphertext of L bytes of plaintext, and L garbage bytes
            for genuine in (True, False):
                ct = ref.encrypt(nonce(pn), data, aad) if genuine else data
                ctx.current.set('{"kind":"call","cipher":"%s","op":"decrypt","args":[{"hex":"%s"},{"hex":"%s"},%d]}' % (cipher, ct.hex(), aad.hex(), pn))
                ctx.case(("dec", cipher, len(ct), A, genuine), nontrivial=near(len(ct), bounds), classes=["aead:decrypt:" + ("genuine" if genuine else "garbage")])
                try:
                    pt = obj.aead.decrypt(ct, aad, pn)
                    raised = None
                except Exception as e:  # noqa
                    pt, raised = None, e
                case = {"kind": "call", "cipher": cipher, "op": "decrypt", "args": [ct, aad, pn]}
                if raised is None:
                    ctx.cls("aead:decrypt:accepted")
                    why = contract("decrypt", (ct, aad, pn), S)
                    if why:
                        ctx.violation("decrypt-accepts-unsafe-arguments", "decrypt(%d bytes) returned normally although it %s" % (len(ct), why), case)
                    elif not genuine or pt != data:
                        ctx.cls("functional:decrypt-output-differs-from-reference")  # C02's subject
                if raised is not None and n % 8 == 0:
                    bad = obj.kat()
                    if bad:
                        ctx.violation("decrypt-leaves-helper-unusable", "after decrypt(%d bytes) -> %r: %s" % (len(ct), raised, bad), case)
            if ctx.want_sample():
                ctx.sample({"kind": "call", "cipher": cipher, "op": "encrypt/decrypt", "plaintext_len": L, "aad_len": A, "encrypt_raised": repr(raised) if raised else None})
    # odd packet numbers
    for pn in (0, 1, (1 << 62) - 1, (1 << 64) - 1):
        one_call(ctx, obj, "encrypt", (b"x" * 20, b"h", pn), S, kat_every=True)
        ctx.case(("enc-pn", cipher, pn), True, ["aead:pn"])
    for pn in (-1, 1 << 64, 1 << 70):
        ctx.case(("enc-pn", cipher, pn), True, ["aead:pn-out-of-range"])
        one_call(ctx, obj, "encrypt", (b"x" * 20, b"h", pn), S)
    ctx.extra["scratch"] = S
    ctx.extra["exhaustive"] = bool(thorough)


def hp_apply_grid(ctx, cipher, thorough):
    S = scratch_size()
    obj = Objects(cipher)
    R = obj.R
    hlens = list(range(0, 71)) + (list(range(S - 100, S + 11)) if thorough else [S - 100, S - 30, S - 21, S - 20, S - 19, S - 1, S, S + 1, S + 10])
    plens = (list(range(0, 41)) + list(range(S - 120, S + 101))) if thorough else sorted(set(list(range(0, 26)) + [30, 40, 100, 1200] + list(range(S - 90, S + 3, 3)) + [S - 20, S - 19, S - 18, S - 1, S, S + 1, S + 100, 4000, 70000]))
    bounds = (0, 16, 20, S)
    n = 0
    for hl in hlens:
        for first in (0x40, 0x41, 0x42, 0x43, 0xC0, 0xC3):
            header = (bytes([first]) + pool_bytes(max(0, hl - 1), hl))[:hl]
            for pl in plens:
                if not thorough and hl > 70 and pl > 40 and not near(hl + pl, (S,), 3):
                    continue
                n += 1
                payload = pool_bytes(pl, pl + 3)
                ctx.current.set('{"kind":"call","cipher":"%s","op":"apply","args":[{"hex":"%s"},{"hex":"%s"}]}' % (cipher, header.hex(), payload.hex()))
                ctx.case(("apply", cipher, hl, first, pl), nontrivial=near(pl, bounds) or near(hl + pl, (S,)), classes=["hp:apply"])
                try:
                    out = obj.hp.apply(header, payload)
                    raised = None
                except Exception as e:  # noqa
                    out, raised = None, e
                case = {"kind": "call", "cipher": cipher, "op": "apply", "args": [header, payload]}
                if raised is None:
                    ctx.cls("hp:apply:accepted")
                    why = contract("apply", (header, payload), S)
                    if why:
                        ctx.violation("apply-accepts-unsafe-arguments", "apply(%d-byte header with first byte 0x%02x, %d-byte payload) returned normally although it %s" % (hl, first, pl, why), case)
                    else:
                        pnl = (first & 3) + 1
                        mask = R.hp_mask(obj.keys, payload[4 - pnl : 4 - pnl + 16])
                        want = bytearray(header + payload)
                        want[0] ^= mask[0] & (0x0F if first & 0x80 else 0x1F)
                        for i in range(pnl):
                            want[hl - pnl + i] ^= mask[1 + i]
                        if hl - pnl >= 1 and out != bytes(want):
                            ctx.cls("functional:apply-output-differs-from-reference")  # C02's subject
                else:
                    ctx.cls("hp:apply:rejected")
                if raised is not None and n % 8 == 0 or n % 64 == 0:
                    bad = obj.kat()
                    if bad:
                        ctx.violation("apply-leaves-helper-unusable", "after apply(%d, %d) -> %r: %s" % (hl, pl, raised, bad), case)
                if ctx.want_sample():
                    ctx.sample({"kind": "call", "cipher": cipher, "op": "apply", "header_len": hl, "first_byte": first, "payload_len": pl, "raised": repr(raised) if raised else None})
    ctx.extra["exhaustive"] = bool(thorough)


def hp_remove_grid(ctx, cipher, thorough, part, nparts):
    S = scratch_size()
    obj = Objects(cipher)
    R = obj.R
    plens = range(0, S + 101) if thorough else sorted(set(list(range(0, 64)) + [100, 1200] + list(range(S - 30, S + 31)) + [4096, 70000]))
    odd = [-1, (1 << 31) - 1, 1 << 31, (1 << 32) - 1, 1 << 32, 1 << 40]
    bounds = (0, 20, S - 4, S)
    n = 0
    for pl in plens:
        if pl % nparts != part:
            continue
        packet = pool_bytes(pl, pl + 11)
        offs = list(range(0, pl + 9)) if (thorough or pl < 64) else sorted(set(list(range(0, 12)) + list(range(max(0, pl - 40), pl + 9)) + list(range(max(0, S - 12), S + 6))))
        for off in offs + (odd if pl % 16 == 0 or pl < 40 else []):
            n += 1
            if n % 64 == 1 or near(off, (pl - 20, S - 4), 2) or off in odd:
                ctx.current.set('{"kind":"call","cipher":"%s","op":"remove","args":[{"hex":"%s"},%d]}' % (cipher, packet.hex(), off))
            ctx.case(("remove", cipher, pl, off), nontrivial=near(off, (pl - 20, S - 4)) or off in odd, classes=["hp:remove"])
            try:
                hdr, pn = obj.hp.remove(packet, off)
                raised = None
            except Exception as e:  # noqa
                raised = e
            if raised is None:
                ctx.cls("hp:remove:accepted")
                why = contract("remove", (packet, off), S)
                case = {"kind": "call", "cipher": cipher, "op": "remove", "args": [packet, off]}
                if why:
                    ctx.violation("remove-accepts-unsafe-arguments", "remove(%d-byte packet, offset %d) returned normally although it %s" % (pl, off, why), case)
                elif off >= 1:
                    mask = R.hp_mask(obj.keys, packet[off + 4 : off + 20])
                    first = packet[0] ^ (mask[0] & (0x0F if packet[0] & 0x80 else 0x1F))
                    pnl = (first & 3) + 1
                    want = bytearray(packet[: off + pnl])
                    want[0] = first
                    tr = 0
                    for i in range(pnl):
                        want[off + i] ^= mask[1 + i]
                        tr = (tr << 8) | want[off + i]
                    if hdr != bytes(want) or pn != tr:
                        ctx.cls("functional:remove-output-differs-from-reference")  # C02's subject
            else:
                ctx.cls("hp:remove:rejected")
            if (raised is not None and n % 32 == 0) or n % 256 == 0:
                bad = obj.kat()
                if bad:
                    ctx.violation("remove-leaves-helper-unusable", "after remove(%d-byte packet, %d) -> %r: %s" % (pl, off, raised, bad), {"kind": "call", "cipher": cipher, "op": "remove", "args": [packet, off]})
            if ctx.want_sample():
                ctx.sample({"kind": "call", "cipher": cipher, "op": "remove", "packet_len": pl, "offset": off, "raised": repr(raised) if raised else None})
    ctx.extra["exhaustive"] = bool(thorough)


# ---------------------------------------------------------------------------------------------- Buffer

INT_ARGS = [-(1 << 63) - 1, -(1 << 63), -(1 << 31), -2, -1, 0, 1, 2, 3, 7, 8, 9, 15, 16, 17, 63, 64, 65, 127, 128, 255, 256, 16383, 16384, 65535, 65536, (1 << 30) - 1, 1 << 30, (1 << 31) - 1, 1 << 31, (1 << 32) - 1, 1 << 32, (1 << 62) - 1, 1 << 62, (1 << 63) - 1, 1 << 63, (1 << 64) - 1, 1 << 64, 1 << 70]
WIDTH = {"uint8": 1, "uint16": 2, "uint32": 4, "uint64": 8}


class BufModel:
    """bytearray model; None = byte never written (malloc'd memory)"""

    def __init__(self, capacity=None, data=None):
        if data is not None:
            self.mem = list(data)
        else:
            self.mem = [None] * capacity
        self.cap = len(self.mem)
        self.pos = 0

    def op(self, name, arg):
        """-> ("ok", value) | ("err",) ; value None = unpredictable (uninitialised bytes)"""
        m, p, c = self.mem, self.pos, self.cap
        if name == "tell":
            return ("ok", p)
        if name == "eof":
            return ("ok", p == c)
        if name == "capacity":
            return ("ok", c)
        if name == "data":
            return ("ok", self._bytes(0, p))
        if name == "seek":
            if not isinstance(arg, int) or arg < 0 or arg > c:
                return ("err",)
            self.pos = arg
            return ("ok", None) if False else ("ok", "none")
        if name == "data_slice":
            a, b = arg
            if not (0 <= a <= c and 0 <= b <= c and a <= b):
                return ("err",)
            return ("ok", self._bytes(a, b))
        if name == "pull_bytes":
            if arg < 0 or p + arg > c:
                return ("err",)
            self.pos = p + arg
            return ("ok", self._bytes(p, p + arg))
        if name.startswith("pull_uint") and name != "pull_uint_var":
            w = WIDTH[name[5:]]
            if p + w > c:
                return ("err",)
            self.pos = p + w
            b = self._bytes(p, p + w)
            return ("ok", None if b is None else int.from_bytes(b, "big"))
        if name == "pull_uint_var":
            if p + 1 > c:
                return ("err",)
            if m[p] is None:
                return ("unknown",)
            w = 1 << (m[p] >> 6)
            if p + w > c:
                return ("err",)
            self.pos = p + w
            b = self._bytes(p, p + w)
            return ("ok", None if b is None else int.from_bytes(b, "big") & ((1 << (8 * w - 2)) - 1))
        if name == "push_bytes":
            if p + len(arg) > c:
                return ("err",)
            m[p : p + len(arg)] = list(arg)
            self.pos = p + len(arg)
            return ("ok", "none")
        if name.startswith("push_uint") and name != "push_uint_var":
            w = WIDTH[name[5:]]
            if arg < 0 or arg >= 1 << (8 * w) or p + w > c:
                return ("err",)
            m[p : p + w] = list(arg.to_bytes(w, "big"))
            self.pos = p + w
            return ("ok", "none")
        if name == "push_uint_var":
            if arg < 0 or arg >= 1 << 62:
                return ("err",)
            w = 1 if arg < 64 else 2 if arg < 16384 else 4 if arg < 1 << 30 else 8
            if p + w > c:
                return ("err",)
            v = arg | ({1: 0, 2: 1, 4: 2, 8: 3}[w] << (8 * w - 2))
            m[p : p + w] = list(v.to_bytes(w, "big"))
            self.pos = p + w
            return ("ok", "none")
        raise KeyError(name)

    def _bytes(self, a, b):
        s = self.mem[a:b]
        if any(x is None for x in s):
            return None
        return bytes(s)


def make_buffer(ctor):
    from aioquic._buffer import Buffer

    kind, v = ctor
    if kind == "capacity":
        return Buffer(capacity=v), BufModel(capacity=v)
    if kind == "positional":
        return Buffer(v), BufModel(capacity=v)
    if kind == "both":
        # both arguments: the data decides the size
        return Buffer(capacity=v[0], data=v[1]), BufModel(data=v[1])
    if kind == "both-positional":
        return Buffer(v[0], v[1]), BufModel(data=v[1])
    return Buffer(data=v), BufModel(data=v)


def apply_buffer_op(buf, name, arg):
    if name in ("capacity", "data"):
        return getattr(buf, name)
    if name in ("tell", "eof") or (name.startswith("pull_uint")):
        return getattr(buf, name)()
    if name == "data_slice":
        return buf.data_slice(*arg)
    return getattr(buf, name)(arg)


def check_buffer_reinit(ctx, buf, model, arg, case, step):
    """__init__ called again on a live object (what Python allows any caller to do): a new buffer on success; when the request is unusable
    (a size no allocator can satisfy, an out-of-range integer) a Python exception, and the object is either what it was or an empty buffer"""
    kind, v = arg
    try:
        if kind == "capacity":
            buf.__init__(capacity=v)
            new = BufModel(capacity=v)
        else:
            data = bytes((3 * i + 1) & 0xFF for i in range(v))
            buf.__init__(data=data)
            new = BufModel(data=data)
    except Exception as e:  # noqa
        cap, pos = buf.capacity, buf.tell()
        if (cap, pos) == (0, 0):
            model.mem, model.cap, model.pos = [], 0, 0
        elif (cap, pos) != (model.cap, model.pos):
            ctx.violation("buffer-inconsistent-after-rejected-reinit", "step %d: __init__(%s=%r) on a live buffer raised %r and left capacity=%d position=%d (before: capacity %d, position %d)" % (step, kind, v, e, cap, pos, model.cap, model.pos), case)
        return "err"
    model.mem, model.cap, model.pos = new.mem, new.cap, new.pos
    return "ok"


def check_buffer_step(ctx, buf, model, name, arg, case, step, div):
    """One op on the object and on the model.  Memory-safety findings are violations; functional divergences from the
    model (wrong value, in-bounds op refused) are appended to `div` - they concern C04 only when a rejected op caused them."""
    if name == "reinit":
        return check_buffer_reinit(ctx, buf, model, arg, case, step)
    before = (model.pos, list(model.mem))
    exp = model.op(name, arg)
    try:
        got = apply_buffer_op(buf, name, arg)
        raised = None
    except Exception as e:  # noqa
        got, raised = None, e
    desc = "step %d: %s(%s)" % (step, name, (("%d bytes" % len(arg)) if isinstance(arg, bytes) else repr(arg)) if arg is not None else "")
    if exp[0] == "unknown":
        # length prefix read from never-written memory: resynchronise the model with the object
        model.pos = buf.tell()
        return "unknown"
    if exp[0] == "err":
        model.pos, model.mem = before
        if raised is None:
            ctx.violation("buffer-accepts-out-of-bounds-%s" % name, "%s returned %r although it lies outside the buffer (capacity %d, position %d)" % (desc, got, model.cap, before[0]), case)
        # a rejected call leaves the object as it was
        if buf.tell() != model.pos or buf.capacity != model.cap:
            ctx.violation("buffer-state-changed-by-rejected-%s" % name, "%s raised %r and moved the position to %d (was %d)" % (desc, raised, buf.tell(), model.pos), case)
        return "err"
    if raised is not None:
        model.pos, model.mem = before
        if not isinstance(raised, MemoryError):
            div.append((step, "%s raised %r although it lies inside the buffer (capacity %d, position %d)" % (desc, raised, model.cap, before[0])))
        if buf.tell() != model.pos:
            model.pos = max(0, min(model.cap, buf.tell()))
        return "refused"
    v = exp[1]
    if v == "none":
        if got is not None:
            div.append((step, "%s returned %r" % (desc, got)))
    elif v is not None and got != v:
        div.append((step, "%s returned %r, the model says %r" % (desc, got, v)))
    if buf.tell() != model.pos:
        div.append((step, "%s left the position at %d, the model says %d" % (desc, buf.tell(), model.pos)))
        if not 0 <= buf.tell() <= model.cap:
            ctx.violation("buffer-position-outside-buffer-after-%s" % name, "%s left the position at %d (capacity %d)" % (desc, buf.tell(), model.cap), case)
        model.pos = buf.tell()
    return "ok"


def run_buffer_ops(ctx, ctor, ops, case, skip=()):
    """-> (outcomes per step, divergences) or None when the constructor refuses"""
    buf, model = make_buffer(ctor)
    div = []
    outcomes = []
    for i, (name, arg) in enumerate(ops):
        if i in skip:
            outcomes.append("skipped")
            continue
        if isinstance(arg, list):
            arg = tuple(arg)
        outcomes.append(check_buffer_step(ctx, buf, model, name, arg, case, i, div))
    full = model._bytes(0, model.cap)
    if full is not None and not div:
        try:
            real = buf.data_slice(0, model.cap)
        except Exception as e:  # noqa
            real = e
        if real != full:
            div.append((len(ops), "final content %r, the model says %r" % (real, full)))
    return outcomes, div


def judge_divergence(ctx, ctor, ops, case, outcomes, div):
    """a functional divergence is C04's business only if it disappears when the rejected calls before it are left out"""
    if not div:
        return
    first = div[0][0]
    rejected = [i for i, o in enumerate(outcomes[:first]) if o == "err"]
    if not rejected:
        ctx.cls("buffer:model-divergence-without-rejection")
        return
    _, div2 = run_buffer_ops(ctx, ctor, ops, case, skip=set(rejected))
    if not div2:
        ctx.violation("buffer-unusable-after-rejected-call", "%s; the same calls without the rejected ones (steps %r) behave as the model says" % (div[0][1], rejected), case)
    else:
        ctx.cls("buffer:model-divergence-unrelated-to-rejection")


def buffer_case(ctx, case):
    ctor = tuple(case["ctor"])
    try:
        buf, model = make_buffer(ctor)
    except Exception:  # noqa
        ctx.case(("buf", repr(case)), nontrivial=False, classes=["buffer:ctor-rejected"])
        return
    if ctor[0] in ("both", "both-positional"):
        ctor = (ctor[0], tuple(ctor[1]))
    if ctor[0] in ("capacity", "positional") and ctor[1] < 0:
        # an implementation may define a negative capacity as it likes; only the sanitizers judge what follows
        for name, arg in case["ops"]:
            try:
                apply_buffer_op(buf, name, tuple(arg) if isinstance(arg, list) else arg)
            except Exception:  # noqa
                pass
        ctx.case(("buf", repr(case)), nontrivial=True, classes=["buffer:negative-capacity-accepted"])
        return
    del buf, model
    outcomes, div = run_buffer_ops(ctx, ctor, case["ops"], case)
    judge_divergence(ctx, ctor, case["ops"], case, outcomes, div)
    o = set(outcomes)
    ctx.case(("buf", repr(case)), nontrivial="err" in o and "ok" in o, classes=["buffer:seq"] + ["buffer:has-" + x for x in sorted(o)])


def buffer_machine(ctx, examples, shard):
    from hypothesis import strategies as st
    from vlib.harness import run_hypothesis

    small = st.integers(-3, 70)
    ints = st.one_of(small, small, st.sampled_from(INT_ARGS), st.integers(0, (1 << 64) + 5))
    data = st.binary(max_size=80)

    def vals(name):
        if name in ("tell", "eof", "capacity", "data") or name.startswith("pull_uint"):
            return st.just(None)
        if name == "data_slice":
            return st.tuples(ints, ints)
        if name == "push_bytes":
            return data
        if name == "reinit":
            return st.one_of(st.tuples(st.just("capacity"), st.one_of(st.integers(0, 64), st.sampled_from([1 << 62, (1 << 63) - 1, 1 << 64]))), st.tuples(st.just("data"), st.integers(0, 64)))
        return ints

    names = ["reinit", "tell", "eof", "capacity", "data", "seek", "seek", "data_slice", "pull_bytes", "pull_uint8", "pull_uint16", "pull_uint32", "pull_uint64", "pull_uint_var", "pull_uint_var", "push_bytes", "push_bytes", "push_uint8", "push_uint16", "push_uint32", "push_uint64", "push_uint_var", "push_uint_var"]
    op = st.sampled_from(names).flatmap(lambda n: st.tuples(st.just(n), vals(n)))
    ctor = st.one_of(
        st.tuples(st.just("capacity"), st.integers(0, 64)), st.tuples(st.just("capacity"), st.integers(0, 64)), st.tuples(st.just("positional"), st.integers(0, 16)),
        st.tuples(st.just("data"), st.binary(max_size=64)), st.tuples(st.just("data"), st.binary(max_size=64)), st.tuples(st.just("capacity"), st.sampled_from([-1, -(1 << 31), -(1 << 63), 1 << 62, (1 << 63) - 1, 1 << 64])),
        st.tuples(st.sampled_from(["both", "both-positional"]), st.tuples(st.integers(0, 80), st.binary(max_size=64))),
    )
    strat = st.fixed_dictionaries({"kind": st.just("buffer"), "ctor": ctor, "ops": st.lists(op, min_size=1, max_size=40)})

    def body(ctx, case):
        ctx.current.set_json(case)
        buffer_case(ctx, case)
        if ctx.want_sample():
            ctx.sample(case)

    run_hypothesis(ctx, body, strat, examples, shard=shard)


def buffer_arg_case(ctx, ctor, pos, method, arg):
    case = {"kind": "buffer-arg", "ctor": list(ctor), "pos": pos, "method": method, "arg": arg}
    ctor = tuple(ctor)
    cap = len(ctor[1])
    ops = [("seek", pos), (method, arg)]
    # the object must still work afterwards
    ops += [("seek", max(0, cap - 1)), ("push_uint8", 0xA5), ("seek", max(0, cap - 1)), ("pull_uint8", None), ("seek", 0), ("pull_bytes", cap)]
    outcomes, div = run_buffer_ops(ctx, ctor, ops, case)
    judge_divergence(ctx, ctor, ops, case, outcomes, div)
    return "err" if outcomes[1] in ("err", "refused") else outcomes[1]


def buffer_args(ctx):
    """every method x every boundary integer x capacities 0..18 x positions: exhaustive over the small sets"""
    methods = ["seek", "pull_bytes", "push_uint8", "push_uint16", "push_uint32", "push_uint64", "push_uint_var"]
    for cap in list(range(0, 19)) + [64]:
        fill = bytes((7 * i + 1) & 0xFF for i in range(cap))
        for pos in sorted(set([0, 1, cap // 2, max(0, cap - 8), max(0, cap - 4), max(0, cap - 2), max(0, cap - 1), cap])):
            if pos > cap:
                continue
            for method in methods:
                for arg in INT_ARGS:
                    ctx.current.set('{"kind":"buffer-arg","ctor":["data",{"hex":"%s"}],"pos":%d,"method":"%s","arg":%d}' % (fill.hex(), pos, method, arg))
                    r = buffer_arg_case(ctx, ("data", fill), pos, method, arg)
                    ctx.case(("barg", cap, pos, method, arg), nontrivial=(r == "err") or abs(arg - (cap - pos)) <= 8, classes=["buffer-arg:" + method, "buffer-arg:" + r])
            for a in [-1, 0, 1, cap - 1, cap, cap + 1, 1 << 31, 1 << 63, -(1 << 63)]:
                for b in [-1, 0, 1, cap - 1, cap, cap + 1, 1 << 31, (1 << 63) - 1]:
                    ctx.current.set('{"kind":"buffer-arg","ctor":["data",{"hex":"%s"}],"pos":%d,"method":"data_slice","arg":[%d,%d]}' % (fill.hex(), pos, a, b))
                    r = buffer_arg_case(ctx, ("data", fill), pos, "data_slice", (a, b))
                    ctx.case(("bslice", cap, pos, a, b), nontrivial=True, classes=["buffer-arg:data_slice", "buffer-arg:" + r])
            # reads at every position, with every varint prefix
            for method in ("pull_uint8", "pull_uint16", "pull_uint32", "pull_uint64", "pull_uint_var"):
                for prefix in (0x00, 0x40, 0x80, 0xC0):
                    f2 = bytearray(fill)
                    if pos < cap:
                        f2[pos] = prefix | (f2[pos] & 0x3F)
                    ctx.current.set('{"kind":"buffer-arg","ctor":["data",{"hex":"%s"}],"pos":%d,"method":"%s","arg":null}' % (bytes(f2).hex(), pos, method))
                    r = buffer_arg_case(ctx, ("data", bytes(f2)), pos, method, None)
                    ctx.case(("bread", cap, pos, method, prefix), nontrivial=cap - pos < 9, classes=["buffer-arg:" + method, "buffer-arg:" + r])
    ctx.sample({"kind": "buffer-arg", "capacities": "0..18, 64", "methods": methods + ["data_slice", "pull_*"], "integers": [str(x) for x in INT_ARGS]})


# ---------------------------------------------------------------------------------------------- proxies for library calls


class Proxies:
    """contract-checking wrappers around AEAD / HeaderProtection for every call the library makes"""

    def __init__(self, ctx):
        self.ctx = ctx
        self.calls = {"encrypt": 0, "decrypt": 0, "apply": 0, "remove": 0}
        self.rejected = {"encrypt": 0, "decrypt": 0, "apply": 0, "remove": 0}
        self.near = 0
        self.case = None

    def __enter__(self):
        import aioquic.quic.crypto as C

        px = self
        S = scratch_size()
        self.mod = C
        self.saved = (C.AEAD, C.HeaderProtection)
        RealAEAD, RealHP = self.saved

        def judge(op, args, fn):
            px.calls[op] += 1
            ln = len(args[0]) + (len(args[1]) if op == "apply" else 0)
            if near(ln, (20, S - 16, S), 24) or (op == "remove" and near(args[1], (len(args[0]) - 20, S - 4), 24)):
                px.near += 1
            try:
                r = fn(*args)
            except Exception:
                px.rejected[op] += 1
                raise
            why = contract(op, args, S)
            if why is not None:
                px.ctx.violation("library-call-%s-accepts-unsafe-arguments" % op, "a %s call made by the library (%s) returned normally although it %s" % (op, ", ".join(("%d bytes" % len(a)) if isinstance(a, bytes) else str(a) for a in args), why), px.case)
            return r

        class AEAD:
            def __init__(self, *a):
                self._o = RealAEAD(*a)

            def encrypt(self, data, aad, pn):
                return judge("encrypt", (data, aad, pn), self._o.encrypt)

            def decrypt(self, data, aad, pn):
                return judge("decrypt", (data, aad, pn), self._o.decrypt)

        class HeaderProtection:
            def __init__(self, *a):
                self._o = RealHP(*a)

            def apply(self, header, payload):
                return judge("apply", (header, payload), self._o.apply)

            def remove(self, packet, off):
                return judge("remove", (packet, off), self._o.remove)

        C.AEAD, C.HeaderProtection = AEAD, HeaderProtection
        return self

    def __exit__(self, *a):
        self.mod.AEAD, self.mod.HeaderProtection = self.saved


# ---------------------------------------------------------------------------------------------- datagrams through the library


def datagram_strategy():
    from hypothesis import strategies as st

    sizes = st.one_of(st.integers(0, 64), st.integers(0, 64), st.sampled_from([1100, 1199, 1200, 1201, 1252, 1350, 1472, 1479, 1480, 1481, 1484, 1485, 1495, 1496, 1497, 1499, 1500, 1501, 1502, 1515, 1516, 1517, 1520, 1600, 2000, 4096, 9000, 16383, 16384, 65507, 65535]), st.integers(1400, 1560))
    varint_lie = st.one_of(st.just("true"), st.just("true"), st.integers(0, 70), st.sampled_from([16383, 16384, 65535, (1 << 30) - 1, 1 << 30, (1 << 62) - 1]), st.sampled_from(["minus1", "plus1", "minus17"]))
    cid = st.one_of(st.just("sut"), st.just("sut"), st.just("odcid"), st.tuples(st.just("len"), st.integers(0, 20)), st.tuples(st.just("len"), st.sampled_from([21, 22, 64, 255])))
    long_pkt = st.fixed_dictionaries(
        {
            "form": st.just("long"), "type": st.integers(0, 3), "version": st.sampled_from(["sut", "sut", "sut", "v1", "v2", "zero", "other"]), "low_bits": st.integers(0, 15), "fixed_bit": st.booleans(),
            "dcid": cid, "scid": cid, "token_len": st.one_of(st.just(0), st.just(0), st.integers(0, 40), st.sampled_from([1400, 1460, 1470, 1476, 1480, 1484, 1490, 1496, 1500, 1504, 2000, 9000, 60000])), "token_len_field": varint_lie,
            "length_field": varint_lie, "length_size": st.sampled_from([None, 1, 2, 4, 8]), "rest": sizes, "truncate_header_at": st.one_of(st.none(), st.none(), st.none(), st.integers(0, 60)),
        }
    )
    short_pkt = st.fixed_dictionaries({"form": st.just("short"), "first": st.integers(0x00, 0x7F), "dcid": cid, "rest": sizes})
    genuine = st.fixed_dictionaries(
        {
            "form": st.just("genuine"), "space": st.sampled_from(["initial", "initial", "handshake", "app"]), "pn_len": st.integers(1, 4), "token_len": st.sampled_from([0, 0, 0, 5, 100, 1300, 1440, 1460, 1470, 1480]),
            "payload_len": st.one_of(st.integers(0, 40), st.integers(1100, 1560), st.sampled_from([1400, 1440, 1452, 1460, 1468, 1476, 1480, 1484, 1485, 1490, 1500, 1501, 1516, 2000, 9000])), "frame": st.sampled_from(["padding", "ping", "crypto-garbage", "garbage"]),
            "corrupt": st.sampled_from([None, None, None, "tag", "header", "truncate-16", "truncate-1", "truncate-to-19"]),
        }
    )
    pkt = st.one_of(long_pkt, long_pkt, short_pkt, genuine, genuine)
    dgram = st.lists(pkt, min_size=1, max_size=3)
    return st.fixed_dictionaries(
        {
            "kind": st.just("datagrams"), "state": st.sampled_from(["server-fresh", "server-fresh", "client-firstflight", "server-handshake", "client-handshake", "connected-client", "connected-server"]),
            "version": st.sampled_from(["v1", "v1", "v2"]), "datagrams": st.lists(dgram, min_size=1, max_size=6), "mds": st.sampled_from([1200, 1200, 1350, 1500]),
        }
    )


def build_datagram(spec, env):
    """env: dict with sut_cid, odcid, peer_cid, version, keys per space (harness -> SUT), pn counters"""
    from vlib import refquic as R

    out = b""
    for p in spec:
        out += build_packet(p, env)
        if len(out) > 70000:
            break
    return out[:65535]


def _cid(sym, env, salt):
    if sym == "sut":
        return env["sut_cid"]
    if sym == "odcid":
        return env["odcid"]
    n = sym[1]
    return pool_bytes(n, salt)


def _lie(field, truth):
    from vlib import refquic as R

    if field == "true":
        return truth
    if field == "minus1":
        return max(0, truth - 1)
    if field == "plus1":
        return truth + 1
    if field == "minus17":
        return max(0, truth - 17)
    return field


def build_packet(p, env):
    from vlib import refquic as R

    ver = {"sut": env["version"], "v1": R.V1, "v2": R.V2, "zero": 0, "other": 0x1A2A3A4A}
    if p["form"] == "short":
        return bytes([p["first"] | 0x40]) + _cid(p["dcid"], env, 3) + pool_bytes(p["rest"], p["rest"])
    if p["form"] == "long":
        v = ver[p["version"]]
        first = 0x80 | (0x40 if p["fixed_bit"] else 0) | (p["type"] << 4) | p["low_bits"]
        d, s = _cid(p["dcid"], env, 5), _cid(p["scid"], env, 9)
        hdr = bytes([first]) + v.to_bytes(4, "big") + bytes([len(d) & 0xFF]) + d + bytes([len(s) & 0xFF]) + s
        rest = pool_bytes(p["rest"], p["rest"] + 1)
        is_initial = (p["type"] == (0 if v != R.V2 else 1))
        is_retry = (p["type"] == (3 if v != R.V2 else 0))
        if is_initial:
            hdr += R.enc_varint(min(_lie(p["token_len_field"], p["token_len"]), (1 << 62) - 1)) + pool_bytes(p["token_len"], 77)
        if not is_retry:
            ln = min(_lie(p["length_field"], len(rest)), (1 << 62) - 1)
            if p["length_size"] and ln < 1 << (8 * p["length_size"] - 2):
                hdr += R.enc_varint_n(ln, p["length_size"])
            else:
                hdr += R.enc_varint(ln)
        if p["truncate_header_at"] is not None:
            return hdr[: p["truncate_header_at"]]
        return hdr + rest
    # genuine: sealed with the reference implementation using the keys the harness holds (if any)
    space = p["space"]
    keys = env["keys"].get(space)
    if keys is None:
        space = "initial"
        keys = env["keys"].get("initial")
    if keys is None:
        return pool_bytes(40, 1)
    pn = env["pn"].get(space, 0)
    env["pn"][space] = pn + 1
    L = p["payload_len"]
    body = {"padding": bytes(L), "ping": b"\x01" + bytes(max(0, L - 1)), "crypto-garbage": (b"\x06\x00" + R.enc_varint(max(0, L - 6)) + pool_bytes(max(0, L - 6), L))[: max(L, 0)] if L >= 6 else bytes(L), "garbage": pool_bytes(L, L + 5)}[p["frame"]]
    body = body[:L] if L else b""
    if len(body) < 4:
        body = body + bytes(4 - len(body))
    pn_len = p["pn_len"]
    if space == "app":
        hdr = R.build_short_header(env["sut_cid"], pn, pn_len)
    else:
        ptype = R.PT_INITIAL if space == "initial" else R.PT_HANDSHAKE
        hdr = R.build_long_header(env["version"], ptype, env["sut_cid"], env["peer_cid"], pn, pn_len, len(body), token=(pool_bytes(p["token_len"], 13) if space == "initial" else b""))
    pkt = R.protect(keys, hdr, pn, body, strict=False)
    c = p["corrupt"]
    if c == "tag":
        pkt = pkt[:-1] + bytes([pkt[-1] ^ 1])
    elif c == "header":
        pkt = pkt[:1] + bytes([pkt[1] ^ 0x55]) + pkt[2:] if space == "app" else pkt[:-20] + bytes([pkt[-20] ^ 1]) + pkt[-19:]
    elif c == "truncate-16":
        pkt = pkt[:-16]
    elif c == "truncate-1":
        pkt = pkt[:-1]
    elif c == "truncate-to-19":
        pkt = pkt[: len(hdr) + 15]
    return pkt


def make_state(state, version_name, mds):
    """-> (sut, env)"""
    from aioquic.quic.connection import QuicConnection
    from vlib import endpoints as E, refquic as R

    version = R.V1 if version_name == "v1" else R.V2
    ck = {"original_version": version, "supported_versions": [version, R.V1 if version == R.V2 else R.V2], "max_datagram_size": mds}
    sk = {"supported_versions": [R.V1, R.V2], "max_datagram_size": mds}
    env = {"version": version, "keys": {}, "pn": {}, "peer_cid": b"\xaa" * 8}
    odcid = bytes.fromhex("8394c8f03e515708")
    if state == "server-fresh":
        sut = QuicConnection(configuration=E.server_config(**sk), original_destination_connection_id=odcid)
        env.update(sut_cid=odcid, odcid=odcid, src=E.CLIENT_ADDR)
        env["keys"]["initial"] = R.initial_keys(version, odcid)[0]
        return sut, env
    if state == "client-firstflight":
        sut = QuicConnection(configuration=E.client_config(**ck))
        sut.connect(E.SERVER_ADDR, now=0.0)
        first = sut.datagrams_to_send(now=0.0)
        info = R.split_datagram(first[0][0], 8)[0]
        env.update(sut_cid=info.scid, odcid=info.dcid, src=E.SERVER_ADDR)
        env["keys"]["initial"] = R.initial_keys(version, info.dcid)[1]
        return sut, env
    client = QuicConnection(configuration=E.client_config(**ck))
    client.connect(E.SERVER_ADDR, now=0.0)
    server = QuicConnection(configuration=E.server_config(**sk), original_destination_connection_id=client.original_destination_connection_id)
    now = 0.0
    rounds = 1 if state.endswith("handshake") else 6
    first_info = None
    for i in range(rounds):
        now += 0.001
        for data, _ in client.datagrams_to_send(now=now):
            if first_info is None:
                first_info = R.split_datagram(data, 8)[0]
            server.receive_datagram(data, E.CLIENT_ADDR, now=now)
        if state == "server-handshake" and i == 0:
            break
        now += 0.001
        for data, _ in server.datagrams_to_send(now=now):
            client.receive_datagram(data, E.SERVER_ADDR, now=now)
    env["now"] = now
    if state in ("server-handshake", "connected-server"):
        sut = server
        env.update(sut_cid=server.host_cid, odcid=first_info.dcid, src=E.CLIENT_ADDR)
        env["keys"]["initial"] = R.initial_keys(version, first_info.dcid)[0]
    else:
        sut = client
        env.update(sut_cid=client.host_cid, odcid=first_info.dcid, src=E.SERVER_ADDR)
        env["keys"]["initial"] = R.initial_keys(version, first_info.dcid)[1]
    return sut, env


def datagrams_case(ctx, case, px):
    from vlib import endpoints as E

    px.case = case
    before = dict(px.calls)
    with E.pinned(("c04", case["state"], case["version"])):
        sut, env = make_state(case["state"], case["version"], case["mds"])
        now = env.get("now", 0.0)
        raised = 0
        for spec in case["datagrams"]:
            data = build_datagram(spec, env)
            now += 0.001
            try:
                sut.receive_datagram(data, env["src"], now=now)
                sut.datagrams_to_send(now=now)
            except Exception:  # noqa - exceptions are C05's subject
                raised += 1
                break
    reached = px.calls["remove"] - before["remove"]
    ctx.case(("dg", repr(case)), nontrivial=reached > 0, classes=["datagrams:" + case["state"], "datagrams:hp-remove-reached" if reached else "datagrams:dropped-before-crypto"] + (["datagrams:api-raised"] if raised else []) + (["datagrams:decrypted"] if px.calls["decrypt"] - before["decrypt"] > px.rejected["decrypt"] - getattr(px, "_rj", 0) else []))
    px._rj = px.rejected["decrypt"]


def datagrams_task(ctx, examples, shard):
    from vlib.harness import run_hypothesis

    strat = datagram_strategy()
    with Proxies(ctx) as px:

        def body(ctx, case):
            ctx.current.set_json(case)
            datagrams_case(ctx, case, px)
            if ctx.want_sample():
                ctx.sample(case)

        run_hypothesis(ctx, body, strat, examples, shard=shard)
        ctx.extra["library_calls"] = dict(px.calls)
        ctx.extra["library_calls_rejected"] = dict(px.rejected)
        ctx.extra["library_calls_near_boundary"] = px.near


# ---------------------------------------------------------------------------------------------- packets the library builds


def built_case(ctx, mds, px):
    from aioquic.quic.connection import QuicConnection
    from vlib import endpoints as E, refquic as R

    case = {"kind": "built", "mds": mds}
    px.case = case
    before = dict(px.calls)
    outcome = "ok"
    with E.pinned(("c04-built", mds)):
        try:
            for version in (R.V1, R.V2):
                for leaf in ("ed25519", "rsa"):
                    kw = {"max_datagram_size": mds, "max_datagram_frame_size": 65535, "max_data": 1 << 22, "max_stream_data": 1 << 22}
                    client = QuicConnection(configuration=E.client_config(original_version=version, supported_versions=[version], **kw))
                    client.connect(E.SERVER_ADDR, now=0.0)
                    server = QuicConnection(configuration=E.server_config(leaf, supported_versions=[version], **kw), original_destination_connection_id=client.original_destination_connection_id)
                    now = 0.0
                    sent = False
                    for rnd in range(60):
                        now += 0.005
                        a = E.transfer(client, server, now, E.CLIENT_ADDR)
                        now += 0.005
                        b = E.transfer(server, client, now, E.SERVER_ADDR)
                        E.drain(client)
                        E.drain(server)
                        if not sent and client._handshake_complete and server._handshake_complete:
                            sent = True
                            for conn in (client, server):
                                sid = conn.get_next_available_stream_id()
                                conn.send_stream_data(sid, pool_bytes(60000, mds), end_stream=True)
                                for n in (1, mds - 60, mds - 40, mds - 30, mds - 20, mds):
                                    try:
                                        conn.send_datagram_frame(pool_bytes(max(1, n), n))
                                    except Exception:  # noqa
                                        pass
                                conn.send_ping(1)
                            client.request_key_update()
                        elif not a and not b:
                            if sent:
                                break
                            t = min(x for x in (client.get_timer(), server.get_timer(), now + 1.0) if x is not None)
                            now = max(now, t)
                            client.handle_timer(now)
                            server.handle_timer(now)
        except Exception as e:  # noqa - a Python exception is an acceptable rejection of an unusable size
            outcome = "raised:" + type(e).__name__
    sealed = px.calls["encrypt"] - before["encrypt"]
    ctx.case(("built", mds), nontrivial=sealed >= 10, classes=["built:" + outcome, "built:sealed>=10" if sealed >= 10 else "built:sealed<10"])
    return outcome, sealed


def built_task(ctx, sizes):
    with Proxies(ctx) as px:
        outs = {}
        for mds in sizes:
            ctx.current.set('{"kind":"built","mds":%d}' % mds)
            outs[str(mds)] = built_case(ctx, mds, px)
            if ctx.want_sample():
                ctx.sample({"kind": "built", "mds": mds, "outcome": outs[str(mds)][0], "packets_sealed": outs[str(mds)][1]})
        ctx.extra["outcomes"] = outs
        ctx.extra["library_calls"] = dict(px.calls)
        ctx.extra["library_calls_near_boundary"] = px.near
