"""C16 - peer stream bytes can never make the HTTP layers raise.

Grammar + mutation generation of per-stream byte sequences (every stream kind,
both roles, after valid prefixes, every chunking) fed to H3Connection /
H0Connection through the stub transport (qlog on and off); every distinct
(error_code, reason_phrase) the layer produced is then given to
QuicConnection.close() on a real connected pair, which must still emit its
closing packet and make the peer report termination with that code.
"""
import os

VERIF = os.path.dirname(os.path.dirname(os.path.abspath(__file__)))
PROPERTY = "C16"
LEVEL = "exploration"
RULE = (
    "one evaluation = one generated delivery list (stream chunks and datagrams) fed event by event to a fresh HTTP layer, or one "
    "(error_code, reason) pair closed over a real QUIC connection pair. Streams: request / push / control / QPACK encoder+decoder / "
    "WebTransport / unknown types; frames built from a grammar (honest, lying, zero and 2^62-1 lengths, truncated varints, reserved and "
    "duplicate SETTINGS, MAX_PUSH_ID with trailing bytes, empty PUSH_PROMISE, garbage and huge QPACK, oversized names, non-UTF-8) after "
    "valid prefixes produced by a real sender; random chunking. Non-trivial = the input reached frame dispatch on some stream (at least one "
    "complete frame header was consumed) or the layer closed the connection with an H3 error; distinct by the delivery list."
)
ASSUMPTIONS = [
    "events are only generated for streams the peer can write to (peer-initiated streams, and bidirectional streams opened through the local API)",
    "pylsqpack is environment: exceptions originating there count only when the HTTP layer lets them escape",
]


def _varint(v):
    from vlib import h3bench as B

    return B.varint(v)


def build_strategies():
    from hypothesis import strategies as st
    from vlib import h3bench as B

    V62 = (1 << 62) - 1
    any_varint = st.one_of(
        st.integers(0, 70).map(B.varint),
        st.sampled_from([0, 1, 63, 64, 16383, 16384, (1 << 30) - 1, 1 << 30, V62]).map(B.varint),
        st.tuples(st.integers(0, 63), st.sampled_from([2, 4, 8])).map(lambda t: B.varint_n(t[0], t[1])),
        st.sampled_from([b"\x40", b"\x80\x00", b"\xc0\x00\x00", b"\xff", b"\xbf\xff"]),  # truncated
    )
    name = st.one_of(
        st.sampled_from([b":method", b":path", b":status", b":scheme", b":authority", b"content-length", b"x", b"transfer-encoding", b""]),
        st.binary(min_size=0, max_size=12),
        st.integers(10, 5000).map(lambda n: b"n" * n),
        st.integers(1, 300).map(lambda n: b"\xff" * n),
    )
    value = st.one_of(st.sampled_from([b"GET", b"/", b"200", b"https", b"a", b"5", b"-1", b"\xff\xfe", b""]), st.binary(max_size=20), st.integers(100, 3000).map(lambda n: b"\x80" * n), st.sampled_from([19, 20, 640, 4300, 4301, 10000]).map(lambda n: b"9" * n))
    fields = st.lists(st.tuples(name, value), min_size=0, max_size=5)
    valid_req = st.just([(b":method", b"GET"), (b":scheme", b"https"), (b":authority", b"a"), (b":path", b"/")])
    valid_resp = st.just([(b":status", b"200")])
    field_section = st.one_of(
        fields.map(B.qpack_literal),
        valid_req.map(B.qpack_literal),
        valid_resp.map(B.qpack_literal),
        st.binary(max_size=30),
        st.sampled_from([b"", b"\x00", b"\x00\x00", b"\x02\x80\xc0", b"\xff\xff\xff\xff\xff\xff\xff\xff\xff\x7f", b"\x00\x00\x27\xff\xff\xff\xff\x0f"]),
    )
    settings_payload = st.one_of(
        st.lists(st.tuples(st.sampled_from([0, 1, 2, 3, 4, 5, 6, 7, 8, 0x21, 0x33, 0x2B603742, 0x3F, V62]), st.sampled_from([0, 1, 2, 100, 4096, V62])), max_size=6).map(
            lambda ps: b"".join(B.varint(a) + B.varint(b) for a, b in ps)
        ),
        st.sampled_from([b"\x01", b"\x40", b"\x01\x40", b"\x06\xc0\x00", b"\x33\x01\x33\x01"]),
        st.binary(max_size=12),
    )
    push_id_payload = st.one_of(any_varint, st.tuples(any_varint, st.binary(max_size=3)).map(lambda t: t[0] + t[1]), st.just(b""))
    ftype_req = st.sampled_from([1] * 6 + [0] * 5 + [5] * 4 + [0x41, 4, 0xD, 3, 7, 0xE, 2, 0x21, 0x40, 0x3F])
    ftype_ctrl = st.sampled_from([4] * 5 + [0xD] * 5 + [3, 3, 7, 7, 0, 1, 5, 0xE, 2, 0x21, 0x41, 0x3F])
    ftype_any = st.integers(0, 80)
    good_value = st.one_of(st.sampled_from([b"v", b"\xff", b"\xff\xfe", b"\xc3\xa9", b"a b", b"\x80" * 40, b"0", b"7" * 20, b"1" * 4300, b"1" * 4301, b"0" * 9000]), st.binary(min_size=1, max_size=8).filter(lambda v: v[0] not in (9, 32) and v[-1] not in (9, 32) and not any(c in (0, 10, 13) for c in v)))
    good_name = st.sampled_from([b"x-a", b"accept", b"cookie", b"content-type", b"content-length", b"x-" + b"n" * 50])
    mostly_valid = st.tuples(st.sampled_from([[(b":method", b"GET"), (b":scheme", b"https"), (b":authority", b"a"), (b":path", b"/")], [(b":status", b"200")], []]), st.lists(st.tuples(good_name, good_value), max_size=3)).map(lambda t: B.qpack_literal(t[0] + t[1]))
    field_section = st.one_of(field_section, mostly_valid, mostly_valid)

    def payload_for(t):
        if t == 1:
            return field_section
        if t == 4:
            return settings_payload
        if t in (0xD, 3, 7, 0xE):
            return push_id_payload
        if t == 5:
            return st.one_of(st.just(b""), st.tuples(push_id_payload, field_section).map(lambda x: x[0] + x[1]))
        return st.one_of(st.binary(max_size=40), st.integers(0, 3000).map(lambda n: b"d" * n))

    def frame_for(t):
        def mk(args):
            payload, mode, lie = args
            if mode == 0:
                ln = len(payload)
            elif mode == 1:
                ln = max(0, len(payload) + lie)
            elif mode == 2:
                ln = V62
            else:
                ln = 0
            return B.varint(t) + B.varint(ln) + payload

        return st.tuples(payload_for(t), st.sampled_from([0, 0, 0, 0, 0, 0, 1, 2, 3]), st.integers(-3, 3)).map(mk)

    def frame_seq(ft):
        one = st.one_of(ft, ft, ft, ftype_any).flatmap(frame_for)
        return st.lists(st.one_of(one, one, one, st.binary(max_size=6), any_varint), min_size=0, max_size=5).map(lambda xs: b"".join(xs))

    frames = frame_seq(ftype_req)
    valid_settings = B.frame(4, B.varint(1) + B.varint(4096) + B.varint(7) + B.varint(16) + B.varint(0x33) + B.varint(1))
    ctrl_prefix = st.one_of(
        st.sampled_from([b"", valid_settings, valid_settings, valid_settings, B.frame(4, b"")]),
        settings_payload.map(lambda p: B.frame(4, p)),
        st.tuples(st.just(valid_settings), push_id_payload).map(lambda t: t[0] + B.frame(0xD, t[1])),
    )
    ctrl_frames = st.tuples(ctrl_prefix, frame_seq(ftype_ctrl)).map(lambda t: t[0] + t[1])
    stream_type = st.one_of(st.sampled_from([0, 0, 0, 1, 2, 3, 0x54, 0x21, 0x3F, 4]).map(B.varint), any_varint)
    qpack_bytes = st.one_of(st.binary(max_size=40), st.sampled_from([b"\x3f\xe1\x1f", b"\xff" * 12, b"\x80", b"\x00" * 5, b"\x20", b"\x7f\xff\xff\xff\xff\xff\xff\xff\xff\x7f"]))

    def uni_body(tbytes):
        if tbytes == b"\x00":
            return ctrl_frames
        if tbytes in (b"\x02", b"\x03"):
            return qpack_bytes
        if tbytes == b"\x01":
            return st.tuples(any_varint, frames).map(lambda x: x[0] + x[1])
        if tbytes in (b"\x40\x54",):
            return st.tuples(any_varint, st.binary(max_size=20)).map(lambda x: x[0] + x[1])
        return frames

    uni_stream = stream_type.flatmap(lambda tb: uni_body(tb).map(lambda body: tb + body))
    def msg(base):
        return st.tuples(st.lists(st.tuples(good_name, good_value), min_size=1, max_size=3), st.binary(max_size=30), st.booleans()).map(
            lambda t: B.frame(1, B.qpack_literal(base + t[0])) + B.frame(0, t[1]) + (B.frame(1, B.qpack_literal([(b"x-t", t[0][0][1])])) if t[2] else b"")
        )

    msg_req = msg([(b":method", b"GET"), (b":scheme", b"https"), (b":authority", b"a"), (b":path", b"/")])
    msg_resp = msg([(b":status", b"200")])
    return {"msg_req": msg_req, "msg_resp": msg_resp, "frames": frames, "ctrl": ctrl_frames, "uni": uni_stream, "qpack": qpack_bytes, "any_varint": any_varint}


def h3_cases(ctx, examples, shard):
    from hypothesis import strategies as st
    from vlib import h3bench as B
    from vlib.harness import run_hypothesis, exc_signature
    from aioquic.h3.connection import H3Connection
    from aioquic.quic.events import DatagramFrameReceived, StreamDataReceived
    from aioquic.quic.logger import QuicLogger
    from props import C14

    S = build_strategies()
    reasons = ctx.extra.setdefault("_reasons", {})

    def body(ctx, data):
        is_client = data.draw(st.booleans())
        logging_on = data.draw(st.booleans())
        prefix_kind = data.draw(st.sampled_from(["none", "none", "settings", "traffic"]))
        # streams the peer can write to
        peer_bidi = [1, 5] if is_client else [0, 4, 8]
        peer_uni = [3, 7, 11, 15, 19] if is_client else [2, 6, 10, 14, 18]
        local_bidi = [0] if is_client else []
        streams = {}  # sid -> bytes
        fins = set()
        if prefix_kind == "traffic":
            draws = []

            def di(a, b):
                v = data.draw(st.integers(a, b))
                draws.append(v)
                return v

            def dc(xs):
                return xs[di(0, len(xs) - 1)]

            tr = C14.gen_traffic(di, dc, "s2c" if is_client else "c2s")
            for sid, (d, fin) in tr["streams"].items():
                streams[sid] = bytearray(d)
                if fin:
                    fins.add(sid)
        elif prefix_kind == "settings":
            q0 = B.StubQuic(not is_client)
            H3Connection(q0, enable_webtransport=True)
            for sid, (d, fin) in q0.streams().items():
                streams[sid] = bytearray(d)
        n_hostile = data.draw(st.integers(1, 4))
        for _ in range(n_hostile):
            kind = data.draw(st.sampled_from(["uni", "uni", "bidi", "bidi", "append", "local-bidi", "msg"]))
            if kind == "msg":
                # a complete well-formed message for this role whose values contain unusual bytes
                sid = 0 if is_client else data.draw(st.sampled_from(peer_bidi))
                if sid in streams:
                    continue
                streams[sid] = bytearray(data.draw(S["msg_resp"] if is_client else S["msg_req"]))
                continue
            if kind == "append" and streams:
                sid = data.draw(st.sampled_from(sorted(streams)))
                fins.discard(sid)
                streams[sid] += data.draw(S["frames"] if sid % 4 in (0, 1) else st.one_of(S["ctrl"], S["frames"], S["qpack"]))
            elif kind == "uni":
                free = [s for s in peer_uni if s not in streams]
                if not free:
                    continue
                sid = free[0] if data.draw(st.booleans()) else data.draw(st.sampled_from(free))
                streams[sid] = bytearray(data.draw(S["uni"]))
            elif kind == "local-bidi" and local_bidi:
                sid = local_bidi[0]
                streams.setdefault(sid, bytearray())
                streams[sid] += data.draw(S["frames"])
            else:
                sid = data.draw(st.sampled_from(peer_bidi))
                streams.setdefault(sid, bytearray())
                fins.discard(sid)
                streams[sid] += data.draw(S["frames"])
            if data.draw(st.integers(0, 3)) == 0:
                fins.add(sid)
        dgrams = data.draw(st.lists(st.one_of(st.binary(max_size=10), S["any_varint"]), max_size=2))
        # chunk + interleave
        queues = {}
        for sid, d in streams.items():
            d = bytes(d)
            k = data.draw(st.integers(0, 3))
            cuts = sorted({data.draw(st.integers(0, len(d))) for _ in range(k)}) if d else []
            if data.draw(st.integers(0, 7)) == 0 and len(d) <= 64:
                cuts = list(range(1, len(d)))
            ch = [d[a:b] for a, b in zip([0] + cuts, cuts + [len(d)])]
            qd = [(sid, c, False) for c in ch]
            if sid in fins:
                if data.draw(st.booleans()):
                    qd[-1] = (sid, qd[-1][1], True)
                else:
                    qd.append((sid, b"", True))
            queues[sid] = qd
        for i, d in enumerate(dgrams):
            queues[("dgram", i)] = [("dgram", d)]
        plan = []
        keys = sorted(queues, key=str)
        order_mode = data.draw(st.sampled_from(["uni-first", "random"]))
        if order_mode == "uni-first":
            keys.sort(key=lambda k: (not (isinstance(k, int) and k % 4 in (2, 3)), str(k)))
            for k in keys:
                plan.extend(queues[k])
        else:
            while keys:
                k = keys[data.draw(st.integers(0, len(keys) - 1))]
                plan.append(queues[k].pop(0))
                if not queues[k]:
                    keys.remove(k)
        logger = None
        if logging_on:
            logger = QuicLogger().start_trace(is_client=is_client, odcid=b"")
        quic = B.StubQuic(is_client, logger=logger)
        case = {"kind": "h3", "is_client": is_client, "logging": logging_on, "plan": [[p[0], p[1], p[2]] if p[0] != "dgram" else ["dgram", p[1]] for p in plan]}
        try:
            h3 = H3Connection(quic, enable_webtransport=data.draw(st.booleans()))
            if is_client and 0 in streams:
                # the local side opened stream 0 through the API
                sid0 = quic.get_next_available_stream_id()
                h3.send_headers(sid0, [(b":method", b"GET"), (b":scheme", b"https"), (b":authority", b"a"), (b":path", b"/")], end_stream=False)
        except Exception as e:
            raise
        dispatched = False
        for item in plan:
            try:
                if item[0] == "dgram":
                    r = h3.handle_event(DatagramFrameReceived(data=item[1]))
                else:
                    r = h3.handle_event(StreamDataReceived(stream_id=item[0], data=item[1], end_stream=item[2]))
                if not isinstance(r, list):
                    ctx.violation("h3-handle-event-bad-return", "handle_event returned %r" % (r,), case)
                if r:
                    dispatched = True
                    for e in r:
                        hd = getattr(e, "headers", None)
                        if hd and any(not (bytes(n) + bytes(v)).isascii() for n, v in hd):
                            ctx.cls("h3:delivered-non-ascii-header" + ("-logging" if logging_on else ""))
                            try:
                                for n, v in hd:
                                    bytes(v).decode("utf8")
                            except UnicodeDecodeError:
                                ctx.cls("h3:delivered-non-utf8-header" + ("-logging" if logging_on else ""))
            except Exception as e:
                ctx.violation(exc_signature(e, "h3-raised-" + ("logging-" if logging_on and "logger" in exc_signature(e) else "")), "handle_event raised %r (role=%s logging=%s)" % (e, "client" if is_client else "server", logging_on), case)
                break
        if quic.closed is not None:
            code, reason = quic.closed
            dispatched = True
            ctx.cls("h3-closed-0x%x" % code)
            key = (code, len(reason) // 200, reason.isascii() if isinstance(reason, str) else False)
            if key not in reasons and len(reasons) < 60:
                reasons[key] = (code, reason)
        ctx.case(tuple((p[0], bytes(p[1])) for p in plan), nontrivial=dispatched, classes=["h3:" + prefix_kind, "h3:logging" if logging_on else "h3:nolog"])
        if ctx.want_sample():
            ctx.sample({"role": "client" if is_client else "server", "logging": logging_on, "plan": [[p[0], bytes(p[1])[:24], p[2] if len(p) > 2 else None] for p in plan][:6]})

    run_hypothesis(ctx, body, st.data(), examples, shard=shard)
    # phase 2: every distinct reason shape over a real connection
    extra = [(0x10E, "Header %r contains invalid characters" % (b"n" * 5000,)), (0x101, "x" * 1100), (0x101, "é" * 700), (0x109, "")]
    pairs = list(reasons.values()) + extra
    ctx.extra.pop("_reasons", None)
    for code, reason in pairs:
        close_over_real_connection(ctx, code, reason)


def close_over_real_connection(ctx, code, reason):
    from vlib import endpoints as E
    from vlib.harness import exc_signature
    from aioquic.quic import events

    case = {"kind": "close", "code": code, "reason": reason if reason.isascii() else repr(reason)}
    with E.pinned(("c16", code, len(reason))):
        client, server, now = E.connected_pair(client_kw={"alpn_protocols": ["h3"]}, server_kw={"alpn_protocols": ["h3"]})
        E.drain(client)
        E.drain(server)
        ctx.case(("close", code, reason), nontrivial=True, classes=["close-reason-len-%d" % (len(reason) // 500 * 500)])
        try:
            server.close(error_code=code, reason_phrase=reason)
            now += 0.01
            out = server.datagrams_to_send(now=now)
        except Exception as e:
            ctx.violation(exc_signature(e, "close-emit-raised-"), "close(0x%x, reason of %d chars) then datagrams_to_send raised %r" % (code, len(reason), e), case)
            return
        if not out:
            ctx.violation("close-emitted-nothing", "close(0x%x, reason of %d chars): datagrams_to_send returned no datagram" % (code, len(reason)), case)
            return
        for d, _ in out:
            client.receive_datagram(d, E.SERVER_ADDR, now=now)
        term = [e for e in E.drain(client) if isinstance(e, events.ConnectionTerminated)]
        for _ in range(8):
            # the receiver of a close reports termination when its draining period ends
            if term:
                break
            t = client.get_timer()
            if t is None:
                break
            now = max(now, t)
            client.handle_timer(now=now)
            term = [e for e in E.drain(client) if isinstance(e, events.ConnectionTerminated)]
        if not term or term[0].error_code != code:
            ctx.violation("close-not-received-by-peer", "peer events after close(0x%x): %r" % (code, term), case)


def h0_cases(ctx, examples, shard):
    from hypothesis import strategies as st
    from vlib import h3bench as B
    from vlib.harness import run_hypothesis, exc_signature
    from aioquic.h0.connection import H0Connection
    from aioquic.quic.events import StreamDataReceived

    line = st.one_of(
        st.sampled_from([b"GET /\r\n", b"GET\r\n", b"\r\n", b"", b"GET / HTTP/0.9\r\n", b" \r\n", b"GET  /\r\n", b"\xff\xfe\r\n", b"GET /" + b"a" * 3000 + b"\r\n", b"\n", b"GET /\n"]),
        st.binary(max_size=30),
        st.binary(max_size=12).map(lambda b: b + b"\r\n"),
    )
    strat = st.tuples(st.booleans(), st.lists(st.tuples(st.sampled_from([0, 4, 8, 1, 2, 3]), line, st.lists(st.integers(0, 40), max_size=3), st.booleans()), min_size=1, max_size=4))

    def body(ctx, v):
        is_client, streams = v
        quic = B.StubQuic(is_client)
        h0 = H0Connection(quic)
        plan = []
        for sid, data, cuts, fin in streams:
            cuts = sorted(c for c in cuts if c <= len(data))
            ch = [data[a:b] for a, b in zip([0] + cuts, cuts + [len(data)])]
            for i, c in enumerate(ch):
                plan.append((sid, c, fin and i == len(ch) - 1))
        case = {"kind": "h0", "is_client": is_client, "plan": [[p[0], p[1], p[2]] for p in plan]}
        got = False
        for sid, c, fin in plan:
            try:
                r = h0.handle_event(StreamDataReceived(stream_id=sid, data=c, end_stream=fin))
                got = got or bool(r)
            except Exception as e:
                ctx.violation(exc_signature(e, "h0-raised-"), "H0Connection.handle_event raised %r (role=%s)" % (e, "client" if is_client else "server"), case)
                break
        ctx.case(tuple(plan), nontrivial=got, classes=["h0:client" if is_client else "h0:server"])
        if ctx.want_sample():
            ctx.sample(case)

    run_hypothesis(ctx, body, strat, examples, shard=shard)


def replay(ctx, case):
    from vlib import h3bench as B
    from vlib.harness import exc_signature
    from aioquic.quic.events import DatagramFrameReceived, StreamDataReceived

    ctx.case(None, True)
    if case["kind"] == "blocked":
        return blocked_case(ctx, case)
    if case["kind"] == "malformed-blocked":
        return malformed_blocked_case(ctx, case)
    if case["kind"] == "fuzz":
        from vlib import fuzz_h3

        d = fuzz_h3.decode(bytes(case["data"]))
        try:
            if d is not None:
                fuzz_h3.run_plan(*d)
        except Exception as e:  # noqa
            ctx.violation(exc_signature(e, "h3-raised-"), "H3Connection.handle_event raised %r on a fuzzer-found input" % (e,), case)
        return
    if case["kind"] == "close":
        reason = case["reason"]
        if reason.startswith("'") or reason.startswith('"'):
            import ast

            reason = ast.literal_eval(reason)
        return close_over_real_connection(ctx, case["code"], reason)
    if case["kind"] == "h0":
        from aioquic.h0.connection import H0Connection

        h0 = H0Connection(B.StubQuic(case["is_client"]))
        for sid, c, fin in case["plan"]:
            try:
                h0.handle_event(StreamDataReceived(stream_id=sid, data=bytes(c), end_stream=fin))
            except Exception as e:
                ctx.violation(exc_signature(e, "h0-raised-"), "H0Connection.handle_event raised %r" % (e,), case)
                return
        return
    from aioquic.h3.connection import H3Connection
    from aioquic.quic.logger import QuicLogger

    logger = QuicLogger().start_trace(is_client=case["is_client"], odcid=b"") if case["logging"] else None
    quic = B.StubQuic(case["is_client"], logger=logger)
    h3 = H3Connection(quic, enable_webtransport=True)
    if case["is_client"] and any(p[0] == 0 for p in case["plan"]):
        sid0 = quic.get_next_available_stream_id()
        h3.send_headers(sid0, [(b":method", b"GET"), (b":scheme", b"https"), (b":authority", b"a"), (b":path", b"/")], end_stream=False)
    for item in case["plan"]:
        try:
            if item[0] == "dgram":
                h3.handle_event(DatagramFrameReceived(data=bytes(item[1])))
            else:
                h3.handle_event(StreamDataReceived(stream_id=item[0], data=bytes(item[1]), end_stream=item[2]))
        except Exception as e:
            ctx.violation(exc_signature(e, "h3-raised-" + ("logging-" if case["logging"] and "logger" in exc_signature(e) else "")), "handle_event raised %r" % (e,), case)
            return


def close_lengths(ctx, part, nparts):
    """every reason length around the capacity of the closing packet, ASCII and multi-byte, application and HTTP/3 codes"""
    n = 0
    for L in list(range(0, 40)) + list(range(1000, 1500)) + [2000, 5000, 70000]:
        for ch in ("r", "\u00e9", "\u20ac", "\U0001f600"):
            n += 1
            if n % nparts != part:
                continue
            reason = ch * (L // len(ch.encode("utf8"))) + "x" * (L % len(ch.encode("utf8")))
            for code in (0x10E, 0x0):
                close_over_real_connection(ctx, code, reason)


def blocked_case(ctx, case):
    """a client that has finished its requests receives responses whose header blocks arrive before the QPACK encoder stream"""
    import random

    from aioquic.h3.connection import H3Connection
    from aioquic.quic.events import DatagramFrameReceived, StreamDataReceived
    from props import C14
    from vlib import h3bench as B
    from vlib.harness import exc_signature

    traffic = C14.make_traffic(case["seed"], "s2c")
    q = B.StubQuic(True)
    h3 = H3Connection(q, enable_webtransport=True)
    rnd = random.Random(case["seed"] * 17 + 3)
    for sid in sorted(s for s in traffic["streams"] if s % 4 == 0):
        mine = q.get_next_available_stream_id()
        h3.send_headers(mine, [(b":method", b"GET"), (b":scheme", b"https"), (b":authority", b"example.com"), (b":path", b"/%d" % mine)], end_stream=case["finish_requests"])
    queues = {}
    for sid, (d, fin) in traffic["streams"].items():
        d = bytes(d)
        cuts = sorted(set(rnd.randrange(1, len(d)) for _ in range(rnd.randint(0, 3)))) if len(d) > 1 else []
        chunks = [d[a:b] for a, b in zip([0] + cuts, cuts + [len(d)])] or [b""]
        queues[sid] = [(sid, c, fin and i == len(chunks) - 1) for i, c in enumerate(chunks)]
    order = sorted(queues, key=lambda sid: (0 if sid % 4 in (0, 1) else 1, sid)) if case["requests_first"] else sorted(queues, key=lambda s: rnd.random())
    plan = []
    if case["interleave"]:
        keys = list(order)
        while keys:
            k = keys[rnd.randrange(min(2, len(keys)))]
            plan.append(queues[k].pop(0))
            if not queues[k]:
                keys.remove(k)
    else:
        for k in order:
            plan.extend(queues[k])
    blocked = False
    for sid, chunk, fin in plan:
        try:
            h3.handle_event(StreamDataReceived(stream_id=sid, data=chunk, end_stream=fin))
        except Exception as e:  # noqa
            ctx.violation(exc_signature(e, "h3-raised-"), "H3Connection.handle_event raised %r while a client with finished requests received stream %d (%d bytes, fin=%s)" % (e, sid, len(chunk), fin), dict(case, kind="blocked"))
            return
        blocked = blocked or any(getattr(st_, "blocked", False) for st_ in getattr(h3, "_stream", {}).values())
    ctx.case(("blocked", repr(case)), nontrivial=blocked, classes=["blocked:" + ("some-stream-blocked" if blocked else "never-blocked"), "blocked:closed" if q.closed else "blocked:open"])


def blocked_task(ctx, examples, shard):
    from hypothesis import strategies as st
    from vlib.harness import run_hypothesis

    strat = st.fixed_dictionaries({"seed": st.integers(0, 1 << 30), "finish_requests": st.sampled_from([True, True, False]), "requests_first": st.sampled_from([True, True, False]), "interleave": st.booleans()})

    def body(ctx, case):
        blocked_case(ctx, case)
        if ctx.want_sample():
            ctx.sample(dict(case, kind="blocked"))

    run_hypothesis(ctx, body, strat, examples, shard=shard)


def malformed_blocked_case(ctx, case):
    """A HEADERS / PUSH_PROMISE frame whose field section needs dynamic-table entries that have not arrived yet (the stream blocks) and whose field lines
    are arbitrary bytes; then the encoder stream delivers the entries (possibly damaged) and the blocked section is decoded for real."""
    from aioquic.h3.connection import H3Connection
    from aioquic.quic.events import StreamDataReceived
    from vlib import h3bench as B
    from vlib.harness import exc_signature

    is_client = case["role"] == "client"
    q = B.StubQuic(is_client)
    h3 = H3Connection(q, enable_webtransport=True)
    if is_client:
        h3.send_headers(q.get_next_available_stream_id(), [(b":method", b"GET"), (b":scheme", b"https"), (b":authority", b"a"), (b":path", b"/")], end_stream=True)
    base = [(b":status", b"200")] if is_client else [(b":method", b"GET"), (b":scheme", b"https"), (b":authority", b"a"), (b":path", b"/")]
    entries = (base + [(b"x-%d" % i, b"v") for i in range(8)])[: case["inserts"]]
    enc, fs = B.qpack_dynamic(entries)
    lines = fs[2:] if case["lines"] is None else bytes(case["lines"])
    prefix = fs[:2] if case["prefix"] is None else bytes(case["prefix"])
    section = prefix + lines
    ftype = 5 if (case["push_promise"] and is_client) else 1
    frame = B.frame(ftype, (B.varint(0) if ftype == 5 else b"") + section)
    enc = enc[: len(enc) - case["enc_cut"]] if case["enc_cut"] else enc
    uni = 7 if is_client else 6
    plan = [(0, frame, case["fin"]), (uni, b"\x02" + enc, False)]
    if case["enc_first"]:
        plan.reverse()
    was_blocked = False
    for sid, chunk, fin in plan:
        try:
            h3.handle_event(StreamDataReceived(stream_id=sid, data=chunk, end_stream=fin))
        except Exception as e:  # noqa
            ctx.violation(exc_signature(e, "h3-raised-"), "H3Connection.handle_event raised %r on stream %d (%s; field section %s after %d dynamic-table inserts%s)" % (e, sid, case["role"], section.hex()[:60], case["inserts"], ", blocked until the encoder stream arrived" if was_blocked else ""), dict(case, kind="malformed-blocked"))
            return
        was_blocked = was_blocked or any(getattr(st_, "blocked", False) for st_ in getattr(h3, "_stream", {}).values())
    ctx.case(("mblocked", repr(case)), nontrivial=was_blocked, classes=["malformed-blocked:" + ("blocked" if was_blocked else "not-blocked"), "malformed-blocked:" + ("closed-0x%x" % q.closed[0] if q.closed else "open")])


def malformed_blocked_task(ctx, examples, shard):
    from hypothesis import strategies as st
    from vlib.harness import run_hypothesis

    lines = st.one_of(
        st.none(),
        st.binary(min_size=0, max_size=12),
        st.lists(st.sampled_from([0x80, 0x81, 0x87, 0xBF, 0xC0, 0xD9, 0x11, 0x10, 0x40, 0x4F, 0x50, 0x20, 0x27, 0x00, 0x01, 0x7F, 0xFF]), min_size=1, max_size=8).map(bytes),
    )
    prefix = st.one_of(st.none(), st.none(), st.tuples(st.integers(1, 12), st.sampled_from([0x00, 0x01, 0x80, 0x81, 0x7F])).map(bytes))
    strat = st.fixed_dictionaries({"role": st.sampled_from(["client", "server"]), "inserts": st.integers(1, 6), "lines": lines, "prefix": prefix, "push_promise": st.booleans(), "fin": st.booleans(), "enc_cut": st.sampled_from([0, 0, 0, 1, 3]), "enc_first": st.sampled_from([False, False, False, True])})

    def body(ctx, case):
        malformed_blocked_case(ctx, case)
        if ctx.want_sample():
            ctx.sample(dict(case, kind="malformed-blocked"))

    run_hypothesis(ctx, body, strat, examples, shard=shard)


def fuzz_task(ctx, runs, seconds, shard):
    """coverage-guided byte-level fuzzing of H3Connection.handle_event (atheris / libFuzzer, vlib/fuzz_h3.py)"""
    import glob
    import re
    import shutil
    import subprocess
    import sys
    import tempfile

    from vlib import build, fuzz_h3

    if not os.path.isdir(os.path.join(VERIF, ".deps", "atheris")):
        ctx.cls("fuzz:atheris-not-installed")
        ctx.extra["skipped"] = "atheris is not installed (setup.sh installs it from the offline wheelhouse)"
        return
    root = build.shadow("plain", os.environ.get("VERIF_REPO"))
    out = os.path.join(os.environ.get("VERIF_OUT") or os.path.join(VERIF, "out"), "fuzz")
    os.makedirs(out, exist_ok=True)
    work = tempfile.mkdtemp(prefix="h3-%d-" % shard, dir=out)
    corpus = os.path.join(work, "corpus")
    os.makedirs(corpus)
    # a few valid seeds: control stream with SETTINGS, a request, QPACK streams
    seeds = [bytes([0, 3, 3, 0, 4, 0]), bytes([1, 3, 3, 0, 4, 0]), bytes([0, 0x80, 9, 1, 7, 0, 0, 0xD1, 0xD7, 0x51, 0x86, 0x60]), bytes([4, 4, 2, 2, 0]), bytes([1, 0xFF, 3, 0, 1, 2])]
    for i, sd in enumerate(seeds):
        with open(os.path.join(corpus, "seed%d" % i), "wb") as f:
            f.write(sd)
    cmd = [sys.executable, "-B", os.path.join(VERIF, "vlib", "fuzz_h3.py"), root, corpus, "-seed=%d" % (ctx.seed * 131 + shard + 1), "-max_len=700", "-print_final_stats=1"]
    cmd += ["-runs=%d" % runs] if runs else ["-max_total_time=%d" % seconds]
    env = dict(os.environ, PYTHONHASHSEED="0")
    try:
        p = subprocess.run(cmd, cwd=work, env=env, stdout=subprocess.PIPE, stderr=subprocess.STDOUT, timeout=(seconds or 60) + 600)
        text = p.stdout.decode("utf-8", "replace")
        m = re.search(r"stat::number_of_executed_units:\s*(\d+)", text) or re.search(r"Done (\d+) runs", text)
        n = int(m.group(1)) if m else 0
        ncorp = len(os.listdir(corpus))
        ctx.evaluations += n
        for fn in sorted(os.listdir(corpus))[: 5000]:
            ctx.nontrivial.add(hash(fn) & 0xFFFFFFFFFFFF)
        ctx.classes["fuzz:executions"] += n
        ctx.classes["fuzz:coverage-increasing-inputs"] += ncorp
        ctx.extra["fuzz"] = {"executions": n, "corpus": ncorp, "exit": p.returncode}
        for fn in sorted(os.listdir(corpus))[:2]:
            with open(os.path.join(corpus, fn), "rb") as f:
                d = fuzz_h3.decode(f.read())
            if d is not None:
                ctx.sample({"kind": "fuzz", "is_client": d[0], "logging": d[1], "plan": [[x[0], len(x[1]), x[2]] if x[0] != "dgram" else ["dgram", len(x[1])] for x in d[2]][:8]})
        crashes = sorted(glob.glob(os.path.join(work, "crash-*")))
        if crashes:
            with open(crashes[0], "rb") as f:
                data = f.read()
            em = re.search(r"=== Uncaught Python exception: ===\n(\w+)", text)
            fm = re.findall(r'File "[^"]*/aioquic/([\w/]+)\.py", line \d+, in (\w+)', text)
            sig = "h3-raised-%s-in-%s" % (em.group(1) if em else "Exception", ("%s.%s" % (fm[-1][0].split("/")[-1], fm[-1][1])) if fm else "?")
            ctx.violation(sig, "coverage-guided fuzzing found an input for which H3Connection.handle_event raises:\n" + text[-1500:], {"kind": "fuzz", "data": data}, soft=True)
        elif p.returncode != 0:
            raise RuntimeError("harness: the fuzzer exited %d without a crash file:\n%s" % (p.returncode, text[-2000:]))
    finally:
        shutil.rmtree(work, ignore_errors=True)


def plan(tier, seed):
    t = []
    if tier == "quick":
        t.append(("atheris-h3-0", {"fn": "fuzz", "runs": 40000, "seconds": 0, "shard": 0}))
    else:
        for sh in range(4):
            t.append(("atheris-h3-%d" % sh, {"fn": "fuzz", "runs": 0, "seconds": 600, "shard": sh}))
    for p in range(4):
        t.append(("close-lengths-%d" % p, {"fn": "closelen", "part": p, "nparts": 4}))
    for s in range(2):
        t.append(("blocked-streams-%d" % s, {"fn": "blocked", "examples": 400 if tier == "quick" else 20000, "shard": s}))
    for s in range(2):
        t.append(("malformed-blocked-%d" % s, {"fn": "mblocked", "examples": 600 if tier == "quick" else 30000, "shard": s}))
    n = 12 if tier == "quick" else 14
    ex = 500 if tier == "quick" else 25000
    for s in range(n):
        t.append(("h3-grammar-%d" % s, {"fn": "h3", "examples": ex, "shard": s}))
    for s in range(2):
        t.append(("h0-%d" % s, {"fn": "h0", "examples": 1500 if tier == "quick" else 30000, "shard": s}))
    return t


def run_task(ctx, name, fn, **kw):
    if fn == "fuzz":
        fuzz_task(ctx, kw["runs"], kw["seconds"], kw["shard"])
    elif fn == "closelen":
        close_lengths(ctx, kw["part"], kw["nparts"])
    elif fn == "blocked":
        blocked_task(ctx, kw["examples"], kw["shard"])
    elif fn == "mblocked":
        malformed_blocked_task(ctx, kw["examples"], kw["shard"])
    elif fn == "h3":
        h3_cases(ctx, kw["examples"], kw["shard"])
    else:
        h0_cases(ctx, kw["examples"], kw["shard"])
