"""C02 - only authentic packets are accepted; altered packets change nothing.

(a) codec differential against the independent RFC 9001/9369 implementation
    (vlib/refquic.py): key schedule, packet protection in both directions, key
    updates, packet-number expansion (exhaustive on 8-bit windows), every
    single-bit alteration of protected packets.
(b) live tamper: every packet of recorded handshake / data flights is altered
    and delivered before the genuine packet to a real endpoint (tasks "tamper-*").
"""
PROPERTY = "C02"
LEVEL = "exploration"
RULE = (
    "(a) one evaluation = one (cipher suite, version, key generation, header, packet number, expected number, payload) tuple sealed by aioquic and "
    "opened by the reference and vice versa, or one (truncated, bits, expected) packet-number expansion compared with a brute-force closest-candidate "
    "search, or one altered packet offered to decrypt_packet. Non-trivial = payload >= 1 byte with a non-default packet-number length or key "
    "generation, or an expansion within 2 of a window boundary / the ends of the number space. "
    "(b) one evaluation = one (scenario, packet, alteration) triple: the altered packet is delivered to a real endpoint, then the genuine one; "
    "non-trivial = the control run accepts the genuine packet at that moment. Distinct by the tuple."
)
ASSUMPTIONS = [
    "vlib/refquic.py is the trusted base; it reproduces the published keys and packets of RFC 9001 App. A (incl. Retry, ChaCha20) and RFC 9369 App. A (self-test)",
    "strength of AES-GCM / ChaCha20-Poly1305 / HKDF is assumed; the check exercises every way the library uses them",
    "on an exact tie between two candidates packet-number expansion may return either (RFC 9000 A.3 returns the higher)",
]

SUITES = None


def suites():
    global SUITES
    if SUITES is None:
        from aioquic.tls import CipherSuite
        from vlib import refquic as R

        SUITES = [(CipherSuite.AES_128_GCM_SHA256, R.AES128), (CipherSuite.AES_256_GCM_SHA384, R.AES256), (CipherSuite.CHACHA20_POLY1305_SHA256, R.CHACHA)]
    return SUITES


def make_contexts(cs, rs, version, secret, generation):
    """aioquic send/recv CryptoContext + reference Keys at the given key generation."""
    from aioquic.quic.crypto import CryptoContext, apply_key_phase, next_key_phase
    from vlib import refquic as R

    ctxs = []
    for _ in range(2):
        c = CryptoContext()
        c.setup(cipher_suite=cs, secret=secret, version=version)
        for _g in range(generation):
            apply_key_phase(c, next_key_phase(c), trigger="local_update")
        ctxs.append(c)
    keys = R.derive_keys(rs, version, secret)
    for _g in range(generation):
        keys = R.update_keys(keys)
    return ctxs[0], ctxs[1], keys


def codec(ctx, examples, shard):
    from hypothesis import strategies as st
    from aioquic._crypto import CryptoError
    from aioquic.quic.crypto import derive_key_iv_hp
    from vlib import refquic as R
    from vlib.harness import run_hypothesis

    V = (1 << 62) - 1
    pn_st = st.one_of(st.integers(0, 300), st.sampled_from([0, 255, 256, 257, 65535, 65536, (1 << 24) - 1, 1 << 24, (1 << 31) - 1, 1 << 31, (1 << 32) - 1, 1 << 32, (1 << 32) + (1 << 31), V - 1, V]), st.integers(0, V))
    strat = st.tuples(
        st.integers(0, 2),
        st.sampled_from([R.V1, R.V2]),
        st.integers(0, 3),
        st.binary(min_size=32, max_size=48),
        st.integers(1, 4),
        pn_st,
        st.integers(-200, 200),
        st.one_of(st.tuples(st.just("short"), st.integers(0, 20), st.booleans(), st.just(0), st.just(0)), st.tuples(st.sampled_from(["initial", "handshake", "0rtt"]), st.integers(0, 20), st.booleans(), st.integers(0, 20), st.integers(0, 40))),
        st.one_of(st.integers(0, 40), st.sampled_from([0, 1, 3, 4, 15, 16, 17, 19, 20, 21, 1000, 1199, 1200, 1400, 1450, 1451, 1452]), st.integers(0, 1452)),
        st.integers(0, 255),
    )

    def body(ctx, v):
        si, version, gen, secret, pn_len, pn, delta, hdrspec, plen, fill = v
        cs, rs = suites()[si]
        hlen = 48 if rs == R.AES256 else 32
        secret = secret[:hlen].ljust(hlen, b"\x07")
        send, recv, keys = make_contexts(cs, rs, version, secret, gen)
        # key schedule agreement
        k, iv, hp = derive_key_iv_hp(cipher_suite=cs, secret=secret, version=version)
        k0 = R.derive_keys(rs, version, secret)
        case = {"kind": "codec", "suite": rs, "version": version, "generation": gen, "secret": secret, "pn_len": pn_len, "pn": pn, "delta": delta, "header": hdrspec, "payload_len": plen}
        if (k, iv, hp) != (k0.key, k0.iv, k0.hp):
            ctx.violation("key-derivation-differs", "derive_key_iv_hp differs from the reference for %s v%x" % (rs, version), case)
        if send.secret != keys.secret:
            ctx.violation("key-update-secret-differs", "after %d key updates aioquic holds secret %s, reference %s" % (gen, send.secret.hex(), keys.secret.hex()), case)
        kind, dl, kp, sl, tl = hdrspec
        dcid = bytes((i * 3 + 1) & 0xFF for i in range(dl))
        # "within datagram limits": the whole protected packet fits the 1500-byte packet limit of the helpers
        # (what happens beyond that limit is C04's subject)
        hdr_guess = (1 + dl + pn_len) if kind == "short" else (7 + dl + sl + (1 + tl if kind == "initial" else 0) + 2 + pn_len + (1 if tl > 63 else 0))
        plen = min(plen, 1500 - 16 - hdr_guess)
        payload = bytes((fill + i) & 0xFF for i in range(plen))
        if pn_len + plen < 4:
            payload = payload + bytes(4 - pn_len - plen)  # RFC 9001 5.4.2: enough bytes to sample
        if kind == "short":
            hdr = R.build_short_header(dcid, pn, pn_len, key_phase=gen & 1, spin=int(kp))
        else:
            scid = bytes((i * 5 + 2) & 0xFF for i in range(sl))
            token = bytes(tl) if kind == "initial" else b""
            hdr = R.build_long_header(version, kind, dcid, scid, pn, pn_len, len(payload), token=token, length_size=2)
        # the receiver expects a number within the window that makes the truncation decodable
        half = 1 << (8 * pn_len - 1)
        expected = min(max(pn - (delta * (half - 1)) // 200, 0), V)
        if R.decode_pn_bruteforce(pn & ((1 << (8 * pn_len)) - 1), 8 * pn_len, expected) != pn:
            expected = pn
        nt = len(payload) >= 1 and (pn_len != 2 or gen > 0)
        ctx.case((si, version, gen, secret, hdr, pn, expected, plen, fill), nontrivial=nt, classes=["codec:" + kind, "codec:" + rs, "codec:gen%d" % gen])
        pn_off = len(hdr) - pn_len
        # 1. aioquic seals -> reference opens
        try:
            pkt = send.encrypt_packet(hdr, payload, pn)
        except Exception as e:
            ctx.violation("encrypt-raised", "encrypt_packet raised %r" % (e,), case)
            return
        try:
            h2, pn2, pl2 = R.unprotect(keys, pkt, pn_off, expected)
        except R.AuthError as e:
            ctx.violation("emitted-packet-not-recoverable-by-reference", "reference cannot open aioquic's packet (%s v%x gen %d pn_len %d pn %d): %s" % (rs, version, gen, pn_len, pn, e), case)
            return
        if (h2, pn2, pl2) != (hdr, pn, payload):
            ctx.violation("emitted-packet-differs", "reference recovers header/pn/payload differently: pn %d vs %d" % (pn2, pn), case)
        ref_pkt = R.protect(keys, hdr, pn, payload)
        if ref_pkt != pkt:
            ctx.violation("protected-bytes-differ", "aioquic and the reference protect the same packet differently", case)
        # 2. reference seals -> aioquic opens (peer context)
        try:
            h3, pl3, pn3, upd = recv.decrypt_packet(ref_pkt, pn_off, expected)
        except Exception as e:
            ctx.violation("genuine-packet-not-accepted", "decrypt_packet raised %r on a reference-protected packet (%s v%x gen %d pn_len %d pn %d expected %d)" % (e, rs, version, gen, pn_len, pn, expected), case)
            return
        if (h3, pl3, pn3) != (hdr, payload, pn) or upd:
            ctx.violation("accepted-packet-differs", "decrypt_packet returned pn %d (sent %d), key-update flag %s" % (pn3, pn, upd), case)
        # 3. any single-bit alteration is rejected
        nbits = len(pkt) * 8
        positions = [(fill * 7919 + i * 104729) % nbits for i in range(6)] + list(range(min(8, nbits))) + [pn_off * 8 + j for j in range(8)]
        if len(pkt) <= 64:
            positions = range(nbits)
        for bit in positions:
            mut = bytearray(pkt)
            mut[bit // 8] ^= 1 << (bit % 8)
            ctx.cls("codec:bitflip")
            try:
                r = recv.decrypt_packet(bytes(mut), pn_off, expected)
            except CryptoError:
                continue
            except Exception as e:
                ctx.violation("altered-packet-undocumented-error", "decrypt_packet raised %r" % (e,), dict(case, bit=bit))
                continue
            ctx.violation("altered-packet-accepted", "packet with bit %d flipped was accepted by decrypt_packet (%s v%x, %s header)" % (bit, rs, version, kind), dict(case, bit=bit))
        # 4. next key phase: a packet of generation gen+1 with the other key-phase bit is opened and flagged
        if kind == "short":
            nk = R.update_keys(keys)
            hdr2 = R.build_short_header(dcid, pn, pn_len, key_phase=(gen + 1) & 1, spin=int(kp))
            p2 = R.protect(nk, hdr2, pn, payload)
            try:
                h4, pl4, pn4, upd4 = recv.decrypt_packet(p2, pn_off, expected)
                if (h4, pl4, pn4) != (hdr2, payload, pn) or not upd4:
                    ctx.violation("key-update-packet-differs", "packet of the next key phase decoded differently (update flag %s)" % upd4, case)
            except Exception as e:
                ctx.violation("key-update-packet-not-accepted", "decrypt_packet raised %r on a packet protected with the next key generation (%s v%x)" % (e, rs, version), case)
        if ctx.want_sample():
            ctx.sample({k2: case[k2] for k2 in ("suite", "version", "generation", "pn_len", "pn", "header", "payload_len")})

    run_hypothesis(ctx, body, strat, examples, shard=shard)


def initial_keys_check(ctx, examples, shard):
    from hypothesis import strategies as st
    from aioquic.quic.crypto import CryptoPair
    from vlib import refquic as R
    from vlib.harness import run_hypothesis

    strat = st.tuples(st.sampled_from([R.V1, R.V2]), st.binary(min_size=0, max_size=20), st.booleans())

    def body(ctx, v):
        version, cid, is_client = v
        pair = CryptoPair()
        pair.setup_initial(cid, is_client=is_client, version=version)
        ck, sk = R.initial_keys(version, cid)
        mine, theirs = (ck, sk) if is_client else (sk, ck)
        ctx.case((version, cid, is_client), nontrivial=len(cid) not in (8,), classes=["initial-keys"])
        if pair.send.secret != mine.secret or pair.recv.secret != theirs.secret:
            ctx.violation("initial-secrets-differ", "setup_initial(%s, client=%s, v%x) secrets differ from the reference" % (cid.hex(), is_client, version), {"kind": "initial", "version": version, "cid": cid, "is_client": is_client})

    run_hypothesis(ctx, body, strat, examples, shard=shard)


def closest_ok(truncated, nbits, expected, got):
    """got is a closest candidate (ties: either)."""
    win = 1 << nbits
    if got < 0 or got >= (1 << 62) or got % win != truncated:
        return False
    d = abs(got - expected)
    for c in (got - win, got + win):
        if 0 <= c < (1 << 62) and abs(c - expected) < d:
            return False
    return True


def pn_exhaustive(ctx, part, nparts):
    from aioquic.quic.packet import decode_packet_number
    from vlib import refquic as R

    V = 1 << 62
    bases = [0, 1, 127, 128, 129, 255, 256, 257, 383, 384, 385, 511, 512, 65535, 65536, (1 << 32) - 1, 1 << 32, V - 600, V - 513, V - 512, V - 385, V - 384, V - 257, V - 256, V - 255, V - 129, V - 128, V - 127, V - 2, V - 1]
    n = 0
    for bi, base in enumerate(bases):
        if bi % nparts != part:
            continue
        for off in range(0, 300):
            expected = base + off
            if expected > V - 1:
                break
            for t in range(256):
                n += 1
                got = decode_packet_number(t, 8, expected)
                want = R.decode_pn_bruteforce(t, 8, expected)
                near = min((expected - t) % 256, (t - expected) % 256) in (126, 127, 128, 129, 130) or expected < 260 or expected > V - 260
                ctx.case((t, expected), nontrivial=near)
                if got != want and not closest_ok(t, 8, expected, got):
                    ctx.violation("packet-number-expansion-not-closest", "decode_packet_number(%d, 8, %d) = %d, closest candidate is %d" % (t, expected, got, want), {"kind": "pn", "truncated": t, "bits": 8, "expected": expected})
        ctx.sample({"pn_window_base": base, "bits": 8, "expected_range": [base, min(base + 299, V - 1)]})
    ctx.extra.update(exhaustive=True, cases=n)


def pn_random(ctx, examples, shard):
    from hypothesis import strategies as st
    from aioquic.quic.packet import decode_packet_number
    from vlib import refquic as R
    from vlib.harness import run_hypothesis

    V = 1 << 62
    strat = st.tuples(st.sampled_from([8, 16, 24, 32]), st.one_of(st.integers(0, V - 1), st.sampled_from([0, 1, V - 1, V - 2, (1 << 32) - 1, 1 << 32, (1 << 31), (1 << 16), (1 << 24)]), st.integers(0, 1 << 33), st.integers(V - (1 << 33), V - 1)), st.integers(0, (1 << 32) - 1), st.integers(-3, 3), st.integers(0, 3))

    def body(ctx, v):
        bits, expected, t, d, mode = v
        win = 1 << bits
        t %= win
        if mode == 1:  # just around half a window away
            t = (expected + win // 2 + d) % win
        elif mode == 2:
            t = (expected - win // 2 + d) % win
        elif mode == 3:
            t = (expected + d) % win
        got = decode_packet_number(t, bits, expected)
        want = R.decode_pn_bruteforce(t, bits, expected)
        ctx.case((bits, expected, t), nontrivial=mode in (1, 2) or expected < win or expected > V - win, classes=["pn:%d" % bits])
        if got != want and not closest_ok(t, bits, expected, got):
            ctx.violation("packet-number-expansion-not-closest", "decode_packet_number(%d, %d, %d) = %d, closest candidate is %d" % (t, bits, expected, got, want), {"kind": "pn", "truncated": t, "bits": bits, "expected": expected})
        if ctx.want_sample():
            ctx.sample({"truncated": t, "bits": bits, "expected": expected, "decoded": got})

    run_hypothesis(ctx, body, strat, examples, shard=shard)


def replay(ctx, case):
    from aioquic.quic.packet import decode_packet_number
    from vlib import refquic as R

    ctx.case(None, True)
    if case.get("kind") == "pnlive":
        ctx.case(None, True)
        return pn_live_case(ctx, dict(case, rounds=[dict(r, packets=[tuple(x) for x in r["packets"]], swaps=[tuple(x) for x in r["swaps"]]) for r in case["rounds"]]))
    if case.get("kind") == "builder":
        from props import C17

        return C17.replay(ctx, case)
    if "script" in case and "fates" in case:
        from vlib import simchecks

        return simchecks.replay(ctx, case, "C02")
    if case.get("kind") == "emit":
        return emit_live_case(ctx, dict(case, ops=[tuple(o) for o in case["ops"]]))
    if case.get("kind") == "pn":
        got = decode_packet_number(case["truncated"], case["bits"], case["expected"])
        if not closest_ok(case["truncated"], case["bits"], case["expected"], got):
            ctx.violation("packet-number-expansion-not-closest", "decode_packet_number(%d, %d, %d) = %d" % (case["truncated"], case["bits"], case["expected"], got), case)
    elif case.get("kind") == "codec":
        from aioquic._crypto import CryptoError

        si = [r for _, r in suites()].index(case["suite"])
        cs, rs = suites()[si]
        send, recv, keys = make_contexts(cs, rs, case["version"], case["secret"], case["generation"])
        kind, dl, kp, sl, tl = case["header"]
        pn, pn_len = case["pn"], case["pn_len"]
        dcid = bytes((i * 3 + 1) & 0xFF for i in range(dl))
        payload = bytes(max(case["payload_len"], 4))
        hdr = R.build_short_header(dcid, pn, pn_len, key_phase=case["generation"] & 1, spin=int(kp)) if kind == "short" else R.build_long_header(case["version"], kind, dcid, bytes(sl), pn, pn_len, len(payload), token=bytes(tl) if kind == "initial" else b"", length_size=2)
        pkt = send.encrypt_packet(hdr, payload, pn)
        try:
            if R.unprotect(keys, pkt, len(hdr) - pn_len, pn) != (hdr, pn, payload):
                ctx.violation("emitted-packet-differs", "reference recovers something else", case)
        except R.AuthError as e:
            ctx.violation("emitted-packet-not-recoverable-by-reference", str(e), case)
        try:
            recv.decrypt_packet(R.protect(keys, hdr, pn, payload), len(hdr) - pn_len, pn)
        except Exception as e:
            ctx.violation("genuine-packet-not-accepted", repr(e), case)
        if kind == "short":
            nk = R.update_keys(keys)
            hdr2 = R.build_short_header(dcid, pn, pn_len, key_phase=(case["generation"] + 1) & 1)
            try:
                recv.decrypt_packet(R.protect(nk, hdr2, pn, payload), len(hdr2) - pn_len, pn)
            except Exception as e:
                ctx.violation("key-update-packet-not-accepted", repr(e), case)
    else:
        from vlib import tamper

        tamper.replay(ctx, case)


def pn_live_case(ctx, case):
    """Packets from a key-holding peer with truncated packet numbers of 1-4 bytes, each long enough for what the endpoint had acknowledged when the packet
    was built (RFC 9000 17.1), delivered late / out of order: every packet that the RFC 9000 A.3 algorithm decodes relative to the largest packet number
    *received so far* must be accepted (acknowledged)."""
    from vlib import endpoints as E, refquic as R
    from vlib.takeover import Takeover

    with E.pinned(("c02-pnlive", case["role"])):
        tk = Takeover(case["role"])
        largest_delivered = tk.pn - 1  # the genuine peer's packets so far
        largest_acked = tk.pn - 1
        top = tk.pn + case["start"]
        held = []
        delivered = set()
        acked = set()
        skipped = 0

        def harvest():
            nonlocal largest_acked
            for _ in range(3):
                t = tk.sut.get_timer()
                views = list(tk.collect())
                for v in views:
                    for f in v.frames or []:
                        if f["name"] == "ack" and v.space == "app":
                            for lo, hi in f["acked"]:
                                for p in range(max(lo, min(delivered | {lo}) if delivered else lo), hi + 1):
                                    if p in delivered:
                                        acked.add(p)
                if t is None or t > tk.now + 0.03:
                    break
                tk.now = max(tk.now, t) + 0.0005
                tk.sut.handle_timer(now=tk.now)
                tk.drain_events()
            if acked:
                largest_acked = max(largest_acked, max(acked))

        def deliver(pn, pn_len, pkt):
            nonlocal largest_delivered, skipped
            trunc = pn & ((1 << (8 * pn_len)) - 1)
            if R.decode_pn(trunc, 8 * pn_len, largest_delivered + 1) != pn:
                skipped += 1  # too late for its encoding: the receiver cannot be expected to recover it
                return
            tk.deliver(pkt)
            delivered.add(pn)
            largest_delivered = max(largest_delivered, pn)

        for rnd in case["rounds"]:
            built = []
            for gap, pn_len in rnd["packets"]:
                top += 1 + gap
                need = top - largest_acked
                if need >= 1 << (8 * pn_len - 1):
                    pn_len = 4 if need >= 1 << 23 else 3 if need >= 1 << 15 else 2 if need >= 1 << 7 else pn_len
                    if need >= 1 << (8 * pn_len - 1):
                        continue
                pkt, _ = tk.build_packet(R.encode_frames([{"name": "ping"}]), pn=top, pn_len=pn_len)
                built.append((top, pn_len, pkt))
            order = list(range(len(built)))
            for i, j in rnd["swaps"]:
                if built:
                    a, b = i % len(built), j % len(built)
                    order[a], order[b] = order[b], order[a]
            hold = {h % len(built) for h in rnd["hold"]} if built else set()
            # late packets of the previous round arrive first or in the middle
            late, held = held, []
            mid = len(order) // 2 if rnd["late_in_middle"] else 0
            for k, idx in enumerate(order):
                if k == mid:
                    for x in late:
                        deliver(*x)
                    late = []
                if idx in hold:
                    held.append(built[idx])
                else:
                    deliver(*built[idx])
            for x in late:
                deliver(*x)
            harvest()
            if tk.terminated is not None or tk.sut._close_event is not None:
                break
        harvest()
        missing = sorted(delivered - acked)
        if missing and tk.terminated is None and tk.sut._close_event is None:
            ctx.violation(
                "genuine-packet-with-truncated-number-not-accepted",
                "%s: %d of %d delivered packets were never acknowledged, e.g. packet %d; every one of them decodes correctly relative to the largest packet number received before it" % (case["role"], len(missing), len(delivered), missing[0]),
                case,
            )
        ctx.case(("pnlive", repr(case)), nontrivial=len(delivered) >= 5 and any(r["hold"] for r in case["rounds"]), classes=["pnlive:" + case["role"], "pnlive:skipped" if skipped else "pnlive:all-decodable"])


def pn_live_task(ctx, examples, shard):
    from hypothesis import strategies as st
    from vlib.harness import run_hypothesis

    pkt = st.tuples(st.sampled_from([0, 0, 0, 1, 5, 30, 100, 3000]), st.sampled_from([1, 1, 1, 2, 2, 3, 4]))
    rnd = st.fixed_dictionaries({"packets": st.lists(pkt, min_size=1, max_size=10), "swaps": st.lists(st.tuples(st.integers(0, 9), st.integers(0, 9)), max_size=4), "hold": st.lists(st.integers(0, 9), max_size=2), "late_in_middle": st.booleans()})
    strat = st.fixed_dictionaries({"kind": st.just("pnlive"), "role": st.sampled_from(["server", "client"]), "start": st.sampled_from([0, 0, 100, 40000, 70000]), "rounds": st.lists(rnd, min_size=2, max_size=6)})

    def body(ctx, case):
        pn_live_case(ctx, case)
        if ctx.want_sample():
            ctx.sample(case)

    run_hypothesis(ctx, body, strat, examples, shard=shard)


def emit_live_case(ctx, case):
    """What a connected endpoint emits while its application writes, pings, changes connection IDs and requests key updates - also a second update
    before the peer has answered the first - and the peer answers, stays silent, lags a generation behind or updates keys itself: every 1-RTT packet
    must open for the independent implementation with the keys its Key Phase bit selects (RFC 9001 6: the bit is the parity of the key generation),
    and the endpoint keeps accepting the peer's packets."""
    from vlib import endpoints as E, refquic as R
    from vlib.takeover import Takeover

    role = case["role"]
    with E.pinned(("c02-emit", role, case["version"])):
        tk = Takeover(role, client_kw={"original_version": case["version"], "supported_versions": [case["version"]]}, server_kw={"supported_versions": [R.V1, R.V2]})
        sut = tk.sut
        X = tk.X
        seen_gens = set()
        requests = 0
        double = False
        pending_request = False
        checked = [0]
        peer_sent = {}  # pn -> generation
        acked_by_sut = set()
        bad = []

        def look():
            for v in tk.collect():
                if v.ptype != R.PT_ONE_RTT:
                    continue
                checked[0] += 1
                if v.frames is None:
                    bad.append(("emitted-packet-not-opened-by-reference", "a %d-byte 1-RTT packet the SUT (%s) emitted opens with none of the key generations the reference knows (current %d, next, previous)" % (v.size, role, tk.wire.rings[X].gen)))
                    continue
                seen_gens.add(v.key_gen)
                if v.key_phase != (v.key_gen & 1):
                    bad.append(("key-phase-bit-does-not-match-keys", "1-RTT packet %d of the SUT (%s) is protected with key generation %d but carries Key Phase bit %d: a receiver selects keys by that bit and cannot open it" % (v.pn, role, v.key_gen, v.key_phase)))
                for f in v.frames:
                    if f["name"] == "ack":
                        for lo, hi in f["acked"]:
                            acked_by_sut.update(p for p in peer_sent if lo <= p <= hi)

        def peer_send(frames):
            pn = tk.send_frames(frames)
            peer_sent[pn] = tk.key_gen
            return pn

        sid = None
        for op in case["ops"]:
            if sut._close_event is not None or bad:
                break
            k = op[0]
            if k == "write":
                if sid is None:
                    sid = sut.get_next_available_stream_id()
                sut.send_stream_data(sid, bytes(op[1]))
            elif k == "ping":
                sut.send_ping(len(peer_sent) + 1000)
            elif k == "change_cid":
                if sut._peer_cid_available:
                    sut.change_connection_id()
            elif k == "key_update":
                sut.request_key_update()
                requests += 1
            elif k == "key_update_twice":
                sut.request_key_update()
                look()
                sut.request_key_update()
                requests += 2
                double = True
            elif k == "peer_answers":
                # the peer has seen everything the SUT sent: it follows the SUT's key generation and acknowledges
                tk.key_gen = max(tk.key_gen, tk.wire.rings[X].gen)
                f = tk.ack_frame([v.pn for v in tk.sut_packets if v.space == "app" and v.pn is not None])
                peer_send([f] if f else [{"name": "ping"}])
            elif k == "peer_lags":
                # ... or has seen nothing recent: a PING with the keys it was using
                peer_send([{"name": "ping"}])
            elif k == "peer_key_update":
                # RFC 9001 6.1/6.2: only when the current generation is in use by both sides and one of its packets has been acknowledged
                if tk.key_gen == tk.wire.rings[X].gen and any(g == tk.key_gen for p, g in peer_sent.items() if p in acked_by_sut):
                    tk.key_gen += 1
                    peer_send([{"name": "ping"}])
            elif k == "timer":
                tk.fire_timer(max_wait=2.0)
            look()
        # afterwards the peer, caught up, is still understood
        if sut._close_event is None and not bad:
            tk.key_gen = max(tk.key_gen, tk.wire.rings[X].gen)
            for _ in range(3):
                last = peer_send([{"name": "ping"}])
                look()
                for _ in range(3):
                    if last in acked_by_sut or not tk.fire_timer(max_wait=1.0):
                        break
                    look()
                if last in acked_by_sut:
                    break
            if last not in acked_by_sut and sut._close_event is None:
                bad.append(("peer-packet-after-key-updates-not-accepted", "the SUT (%s) did not acknowledge PING packets protected with key generation %d, the one its own latest packets use" % (role, tk.key_gen)))
        for sig, detail in bad[:1]:
            ctx.violation(sig, detail, case)
        ctx.case(("emit", repr(case)), nontrivial=len(seen_gens) >= 2 and checked[0] >= 5, classes=["emit:" + role, "emit:generations-%d" % min(len(seen_gens), 4)] + (["emit:update-requested-twice-in-a-row"] if double else []) + (["emit:closed"] if sut._close_event is not None else []))


def emit_live_task(ctx, examples, shard):
    from hypothesis import strategies as st
    from vlib import refquic as R
    from vlib.harness import run_hypothesis

    op = st.one_of(
        st.tuples(st.just("write"), st.sampled_from([1, 100, 1200, 5000])),
        st.sampled_from([("ping",), ("change_cid",), ("key_update",), ("key_update",), ("key_update_twice",), ("peer_answers",), ("peer_answers",), ("peer_lags",), ("peer_key_update",), ("timer",)]),
    )
    strat = st.fixed_dictionaries({"kind": st.just("emit"), "role": st.sampled_from(["server", "client"]), "version": st.sampled_from([R.V1, R.V2]), "ops": st.lists(op, min_size=3, max_size=16)})

    def body(ctx, case):
        emit_live_case(ctx, case)
        if ctx.want_sample():
            ctx.sample(case)

    run_hypothesis(ctx, body, strat, examples, shard=shard)


def plan(tier, seed):
    q = tier == "quick"
    t = []
    for s in range(4 if q else 6):
        t.append(("codec-%d" % s, {"fn": "codec", "examples": 500 if q else 20000, "shard": s}))
    t.append(("initial-keys", {"fn": "ik", "examples": 300 if q else 5000, "shard": 0}))
    for p in range(3):
        t.append(("pn-exhaustive-8bit-%d" % p, {"fn": "pnx", "part": p, "nparts": 3}))
    t.append(("pn-random", {"fn": "pnr", "examples": 20000 if q else 400000, "shard": 0}))
    for sh in range(2):
        t.append(("pn-live-%d" % sh, {"fn": "pnlive", "examples": 150 if q else 6000, "shard": sh}))
    for sh in range(2):
        t.append(("emit-live-%d" % sh, {"fn": "emit", "examples": 150 if q else 6000, "shard": sh}))
    t.append(("builder-packets", {"fn": "builder", "examples": 600 if q else 20000, "shard": 7}))
    from vlib import simchecks

    t += simchecks.plan_for("C02", tier, seed)
    try:
        from vlib import tamper

        t += tamper.plan(tier, seed)
    except ImportError:
        pass
    return t


def run_task(ctx, name, fn, **kw):
    if fn == "codec":
        codec(ctx, kw["examples"], kw["shard"])
    elif fn == "ik":
        initial_keys_check(ctx, kw["examples"], kw["shard"])
    elif fn == "pnx":
        pn_exhaustive(ctx, kw["part"], kw["nparts"])
    elif fn == "pnr":
        pn_random(ctx, kw["examples"], kw["shard"])
    elif fn == "pnlive":
        pn_live_task(ctx, kw["examples"], kw["shard"])
    elif fn == "emit":
        emit_live_task(ctx, kw["examples"], kw["shard"])
    elif fn == "builder":
        # packets as QuicPacketBuilder emits them (all types, coalesced, packet numbers up to 2^62, both versions): recovered by the reference
        from props import C17

        C17.builder_headers(ctx, kw["examples"], kw["shard"])
    elif fn == "sim":
        from vlib import simchecks

        simchecks.run_task(ctx, "C02", name, fn, **kw)
    else:
        from vlib import tamper

        tamper.run_task(ctx, name, fn, **kw)
