"""C01 - reliable, ordered, exactly-once stream delivery over any lossy network.

Two real endpoints in the virtual-time network simulator (vlib/simnet.py);
Hypothesis draws the application script and the per-datagram fates of a bounded
adversarial phase, followed by a fair phase.  Oracle: per-stream byte log.
"""
PROPERTY = "C01"
LEVEL = "exploration"
RULE = (
    "one evaluation = one simulated connection: configuration (reno/cubic, QUIC v1/v2, small flow-control windows, max_datagram_size) x "
    "application script (writes of 0..20000 bytes with/without FIN, FIN-only writes, resets, stop-sending, pings, key updates, connection-ID "
    "changes, client address rebinds, on bidirectional and unidirectional streams, both directions) x per-datagram fates (deliver with delay, "
    "drop, duplicate, long delay) for a 3 s adversarial phase, then 20 s of fair delivery (datagrams addressed to an address the client has left are lost in the adversarial phase, and in the fair phase too once the server has heard from and answered to the current address). Oracle after every event: delivered bytes are a prefix "
    "of the written bytes, at most one end marker and only after everything; at the end of the fair phase: every byte, FIN and ping delivered; "
    "never a ConnectionTerminated. Non-trivial = at least one datagram was dropped, duplicated or held back across an address change and at least one stream delivered its FIN; "
    "distinct by the case digest."
)
ASSUMPTIONS = [
    "the caller follows the documented Sans-IO cycle (events, datagrams_to_send, get_timer after every call; timers fired at or after the deadline)",
    "liveness is bounded: 20 virtual seconds of fair delivery (event budget 6000); exhausting the budget is inconclusive, not a violation",
    "determinism pins of vlib/endpoints.py (DRBG for os.urandom, deterministic key generation, QuicStream.__hash__)",
]


def plan(tier, seed):
    from vlib import simchecks

    return simchecks.plan_for("C01", tier, seed)


def run_task(ctx, name, fn, **kw):
    from vlib import simchecks

    simchecks.run_task(ctx, "C01", name, fn, **kw)


def replay(ctx, case):
    from vlib import simchecks

    simchecks.replay(ctx, case, "C01")
