"""C18 - connection-ID lifecycle honours the peer's instructions.

A key-holding peer (vlib/takeover.py) drives NEW_CONNECTION_ID /
RETIRE_CONNECTION_ID histories, DCID switches, local change_connection_id()
calls and selective acknowledgements against a connected SUT (client and
server); a reference model of both connection-ID sets judges the decrypted wire.
"""
PROPERTY = "C18"
LEVEL = "exploration"
RULE = (
    "one evaluation = one history against a connected SUT (client or server, peer active_connection_id_limit in {2,3,4,8,16}): "
    "NEW_CONNECTION_ID frames with sequence numbers from a small range (duplicates and reordering are frequent), retire_prior_to in any "
    "relation to earlier values, RETIRE_CONNECTION_ID for issued / already-retired / current IDs, the peer switching the DCID it uses among the "
    "IDs the SUT issued, local change_connection_id() calls, acknowledgements withheld so that the SUT's NEW_/RETIRE_ frames are lost and must "
    "be repeated; then a fair phase (everything acknowledged, timers fired). Model: after a retire_prior_to = r was processed every later packet "
    "uses a DCID with sequence >= max r; every abandoned ID is announced in a RETIRE_CONNECTION_ID frame that was eventually acknowledged; "
    "peer-issued IDs held <= 8; SUT-issued outstanding IDs <= the peer's limit, each still accepted (a PING to it is acknowledged), and "
    "replaced after retirement. Non-trivial = the history retired the ID in use, lost a RETIRE/NEW frame, or switched the DCID; distinct by the history."
)
ASSUMPTIONS = [
    "an ID that arrives with a sequence number below an already processed retire_prior_to (never adopted) may be retired or ignored: the statement only speaks of IDs the endpoint abandons",
    "the number of peer-issued IDs held is read from the object (not observable on the wire)",
    "histories that make the SUT close the connection for a protocol violation of the peer (limit exceeded, retire_prior_to > sequence number, retiring the ID in use) end the case",
]

V62 = (1 << 62) - 1


def ops_strategy():
    from hypothesis import strategies as st

    ncid = st.tuples(st.just("ncid"), st.integers(0, 12), st.sampled_from(["0", "0", "seq", "seq", "seq-1", "seq-2", "cur", "cur+1"]))
    ret = st.tuples(st.just("retire"), st.integers(0, 12))
    ret2 = st.tuples(st.just("retire_again"), st.integers(0, 12))
    sw = st.tuples(st.just("switch"), st.integers(0, 12))
    simple = st.sampled_from([("local_change",), ("ack",), ("ack",), ("lose",), ("timer",), ("ping_each",), ("write",), ("bulk",), ("bulk",), ("spurious_loss",), ("spurious_loss",)])
    return st.lists(st.one_of(ncid, ncid, ncid, ret, ret, ret2, sw, simple, simple), min_size=2, max_size=14)


class Model:
    def __init__(self, tk, peer_limit):
        self.tk = tk
        self.peer_limit = peer_limit
        # IDs issued by the impersonated peer P (the SUT uses them as DCID)
        self.peer_issued = {}
        for v in tk.handshake_views[tk.P]:
            for f in v.frames or []:
                if f["name"] == "new_connection_id":
                    self.peer_issued[f["seq"]] = bytes(f["cid"])
        self.peer_issued.setdefault(0, tk.peer.host_cid if 0 not in self.peer_issued else self.peer_issued[0])
        self.peer_cid0 = self._initial_peer_cid()
        self.peer_issued[0] = self.peer_cid0
        self.rpt = 0
        self.accepted = set(self.peer_issued)  # sequence numbers the SUT has been given (and could adopt)
        self.used = []  # DCID sequence numbers seen on the wire, in order of first use
        self.announced = {}  # seq -> list of packet numbers carrying RETIRE(seq)
        self.acked_pns = set()
        self.sut_issued = dict(tk.sut_cids)  # seq -> cid issued by the SUT
        self.sut_retired = set()  # seqs the harness retired (frame delivered)
        self.issued_in = {}  # seq -> packet numbers that carried its NEW_CONNECTION_ID frame (after the takeover)
        self.nontrivial = False

    def _initial_peer_cid(self):
        # the CID the SUT currently uses towards P: read from its last emitted short header packet
        for t, views, _ in reversed(self.tk.wire.history[self.tk.X]):
            for v in views:
                if v.ptype == "1rtt" and v.raw:
                    return bytes(v.raw[1:9])
        return self.tk.peer.host_cid

    def seq_of(self, cid):
        for s, c in self.peer_issued.items():
            if c == cid:
                return s
        return None


def run_history(ctx, case, check=True):
    from vlib import endpoints as E
    from vlib import refquic as R
    from vlib.harness import exc_signature
    from vlib.takeover import Takeover

    role = case["role"]
    limit = case["limit"]
    with E.pinned(("c18", role, limit)):
        def prep(client, server, pump):
            pass

        # the peer's active_connection_id_limit is not configurable: set it on the genuine peer object before the handshake
        import aioquic.quic.connection as QC

        tk = None
        orig_init = QC.QuicConnection.__init__

        absent = case.get("limit_absent", False)  # the peer does not send active_connection_id_limit at all: the default is 2 (RFC 9000 18.2)
        if absent:
            limit = 2
        orig_ser = QC.QuicConnection._serialize_transport_parameters

        def patched(self, *a, **k):
            orig_init(self, *a, **k)
            is_client = self._is_client
            if (role == "server" and is_client) or (role == "client" and not is_client):
                self._local_active_connection_id_limit = limit
                self._verif_is_peer = True

        def ser(self):
            if absent and getattr(self, "_verif_is_peer", False):
                keep = self._local_active_connection_id_limit
                self._local_active_connection_id_limit = None
                try:
                    return orig_ser(self)
                finally:
                    self._local_active_connection_id_limit = keep
            return orig_ser(self)

        QC.QuicConnection.__init__ = patched
        QC.QuicConnection._serialize_transport_parameters = ser
        try:
            tk = Takeover(role)
        finally:
            QC.QuicConnection.__init__ = orig_init
            QC.QuicConnection._serialize_transport_parameters = orig_ser
        m = Model(tk, limit)
        cls = set()
        dead = [False]
        if check and len(m.sut_issued) > limit:
            ctx.violation(
                "more-connection-ids-issued-than-peer-allows",
                "during the handshake the SUT (%s) issued connection IDs with sequence numbers %s, the peer's active_connection_id_limit is %d" % (role, sorted(m.sut_issued), limit),
                case,
            )

        def sut_call(what, fn, *a, **k):
            try:
                return fn(*a, **k)
            except Exception as e:
                dead[0] = True
                ctx.violation("api-raised-" + exc_signature(e), "%s raised %r during a connection-ID history (SUT is the %s)" % (what, e, role), case)
                return None

        def observe():
            """drain the SUT and update the model from the decrypted wire"""
            if dead[0]:
                return
            sut_call("next_event", tk.drain_events)
            pk = sut_call("datagrams_to_send", tk.collect) or []
            for v in pk:
                if v.ptype != "1rtt" or v.frames is None:
                    continue
                dcid = bytes(v.raw[1:9])
                s = m.seq_of(dcid)
                if check and tk.terminated is None:
                    if s is None:
                        ctx.violation("packet-addressed-to-unknown-connection-id", "SUT sent a packet to DCID %s which the peer never issued" % dcid.hex(), case)
                    elif s < m.rpt and "connection_close" not in v.names():
                        ctx.violation(
                            "packet-addressed-to-retired-connection-id",
                            "after processing retire_prior_to=%d the SUT (%s) sent packet %d to the connection ID with sequence number %d" % (m.rpt, role, v.pn, s),
                            case,
                        )
                if check and s is not None and s in m.announced and v.pn > min(m.announced[s]) and "connection_close" not in v.names():
                    ctx.violation("packet-addressed-to-connection-id-it-retired", "the SUT (%s) announced the retirement of the peer's connection ID %d in packet %d and addressed packet %d to it" % (role, s, min(m.announced[s]), v.pn), case)
                if s is not None and s not in m.used:
                    m.used.append(s)
                for f in v.frames:
                    if f["name"] == "retire_connection_id":
                        m.announced.setdefault(f["seq"], []).append(v.pn)
                    elif f["name"] == "new_connection_id":
                        m.sut_issued[f["seq"]] = bytes(f["cid"])
                        m.issued_in.setdefault(f["seq"], []).append(v.pn)
            if tk.terminated is not None:
                dead[0] = True
                return
            if check and not closing():
                held = 1 + len(getattr(tk.sut, "_peer_cid_available", []))
                if held > 8:
                    ctx.violation("more-peer-connection-ids-kept-than-advertised", "SUT holds %d peer-issued connection IDs, it advertised a limit of 8" % held, case)
                outstanding = [s for s in m.sut_issued if s not in m.sut_retired]
                if len(outstanding) > m.peer_limit:
                    ctx.violation(
                        "more-connection-ids-issued-than-peer-allows",
                        "SUT has %d connection IDs outstanding (sequence numbers %s), the peer's active_connection_id_limit is %d" % (len(outstanding), sorted(outstanding), m.peer_limit),
                        case,
                    )

        def closing():
            return dead[0] or getattr(getattr(tk.sut, "_state", None), "name", "") in ("CLOSING", "DRAINING", "TERMINATED") or tk.sut._close_pending

        for op in case["ops"]:
            if dead[0] or closing():
                break
            kind = op[0]
            cls.add("op:" + kind)
            if kind == "ncid":
                _, seq, how = op
                cur = max(m.used) if m.used else 0
                rpt = {"0": 0, "seq": seq, "seq-1": max(0, seq - 1), "seq-2": max(0, seq - 2), "cur": min(seq, cur), "cur+1": min(seq, cur + 1)}[how]
                cid = m.peer_issued.get(seq) or bytes([0xC0 + seq % 16, seq]) + bytes(6)
                frame = {"name": "new_connection_id", "seq": seq, "retire_prior_to": rpt, "cid": cid, "reset_token": bytes([seq]) * 16}
                active_before = {x for x in m.accepted if x >= m.rpt}
                active_after = {x for x in active_before | {seq} if x >= max(m.rpt, rpt)}
                sut_call("receive_datagram", tk.send_frames, [frame])
                ev = tk.sut._close_event
                if check and ev is not None and ev.error_code == 0x9 and rpt <= seq and len(active_after) <= 8:
                    ctx.violation(
                        "peer-within-connection-id-limit-accused",
                        "NEW_CONNECTION_ID(seq=%d, retire_prior_to=%d) leaves %d active peer-issued IDs %s (the SUT advertised a limit of 8; before the frame: %s, retire_prior_to %d) but the SUT (%s) closed with CONNECTION_ID_LIMIT_ERROR (%s)" % (seq, rpt, len(active_after), sorted(active_after), sorted(active_before), m.rpt, role, ev.reason_phrase),
                        case,
                    )
                if not dead[0] and not tk.sut._close_pending:
                    if seq >= max(m.rpt, rpt) and seq not in m.peer_issued:
                        m.peer_issued[seq] = cid
                        m.accepted.add(seq)
                    elif seq not in m.peer_issued:
                        m.peer_issued.setdefault(seq, cid)
                    if rpt > m.rpt:
                        if m.used and m.used[-1] < rpt:
                            m.nontrivial = True
                            cls.add("retire-prior-to-retires-id-in-use")
                        m.rpt = rpt
            elif kind == "retire":
                out = sorted(s for s in m.sut_issued if s not in m.sut_retired)
                if not out:
                    continue
                seq = out[op[1] % len(out)]
                cur_dcid = tk.dcid
                if m.sut_issued.get(seq) == cur_dcid:
                    # retiring the ID the packet itself is addressed to is a protocol violation of the peer: switch first
                    others = [s for s in out if s != seq]
                    if not others:
                        continue
                    tk.dcid = m.sut_issued[others[0]]
                    cls.add("switch-dcid")
                    m.nontrivial = True
                sut_call("receive_datagram", tk.send_frames, [{"name": "retire_connection_id", "seq": seq}])
                m.sut_retired.add(seq)
            elif kind == "retire_again":
                # a retransmitted RETIRE_CONNECTION_ID for an ID that was retired before: it changes nothing
                gone = sorted(m.sut_retired)
                if gone:
                    seq = gone[op[1] % len(gone)]
                    if m.sut_issued.get(seq) != tk.dcid:
                        sut_call("receive_datagram", tk.send_frames, [{"name": "retire_connection_id", "seq": seq}])
                        cls.add("retire-repeated")
                        m.nontrivial = True
            elif kind == "switch":
                out = sorted(s for s in m.sut_issued if s not in m.sut_retired)
                if out:
                    tk.dcid = m.sut_issued[out[op[1] % len(out)]]
                    cls.add("switch-dcid")
                    m.nontrivial = True
                    sut_call("receive_datagram", tk.send_frames, [{"name": "ping"}])
            elif kind == "local_change":
                sut_call("change_connection_id", tk.sut.change_connection_id)
            elif kind == "ack":
                pns = [v.pn for v in tk.sut_packets if v.space == "app" and v.pn is not None]
                m.acked_pns.update(pns)
                sut_call("receive_datagram", tk.ack)
            elif kind == "lose":
                # forget what the SUT sent so far: it is never acknowledged, the SUT has to detect the loss
                lost = [v for v in tk.sut_packets if v.pn is not None and v.pn not in m.acked_pns]
                if any(n in ("retire_connection_id", "new_connection_id") for v in lost for n in v.names()):
                    m.nontrivial = True
                    cls.add("lost-cid-frame")
                tk.sut_packets = [v for v in tk.sut_packets if v.pn in m.acked_pns]
                for _ in range(3):
                    if dead[0]:
                        break
                    sut_call("timer", tk.fire_timer, max_wait=8.0)
                    observe()
                    tk.sut_packets = [v for v in tk.sut_packets if v.pn in m.acked_pns]
            elif kind == "timer":
                sut_call("timer", tk.fire_timer, max_wait=8.0)
            elif kind == "write":
                try:
                    sid = tk.sut.get_next_available_stream_id(is_unidirectional=True)
                    tk.sut.send_stream_data(sid, b"x" * 50, end_stream=True)
                except Exception:
                    pass
            elif kind == "bulk":
                # enough unacknowledged stream data to use up the congestion window: the next control frames do not fit right away
                try:
                    sid = tk.sut.get_next_available_stream_id(is_unidirectional=True)
                    tk.sut.send_stream_data(sid, b"y" * 200000, end_stream=True)
                except Exception:  # noqa
                    pass
            elif kind == "spurious_loss":
                # The packet carrying the SUT's newest NEW_CONNECTION_ID frames is overtaken by three later packets: the SUT declares it lost
                # although the peer did receive it, and the peer uses the new IDs right away - before the SUT's next datagrams_to_send().
                out = sorted(s for s in m.sut_issued if s not in m.sut_retired)
                victims = [s for s in out if m.sut_issued[s] != tk.dcid]
                if victims:
                    sut_call("receive_datagram", tk.send_frames, [{"name": "retire_connection_id", "seq": victims[0]}])
                    m.sut_retired.add(victims[0])
                    observe()  # (the replacement is issued here)
                before = {v.pn for v in tk.sut_packets if v.space == "app" and v.pn is not None}
                later = []
                for i in range(3):
                    try:
                        tk.sut.send_ping(900 + i)
                    except Exception:  # noqa
                        pass
                    n0 = len(tk.sut_packets)
                    observe()
                    later += [v.pn for v in tk.sut_packets[n0:] if v.space == "app" and v.pn is not None]
                if later and not dead[0] and not closing():
                    m.acked_pns.update(later)
                    sut_call("receive_datagram", tk.ack, later)
                    cls.add("spurious-loss")
                    ping_each(ctx, tk, m, case, sut_call, observe, dead, check, collect_between=False)
            elif kind == "ping_each":
                ping_each(ctx, tk, m, case, sut_call, observe, dead, check)
            observe()

        # fair phase: everything is acknowledged, timers fire, until quiet
        for _ in range(8):
            if dead[0] or closing():
                break
            # an ack-eliciting packet from the peer makes the SUT send something new, whose acknowledgement lets it detect losses
            sut_call("receive_datagram", tk.send_frames, [{"name": "ping"}])
            observe()
            sut_call("timer", tk.fire_timer, max_wait=1.0)
            observe()
            pns = [v.pn for v in tk.sut_packets if v.space == "app" and v.pn is not None]
            m.acked_pns.update(pns)
            sut_call("receive_datagram", tk.ack)
            observe()
            sut_call("timer", tk.fire_timer, max_wait=2.0)
            observe()
        alive = not dead[0] and not closing()
        if check and alive:
            # every abandoned ID was announced in a RETIRE_CONNECTION_ID frame that got through
            current = m.used[-1] if m.used else 0
            abandoned = {s for s in m.accepted if s < m.rpt} | {s for s in m.used if s != current}
            abandoned.discard(current)
            for s in sorted(abandoned):
                pns = m.announced.get(s, [])
                if not pns:
                    ctx.violation("abandoned-connection-id-never-retired", "the SUT (%s) abandoned the peer's connection ID with sequence number %d (retire_prior_to=%d, IDs used %s) but never sent RETIRE_CONNECTION_ID for it" % (role, s, m.rpt, m.used), case)
                elif not any(p in m.acked_pns for p in pns):
                    ctx.violation("retirement-not-announced-again-after-loss", "RETIRE_CONNECTION_ID(%d) was only sent in packets %s, none of which was acknowledged" % (s, pns), case)
            # retired IDs are replaced
            # (a replacement only counts once its NEW_CONNECTION_ID frame got through)
            outstanding = [s for s in m.sut_issued if s not in m.sut_retired and (s not in m.issued_in or any(p in m.acked_pns for p in m.issued_in[s]))]
            want = min(8, m.peer_limit)
            if len(outstanding) < want and m.sut_retired:
                ctx.violation("retired-connection-ids-not-replaced", "after the peer retired %s the SUT has %d connection IDs outstanding, expected %d" % (sorted(m.sut_retired), len(outstanding), want), case)
            ping_each(ctx, tk, m, case, sut_call, observe, dead, check)
        ctx.case(("cid", repr(case)), nontrivial=m.nontrivial, classes=sorted(cls) + ["c18:" + role, "c18:limit%d" % limit, "c18:" + ("alive" if alive else "closed")])
        return m


def ping_each(ctx, tk, m, case, sut_call, observe, dead, check, collect_between=True):
    """A PING addressed to each connection ID the SUT issued and the peer has not retired must be accepted (acknowledged)."""
    saved = tk.dcid
    if not collect_between:
        # all the PINGs arrive in one batch, before the SUT gets to send anything
        sent = []
        first = len(tk.sut_packets)
        for s in sorted(m.sut_issued):
            if s in m.sut_retired or dead[0]:
                continue
            tk.dcid = m.sut_issued[s]
            sent.append((s, sut_call("receive_datagram", tk.send_frames, [{"name": "ping"}])))
        tk.dcid = saved
        observe()
        for _ in range(3):
            if dead[0]:
                break
            sut_call("timer", tk.fire_timer, max_wait=8.0, at_least=0.0005)
            observe()
        if dead[0] or not check or tk.terminated is not None or tk.sut._close_pending:
            return
        acked = set()
        for v in tk.sut_packets[first:]:
            for f in v.frames or []:
                if f["name"] == "ack":
                    for r in f["acked"] or []:
                        acked.update(range(min(r), max(r) + 1))
        for s, pn in sent:
            if pn is not None and pn not in acked:
                ctx.violation("packet-to-issued-connection-id-not-accepted", "a PING addressed to the connection ID with sequence number %d (issued by the SUT, not retired by the peer) right after an acknowledgement that made the SUT declare earlier packets lost was not acknowledged" % s, case)
        return
    for s in sorted(m.sut_issued):
        if s in m.sut_retired or dead[0]:
            continue
        tk.dcid = m.sut_issued[s]
        first = len(tk.sut_packets)
        pn = sut_call("receive_datagram", tk.send_frames, [{"name": "ping"}])
        observe()
        for _ in range(3):
            # (a deadline that is already due is served on the caller's next loop iteration, a little later)
            if dead[0]:
                break
            sut_call("timer", tk.fire_timer, max_wait=8.0, at_least=0.0005)
            observe()
        if dead[0] or not check:
            continue
        acked = False
        for v in tk.sut_packets[first:]:
            for f in v.frames or []:
                if f["name"] == "ack" and any(min(r) <= pn <= max(r) for r in f["acked"] or []):
                    acked = True
        if not acked and tk.terminated is None and not tk.sut._close_pending:
            ctx.violation("packet-to-issued-connection-id-not-accepted", "a PING addressed to the connection ID with sequence number %d (issued by the SUT, not retired by the peer) was not acknowledged" % s, case)
    tk.dcid = saved


def histories(ctx, examples, shard, check=True):
    from hypothesis import strategies as st
    from vlib.harness import run_hypothesis

    strat = st.fixed_dictionaries({"kind": st.just("cid"), "role": st.sampled_from(["server", "client"]), "limit": st.sampled_from([2, 3, 4, 8, 8, 16]), "limit_absent": st.sampled_from([False, False, False, False, True]), "ops": ops_strategy()})

    def body(ctx, case):
        run_history(ctx, case, check=check)
        if ctx.want_sample():
            ctx.sample(case)

    run_hypothesis(ctx, body, strat, examples, shard=shard)


def tup(x):
    return tuple(tup(v) for v in x) if isinstance(x, list) else x


def replay(ctx, case):
    case = dict(case, ops=[tup(o) for o in case["ops"]])
    run_history(ctx, case)


def plan(tier, seed):
    q = tier == "quick"
    return [("cid-histories-%d" % s, {"examples": 220 if q else 8000, "shard": s}) for s in range(12 if q else 16)]


def run_task(ctx, name, **kw):
    histories(ctx, kw["examples"], kw["shard"])
