"""C08 - loss-recovery and congestion accounting stay consistent.

(a) Hypothesis rule-based machine on QuicPacketRecovery (+Reno / CUBIC) with a
    ledger model: every sent packet carries a recording delivery handler.
(b) wire monitor in the network simulator (added by props/simchecks when the
    simulator runs C01-style scripts with large writes): see task "wire-*".
"""
import math

PROPERTY = "C08"
LEVEL = "exploration"
RULE = (
    "(a) one evaluation = one rule step (send / ack(range set) / advance+loss-timer / discard) of a rule-based machine over "
    "QuicPacketRecovery with three packet number spaces, reno and cubic; invariants checked after every step; non-trivial = "
    "an ack naming a never-sent or already-removed number, an ack with >=2 ranges, a loss-timer firing that removed packets, "
    "a PTO, or a discard with packets in flight; distinct by (last 3 ops). "
    "(b) one evaluation = one datagrams_to_send call of a real endpoint in the simulator; non-trivial = the call was made while "
    "bytes_in_flight > cwnd/2."
)
ASSUMPTIONS = [
    "caller contract of QuicPacketRecovery as QuicConnection uses it: packet numbers strictly increase per space, time never goes back, "
    "the loss timer is fired only at or after get_loss_detection_time(), no send/ack on a discarded space, ack range sets are non-empty",
    "'still being tracked' is read from space.sent_packets and cross-checked with the ledger of delivery callbacks",
]


def recovery_machine(ctx, examples, steps, shard):
    from hypothesis import strategies as st
    from hypothesis.stateful import RuleBasedStateMachine, initialize, precondition, rule

    from aioquic import tls
    from aioquic.quic.packet import QuicPacketType
    from aioquic.quic.packet_builder import QuicDeliveryState, QuicSentPacket
    from aioquic.quic.rangeset import RangeSet
    from aioquic.quic.recovery import QuicPacketRecovery, QuicPacketSpace
    from vlib.harness import run_hypothesis

    class M(RuleBasedStateMachine):
        @initialize(cc=st.sampled_from(["reno", "cubic"]), mds=st.sampled_from([1200, 1280, 1350, 1452]), pcav=st.booleans(), rtt=st.sampled_from([0.001, 0.02, 0.1, 0.5]))
        def init(self, cc, mds, pcav, rtt):
            self.cfg = {"cc": cc, "mds": mds, "pcav": pcav, "rtt": rtt}
            self.mds = mds
            self.probes = 0
            self.rec = QuicPacketRecovery(
                congestion_control_algorithm=cc,
                initial_rtt=rtt,
                max_datagram_size=mds,
                peer_completed_address_validation=pcav,
                send_probe=self._probe,
            )
            self.spaces = [QuicPacketSpace() for _ in range(3)]
            self.rec.spaces = self.spaces
            self.now = 0.0
            self.next_pn = [0, 0, 0]
            self.discarded = set()
            self.ledger = {}  # (space, pn) -> dict(size, in_flight, ae, state)
            self.log = []
            self.current_ack = None  # (space, set of acked numbers) during on_ack_received
            self.in_call = None
            self.bad = None

        def _probe(self):
            self.probes += 1

        def case(self):
            return {"kind": "recovery-machine", "config": self.cfg, "ops": self.log}

        def handler(self, state, si, pn):
            e = self.ledger[(si, pn)]
            if e["state"] != "out":
                self.bad = ("handler-fired-twice", "delivery handler of packet %d in space %d fired again (%s) after %s" % (pn, si, state.name, e["state"]))
                return
            if si in self.discarded:
                self.bad = ("handler-after-discard", "delivery handler of packet %d fired after its space %d was discarded" % (pn, si))
                return
            if state == QuicDeliveryState.ACKED:
                ok = self.current_ack is not None and self.current_ack[0] == si and pn in self.current_ack[1]
                if not ok:
                    self.bad = ("acked-without-ack", "packet %d of space %d reported ACKED during %r which does not acknowledge it" % (pn, si, self.in_call))
                    return
                e["state"] = "acked"
            else:
                if self.current_ack is not None and self.current_ack[0] == si and pn in self.current_ack[1]:
                    self.bad = ("lost-although-acked", "packet %d of space %d reported LOST by the ack that names it" % (pn, si))
                    return
                e["state"] = "lost"

        def check(self, op, nontrivial):
            self.log.append(op)
            ctx.case(tuple(self.log[-3:]), nontrivial=nontrivial, classes=["rec:" + op[0]])
            if self.bad:
                sig, text = self.bad
                self.bad = None
                ctx.violation(sig, text, self.case())
            rec = self.rec
            out = {k: e for k, e in self.ledger.items() if e["state"] == "out"}
            tracked = {(i, pn) for i, s in enumerate(self.spaces) for pn in s.sent_packets}
            if tracked != set(out):
                ctx.violation(
                    "tracking-differs-from-ledger",
                    "after %r: packets still tracked %s, ledger says outstanding %s" % (op, sorted(tracked - set(out))[:5], sorted(set(out) - tracked)[:5]),
                    self.case(),
                )
            infl = sum(p.sent_bytes for s in self.spaces for p in s.sent_packets.values() if p.in_flight)
            if rec.bytes_in_flight != infl:
                ctx.violation("bytes-in-flight-mismatch", "after %r: bytes_in_flight=%d, in-flight packets still tracked total %d" % (op, rec.bytes_in_flight, infl), self.case())
            if rec.bytes_in_flight < 0:
                ctx.violation("bytes-in-flight-negative", "after %r: bytes_in_flight=%d" % (op, rec.bytes_in_flight), self.case())
            if rec.congestion_window < 2 * self.mds:
                ctx.violation("cwnd-below-two-datagrams", "after %r: congestion_window=%d < 2*%d" % (op, rec.congestion_window, self.mds), self.case())
            for i, s in enumerate(self.spaces):
                cnt = sum(1 for p in s.sent_packets.values() if p.is_ack_eliciting)
                if s.ack_eliciting_in_flight != cnt:
                    ctx.violation("ack-eliciting-count-mismatch", "after %r: space %d ack_eliciting_in_flight=%d, tracked ack-eliciting packets=%d" % (op, i, s.ack_eliciting_in_flight, cnt), self.case())
            t = rec.get_loss_detection_time()
            if sum(s.ack_eliciting_in_flight for s in self.spaces) > 0 and (t is None or not math.isfinite(t)):
                ctx.violation("no-loss-timer-with-ack-eliciting-outstanding", "after %r: get_loss_detection_time()=%r" % (op, t), self.case())

        # ---- rules
        @precondition(lambda self: len(self.discarded) < 3)
        @rule(data=st.data())
        def send(self, data):
            live = [i for i in range(3) if i not in self.discarded]
            si = data.draw(st.sampled_from(live))
            ae = data.draw(st.integers(0, 9)) < 8
            infl = ae or data.draw(st.booleans())
            crypto = data.draw(st.integers(0, 9)) < 3
            size = data.draw(st.sampled_from([20, 45, 100, 600, self.mds]))
            self.next_pn[si] += data.draw(st.sampled_from([0, 0, 0, 1, 3]))
            pn = self.next_pn[si]
            self.next_pn[si] += 1
            p = QuicSentPacket(
                epoch=tls.Epoch.ONE_RTT,
                in_flight=infl,
                is_ack_eliciting=ae,
                is_crypto_packet=crypto,
                packet_number=pn,
                packet_type=QuicPacketType.ONE_RTT,
                sent_time=self.now,
                sent_bytes=size,
            )
            p.delivery_handlers.append((self.handler, (si, pn)))
            self.ledger[(si, pn)] = {"size": size, "in_flight": infl, "ae": ae, "state": "out"}
            self.in_call = ("send", si, pn)
            self.rec.on_packet_sent(packet=p, space=self.spaces[si])
            self.check(("send", si, pn, size, int(infl), int(ae), int(crypto)), False)

        @precondition(lambda self: len(self.discarded) < 3)
        @rule(data=st.data())
        def ack(self, data):
            live = [i for i in range(3) if i not in self.discarded]
            si = data.draw(st.sampled_from(live))
            top = self.next_pn[si]
            nranges = data.draw(st.sampled_from([1, 1, 1, 2, 3, 6]))
            rs = RangeSet()
            ranges = []
            for _ in range(nranges):
                a = data.draw(st.integers(0, top + 4))
                n = data.draw(st.sampled_from([1, 1, 2, 3, 8, 40]))
                rs.add(a, a + n)
                ranges.append((a, a + n))
            acked = set()
            for a, b in ranges:
                acked.update(range(a, b))
            delay = data.draw(st.sampled_from([0.0, 0.001, 0.01, 0.025, 5.0]))
            never = any(n >= top or (si, n) not in self.ledger or self.ledger[(si, n)]["state"] != "out" for n in acked)
            self.current_ack = (si, acked)
            self.in_call = ("ack", si, ranges)
            try:
                self.rec.on_ack_received(ack_rangeset=rs, ack_delay=delay, now=self.now, space=self.spaces[si])
            finally:
                self.current_ack = None
            self.check(("ack", si, ranges, delay), never or nranges > 1)

        @rule(dt=st.sampled_from([0.0, 0.0001, 0.001, 0.01, 0.03, 0.1, 0.35, 1.0, 3.0, 30.0]))
        def advance(self, dt):
            self.now += dt
            t = self.rec.get_loss_detection_time()
            fired = False
            before = sum(len(s.sent_packets) for s in self.spaces)
            probes = self.probes
            if t is not None and self.now >= t:
                self.in_call = ("timer", self.now)
                self.rec.on_loss_detection_timeout(now=self.now)
                fired = True
            after = sum(len(s.sent_packets) for s in self.spaces)
            self.check(("advance", dt, int(fired)), fired and (after < before or self.probes > probes))

        @precondition(lambda self: len(self.discarded) < 3)
        @rule(data=st.data(), gate=st.integers(0, 5))
        def discard(self, data, gate):
            if gate:
                return
            live = [i for i in range(3) if i not in self.discarded]
            si = data.draw(st.sampled_from(live))
            infl = any(p.in_flight for p in self.spaces[si].sent_packets.values())
            self.in_call = ("discard", si)
            self.rec.discard_space(self.spaces[si])
            self.discarded.add(si)
            for (s, pn), e in self.ledger.items():
                if s == si and e["state"] == "out":
                    e["state"] = "expired"
            self.check(("discard", si), infl)

        def teardown(self):
            if getattr(self, "log", None) and len(self.log) > 10:
                ctx.sample({"recovery_machine": self.cfg, "ops": self.log[:10]})

    run_hypothesis(ctx, None, None, examples, shard=shard, stateful={"machine": M, "steps": steps})


def replay(ctx, case):
    """Replays a recovery-machine case outside Hypothesis."""
    from aioquic import tls
    from aioquic.quic.packet import QuicPacketType
    from aioquic.quic.packet_builder import QuicDeliveryState, QuicSentPacket
    from aioquic.quic.rangeset import RangeSet
    from aioquic.quic.recovery import QuicPacketRecovery, QuicPacketSpace

    if case.get("kind") != "recovery-machine":
        from vlib import simchecks

        return simchecks.replay(ctx, case)
    cfg = case["config"]
    probes = [0]
    rec = QuicPacketRecovery(
        congestion_control_algorithm=cfg["cc"], initial_rtt=cfg["rtt"], max_datagram_size=cfg["mds"],
        peer_completed_address_validation=cfg["pcav"], send_probe=lambda: probes.__setitem__(0, probes[0] + 1),
    )
    spaces = [QuicPacketSpace() for _ in range(3)]
    rec.spaces = spaces
    now = 0.0
    fired = {}
    discarded = set()

    def handler(state, si, pn):
        fired.setdefault((si, pn), []).append(state.name)

    for op in case["ops"]:
        ctx.case(tuple(op) if isinstance(op, list) else op, True)
        if op[0] == "send":
            _, si, pn, size, infl, ae, crypto = op
            p = QuicSentPacket(epoch=tls.Epoch.ONE_RTT, in_flight=bool(infl), is_ack_eliciting=bool(ae), is_crypto_packet=bool(crypto),
                               packet_number=pn, packet_type=QuicPacketType.ONE_RTT, sent_time=now, sent_bytes=size)
            p.delivery_handlers.append((handler, (si, pn)))
            rec.on_packet_sent(packet=p, space=spaces[si])
        elif op[0] == "ack":
            rs = RangeSet()
            for a, b in op[2]:
                rs.add(a, b)
            rec.on_ack_received(ack_rangeset=rs, ack_delay=op[3], now=now, space=spaces[op[1]])
        elif op[0] == "advance":
            now += op[1]
            t = rec.get_loss_detection_time()
            if t is not None and now >= t:
                rec.on_loss_detection_timeout(now=now)
        elif op[0] == "discard":
            rec.discard_space(spaces[op[1]])
            discarded.add(op[1])
        infl = sum(p.sent_bytes for s in spaces for p in s.sent_packets.values() if p.in_flight)
        if rec.bytes_in_flight != infl or rec.bytes_in_flight < 0:
            ctx.violation("bytes-in-flight-mismatch", "after %r: bytes_in_flight=%d, tracked=%d" % (op, rec.bytes_in_flight, infl), case)
        if rec.congestion_window < 2 * cfg["mds"]:
            ctx.violation("cwnd-below-two-datagrams", "after %r: cwnd=%d" % (op, rec.congestion_window), case)
        for k, v in fired.items():
            if len(v) > 1:
                ctx.violation("handler-fired-twice", "packet %r handlers %r" % (k, v), case)
        for i, s in enumerate(spaces):
            cnt = sum(1 for p in s.sent_packets.values() if p.is_ack_eliciting)
            if s.ack_eliciting_in_flight != cnt:
                ctx.violation("ack-eliciting-count-mismatch", "after %r: space %d" % (op, i), case)


def plan(tier, seed):
    t = []
    n = 8 if tier == "quick" else 12
    ex = 250 if tier == "quick" else 6000
    for i in range(n):
        t.append(("recovery-machine-%d" % i, {"fn": "machine", "examples": ex, "steps": 60 if tier == "quick" else 120, "shard": i}))
    try:
        from vlib import simchecks

        t += simchecks.plan_for("C08", tier, seed)
    except ImportError:
        pass
    return t


def run_task(ctx, name, fn, **kw):
    if fn == "machine":
        recovery_machine(ctx, kw["examples"], kw["steps"], kw["shard"])
    else:
        from vlib import simchecks

        simchecks.run_task(ctx, "C08", name, fn, **kw)
